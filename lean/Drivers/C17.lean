import HdVerif.Model.Json
import HdVerif.Model.Coding
import HdVerif.Model.CodingStore
import HdVerif.Generated.T17m
import Std.Data.HashMap
open Lean HdVerif HdVerif.Drv HdVerif.Coding HdVerif.Gen

def optStr (j : Json) : Except String (Option String) :=
  match j with
  | .null => pure none
  | .str s => pure (some s)
  | _ => throw "string or null expected"

def optStrToJson : Option String → Json
  | none => Json.null
  | some s => Json.str s

def parseDS (j : Json) : Except String DS := do
  let a ← j.getArr?
  a.toList.mapM (fun e => do
    let p ← e.getArr?
    match p.toList with
    | [k, v] => pure ((← k.getStr?), (← v.getStr?))
    | _ => throw "pair expected")

def dsToJson (d : DS) : Json :=
  Json.arr (d.map (fun (k, v) => Json.arr #[Json.str k, Json.str v])).toArray

def parseObj (j : Json) : Except String Obj :=
  match j.getObjVal? "code" with
  | .ok c => do
    let a ← c.getArr?
    match a.toList with
    | [v, s, m, ver] => pure (.code ⟨← optStr v, ← optStr s, ← optStr m, ← optStr ver⟩)
    | _ => throw "code needs 4 entries"
  | .error _ => do
    let d ← j.getObjVal? "concept"
    pure (.concept (← parseDS d))

def getObj (j : Json) (k : String) : Except String Obj := do parseObj (← j.getObjVal? k)

/-- `snomed_mapping[s].get(v)` from the tables REGENERATED from pydicom's `_snomed_dict.py` (T17m) -/
abbrev Tables := Std.HashMap String (Std.HashMap String String)

def buildTables : Tables :=
  snomedTables.foldl (fun acc (s, entries) => acc.insert s (Std.HashMap.ofList entries)) {}

def mappingOf (t : Tables) : String → String → Option String := fun s v =>
  match t.get? s with
  | some m => m.get? v
  | none => none

def parseOps (j : Json) : Except String (List Op) := do
  let a ← j.getArr?
  a.toList.mapM (fun e => do
    let p ← e.getArr?
    match p.toList with
    | [k] => pure (Op.del (← k.getStr?))
    | [k, v] => pure (Op.set (← k.getStr?) (← v.getStr?))
    | _ => throw "op needs 1 or 2 entries")

def clsOfStr : String → Cls
  | "dataset" => .dataset
  | "concept" => .codedConcept
  | _ => .notDataset

def clsToStr : Cls → String
  | .dataset => "dataset" | .codedConcept => "concept" | .notDataset => "other"

def cellToJson (c : Cell) : Json := Json.mkObj [("cls", Json.str (clsToStr c.cls)), ("ds", dsToJson c.ds)]


/-- an injective stand-in for Python's string hash (the dict model only needs equal strings ↦ equal hashes and —
as for the real hash with overwhelming probability — different strings ↦ different hashes) -/
def strCode (s : String) : Int := (s.foldl (fun acc c => acc * 1114112 + c.toNat + 1) 0 : Nat)

def objToJson : Obj → Json
  | .concept d => Json.mkObj [("concept", dsToJson d)]
  | .code c => Json.mkObj [("code", Json.arr #[optStrToJson c.value, optStrToJson c.scheme, optStrToJson c.meaning, optStrToJson c.version])]

def parseDOp (j : Json) : Except String (DOp Int) := do
  let op ← getStr j "op"
  let k ← getObj j "k"
  match op with
  | "set" => pure (.set k (← getInt j "v"))
  | "get" => pure (.get k)
  | "del" => pure (.del k)
  | _ => throw "dict op: set / get / del"

def parseHOp (j : Json) : Except String HOp := do
  let op ← getStr j "op"
  match op with
  | "new" => pure (.new (← getStr j "value") (← getStr j "scheme") (← getStr j "meaning") (← optStr (j.getObjValD "version")))
  | "fromCode" => pure (.fromCode (← getStr j "value") (← getStr j "scheme") (← getStr j "meaning") (← optStr (j.getObjValD "version")))
  | "fromConcept" => pure (.fromConcept (← getNat j "r"))
  | "fromDataset" => pure (.fromDataset (← getNat j "r") (← getBool j "copy"))
  | "deepcopy" => pure (.deepcopy (← getNat j "r"))
  | "set" => pure (.set (← getNat j "r") (← getStr j "k") (← getStr j "v"))
  | "del" => pure (.del (← getNat j "r") (← getStr j "k"))
  | _ => throw "store op unknown"

def optIntToJson : Option Int → Json
  | none => Json.null
  | some i => (i : Json)

def optNatToJson : Option Nat → Json
  | none => Json.null
  | some i => (i : Json)

def pyHashStub (s : String) : Int := (s.hash.toNat : Int)

def handlers (t : Tables) : List (String × Handler) := [
  ("eq", fun j => do
    let r := objEq (mappingOf t) (← getObj j "a") (← getObj j "b")
    pure (exceptToJson (fun (b : Bool) => Json.bool b) r)),
  ("ne", fun j => do
    let r := objNe (mappingOf t) (← getObj j "a") (← getObj j "b")
    pure (exceptToJson (fun (b : Bool) => Json.bool b) r)),
  ("hashInput", fun j => do
    let r := hashInput (← getObj j "o")
    pure (exceptToJson (fun (s : String) => Json.str s) r)),
  ("setLen2", fun j => do
    let r := setLen2 pyHashStub (mappingOf t) (← getObj j "a") (← getObj j "b")
    pure (exceptToJson (fun (n : Nat) => (n : Json)) r)),
  ("mutatedEq", fun j => do
    -- a concept after a sequence of attribute assignments / deletions, compared in both directions
    let d ← parseDS (← j.getObjVal? "ds")
    let d' := applyOps d (← parseOps (← j.getObjVal? "ops"))
    let o ← getObj j "other"
    let f := fun (r : Except ErrKind Bool) => exceptToJson (fun (b : Bool) => Json.bool b) r
    pure (Json.mkObj [("ok", Json.mkObj [("ds", dsToJson d'), ("ab", f (objEq (mappingOf t) (.concept d') o)),
      ("ba", f (objEq (mappingOf t) o (.concept d')))])])),
  ("mk", fun j => do
    let ver ← optStr (j.getObjValD "version")
    let r := mkConcept (← getStr j "value") (← getStr j "scheme") (← getStr j "meaning") ver
    pure (exceptToJson dsToJson r)),
  ("value", fun j => do
    let r := prop (← parseDS (← j.getObjVal? "ds")) (← getStr j "name")
    pure (exceptToJson optStrToJson r)),
  ("fromCode", fun j => do
    let r := fromCode (← getObj j "o")
    pure (exceptToJson (fun (o : Obj) => match o with
      | .concept d => Json.mkObj [("concept", dsToJson d)]
      | .code c => Json.mkObj [("code", Json.arr #[optStrToJson c.value, optStrToJson c.scheme, optStrToJson c.meaning, optStrToJson c.version])]) r)),
  ("dictHistory", fun j => do
    -- a history of d[k] = v / d.get(k) / del d[k] on one dict (set: v = 0); answers step by step + the final entries
    let ops ← (← getArr j "ops").toList.mapM parseDOp
    let (d, outs) := dictRun strCode (mappingOf t) ([] : PyDict Int) ops
    pure (okJson (Json.mkObj [
      ("steps", Json.arr (outs.map (exceptToJson optIntToJson)).toArray),
      ("entries", Json.arr (d.map (fun e => Json.arr #[objToJson e.key, (e.val : Json)])).toArray)]))),
  ("storeHistory", fun j => do
    let cells ← (← getArr j "heap").toList.mapM (fun c => do
      pure ({ cls := clsOfStr (← getStr c "cls"), ds := ← parseDS (← c.getObjVal? "ds") } : Cell))
    let ops ← (← getArr j "ops").toList.mapM parseHOp
    let (h, outs) := runH cells ops
    pure (okJson (Json.mkObj [
      ("steps", Json.arr (outs.map (exceptToJson optNatToJson)).toArray),
      ("heap", Json.arr (h.map cellToJson).toArray)]))),
  ("shallowHistory", fun j => do
    -- objects on element tables: copy.copy / deepcopy / assignment / deletion; answer = what every object reads at the end
    let d0 ← parseDS (← j.getObjVal? "ds")
    let ops ← (← getArr j "ops").toList.mapM (fun o => do
      match (← getStr o "op") with
      | "shallow" => pure (SOp.shallow (← getNat o "o"))
      | "deep" => pure (SOp.deep (← getNat o "o"))
      | "set" => pure (SOp.set (← getNat o "o") (← getStr o "k") (← getStr o "v"))
      | "del" => pure (SOp.del (← getNat o "o") (← getStr o "k"))
      | _ => throw "shallow op unknown")
    let s := srun { tables := [d0], objs := [0] } ops
    pure (okJson (Json.arr ((List.range s.objs.length).map (fun o => match s.content o with
      | some d => dsToJson d
      | none => Json.null)).toArray))),
  ("dictMutatedKey", fun j => do
    -- d = {before: 1}; the key object is then mutated into `after`; look-ups by the listed objects
    let before ← getObj j "before"
    let after ← getObj j "after"
    let probes ← (← getArr j "probes").toList.mapM parseObj
    match pySet strCode (mappingOf t) ([] : PyDict Int) before 1 with
    | .error e => pure (Json.mkObj [("err", Json.str e.toString)])
    | .ok d =>
      let d' := mutateKey d 0 after
      pure (okJson (Json.arr (probes.map (fun p => exceptToJson optIntToJson (pyGet strCode (mappingOf t) d' p))).toArray))),
  ("fileRT", fun j => do
    pure (okJson (dsToJson (fileRoundTrip (← parseDS (← j.getObjVal? "ds")))))),
  ("fromDataset", fun j => do
    let cell : Cell := { cls := clsOfStr (← getStr j "cls"), ds := ← parseDS (← j.getObjVal? "ds") }
    let copy ← getBool j "copy"
    -- optional: an attribute assigned through the returned reference afterwards
    let r := fromDataset [cell] 0 copy
    match r with
    | .error e => pure (Json.mkObj [("err", Json.str e.toString)])
    | .ok (h, ref) =>
      let h2 := setAttr h ref "CodeMeaning" "changed afterwards"
      match h[0]?, h[ref]?, h2[0]? with
      | some orig, some res, some origAfter =>
        pure (okJson (Json.mkObj [("same", Json.bool (ref == 0)), ("orig", cellToJson orig), ("res", cellToJson res),
          ("orig_after_write", cellToJson origAfter)]))
      | _, _, _ => throw "dangling reference")
]

def main : IO Unit := run (handlers buildTables)
