import HdVerif.Model.Json
import HdVerif.Model.Stack
open Lean HdVerif HdVerif.Drv HdVerif.Affine HdVerif.Stack

def getRows (j : Json) (k : String) : Except String (List (List Rat)) := do
  let a ← getArr j k
  a.toList.mapM fun r => do (← r.getArr?).toList.mapM parseRat

/-- list of optional rationals (`null` = attribute absent); a missing key is the empty list -/
def getOptRats (j : Json) (k : String) : Except String (List (Option Rat)) :=
  match j.getObjVal? k with
  | .error _ => pure []
  | .ok (.arr a) => a.toList.mapM fun v => match v with
    | .null => pure none
    | v => some <$> parseRat v
  | .ok _ => throw s!"{k}: list expected"

def getOptRat (j : Json) (k : String) : Except String (Option Rat) :=
  match j.getObjVal? k with
  | .error _ => pure none
  | .ok .null => pure none
  | .ok v => some <$> parseRat v

def getBoolD (j : Json) (k : String) (d : Bool) : Except String Bool :=
  match j.getObjVal? k with
  | .error _ => pure d
  | .ok v => v.getBool?

def getOpts (j : Json) : Except String (Except ErrKind Opts) := do
  let h ← (match j.getObjVal? "handedness" with
    | .error _ => pure "RIGHT_HANDED"
    | .ok v => v.getStr? : Except String String)
  let conv ← (match j.getObjVal? "conv" with
    | .error _ => pure Gen.volumeIndexConvention
    | .ok v => do pure (← v.getStr?).toList : Except String (List Char))
  let o : Opts := {
    rtol := ← getOptRat j "rtol", atol := ← getOptRat j "atol", sort := ← getBoolD j "sort" true,
    allowMissing := ← getBoolD j "allow_missing" false, allowDuplicate := ← getBoolD j "allow_duplicate" false,
    hint := ← getOptRat j "hint", conv := conv, enforce := ← getBoolD j "enforce" false }
  pure (if Gen.axisHandednessValues.contains h then .ok { o with rightHanded := h == "RIGHT_HANDED" } else .error .value)

def resJson : Option (Rat × List Int) → Json
  | none => Json.null
  | some (s, l) => Json.mkObj [("spacing", ratToJson s), ("positions", intsToJson l)]

def handlers : List (String × Handler) := [
  ("volumePositions", fun j => do
    let rows ← getRows j "positions"
    let ori ← getRatList j "ori"
    let eo ← getOpts j
    let r : Except ErrKind (Option (Rat × List Int)) := do
      let o ← eo
      getVolumePositions rows ori o
    pure (exceptToJson resJson r)),
  ("planeSortIndex", fun j => do
    let rows ← getRows j "positions"
    let ori ← getRatList j "ori"
    let eo ← getOpts j
    let r : Except ErrKind (List Nat) := do
      let o ← eo
      planeSortIndex rows ori o.conv o.rightHanded
    pure (exceptToJson natsToJson r)),
  ("assembleSeries", fun j => do
    let rows ← getRows j "positions"
    let ori ← getRatList j "ori"
    let items := rows.zipIdx
    let r := assembleSeries items (← getOptRats j "sbs") ori (← getOptRat j "rtol") (← getOptRat j "atol")
    pure (exceptToJson (fun (x : Rat × List Rat × List Nat) =>
      Json.mkObj [("spacing", ratToJson x.1), ("position", ratsToJson x.2.1), ("order", natsToJson x.2.2)]) r)),
  ("assembleFrames", fun j => do
    let rows ← getRows j "positions"
    let ori ← getRatList j "ori"
    let r := assembleFrames rows ori (← getOptRat j "hint") (← getOptRat j "rtol") (← getOptRat j "atol")
      (← getBoolD j "allow_missing" false)
    pure (exceptToJson (fun (x : Rat × List Rat × Int × List Int) =>
      Json.mkObj [("spacing", ratToJson x.1), ("position", ratsToJson x.2.1), ("slices", (x.2.2.1 : Json)),
                  ("frame_slices", intsToJson x.2.2.2)]) r)),
  ("assembleFramesSel", fun j => do
    let rows ← getRows j "positions"
    let ori ← getRatList j "ori"
    let start ← getNat j "start"
    let stop ← getNat j "stop"
    let r := assembleFramesSel rows ori (← getOptRat j "hint") (← getOptRat j "rtol") (← getOptRat j "atol")
      (← getBoolD j "allow_missing" false) start stop
    pure (exceptToJson (fun (x : Rat × List Rat × Int × List (Nat × Int)) =>
      Json.mkObj [("spacing", ratToJson x.1), ("position", ratsToJson x.2.1), ("slices", (x.2.2.1 : Json)),
                  ("frame_slices", Json.arr (x.2.2.2.map fun (p : Nat × Int) => Json.arr #[(p.1 : Json), (p.2 : Json)]).toArray)]) r)),
  ("seriesVolumePositions", fun j => do
    let rows ← getRows j "positions"
    let oris ← getRows j "orientations"
    let sbs ← getOptRats j "sbs"
    let eo ← getOpts j
    let r : Except ErrKind (Option (Rat × List Int)) := do
      let o ← eo
      seriesVolumePositions (oris.zip rows) sbs o
    pure (exceptToJson resJson r)),
  ("uniqueRows", fun j => do
    let rows ← getRows j "positions"
    match rowsToV3 rows with
    | .ok ps =>
      let u := uniqueRows ps
      pure (okJson (Json.mkObj [("unique", Json.arr (u.map fun v => ratsToJson v.toList).toArray),
                                ("inverse", natsToJson (ps.map (indexIn u)))]))
    | .error e => pure (Json.mkObj [("err", Json.str e.toString)])),
  ("ranks", fun j => do
    let d ← getRatList j "d"
    pure (okJson (Json.mkObj [("ranks", natsToJson (ranks d)), ("argsort", natsToJson (argsort d)),
                              ("sorted", ratsToJson (sortRat d))])))
]

def main : IO Unit := run handlers
