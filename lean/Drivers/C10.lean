import HdVerif.Model.Json
import HdVerif.Model.Affine
import HdVerif.Model.AffineCalls
import HdVerif.Model.AffineImage
open Lean HdVerif HdVerif.Drv HdVerif.Affine

def v3Json (v : V3) : Json := ratsToJson v.toList
/-- matrix as three ROWS (numpy's nested-list layout) -/
def m3Json (m : M3) : Json := Json.arr #[v3Json (m.row 0), v3Json (m.row 1), v3Json (m.row 2)]
def affJson (a : Aff) : Json := Json.mkObj [("m", m3Json a.m), ("t", v3Json a.t)]

def getChars (j : Json) (k : String) : Except String (List Char) := do
  pure (← getStr j k).toList

def getSpacing (j : Json) (k : String) : Except String Spacing := do
  let v ← j.getObjVal? k
  match v with
  | .arr a => do pure (.seq (← a.toList.mapM parseRat))
  | _ => do pure (.scalar (← parseRat v))

def getV3 (j : Json) (k : String) : Except String V3 := do
  match V3.ofList (← getRatList j k) with
  | some v => pure v
  | none => throw s!"{k}: 3 numbers expected"

def getOptRatList (j : Json) (k : String) : Except String (Option (List Rat)) :=
  match j.getObjVal? k with
  | .error _ => pure none
  | .ok .null => pure none
  | .ok (.arr a) => do pure (some (← a.toList.mapM parseRat))
  | .ok _ => throw s!"{k}: list expected"

def getOptIntList (j : Json) (k : String) : Except String (Option (List Int)) :=
  match j.getObjVal? k with
  | .error _ => pure none
  | .ok .null => pure none
  | .ok (.arr a) => do pure (some (← a.toList.mapM (·.getInt?)))
  | .ok _ => throw s!"{k}: list expected"

def getOptChars (j : Json) (k : String) : Except String (Option (List Char)) :=
  match j.getObjVal? k with
  | .error _ => pure none
  | .ok .null => pure none
  | .ok (.str s) => pure (some s.toList)
  | .ok _ => throw s!"{k}: string expected"

/-- 3×3 matrix from nested rows -/
def getM3 (j : Json) (k : String) : Except String M3 := do
  let a ← getArr j k
  match a.toList with
  | [r0, r1, r2] => do
    let f := fun (r : Json) => do
      let l ← (← r.getArr?).toList.mapM parseRat
      match V3.ofList l with
      | some v => pure v
      | none => throw "row of 3 expected"
    pure (M3.ofRows (← f r0) (← f r1) (← f r2))
  | _ => throw "3 rows expected"

/-- `AxisHandedness(handedness)`: a ValueError for strings outside the enum -/
def handed (s : String) : Except ErrKind Bool :=
  if Gen.axisHandednessValues.contains s then .ok (s == "RIGHT_HANDED") else .error .value

def pairJson (p : Rat × Rat) : Json := ratsToJson [p.1, p.2]
def int3Json (p : Int × Int × Int) : Json := intsToJson [p.1, p.2.1, p.2.2]

/-- optional value: absent key or null = none -/
def getOpt {α} (j : Json) (k : String) (f : Json → Except String α) : Except String (Option α) :=
  match j.getObjVal? k with
  | .error _ => pure none
  | .ok .null => pure none
  | .ok v => do pure (some (← f v))

def ratListOf (v : Json) : Except String (List Rat) := do
  (← v.getArr?).toList.mapM parseRat

def getBatch (j : Json) (k : String) : Except String Batch := do
  let b ← j.getObjVal? k
  let rows ← (← getArr b "rows").toList.mapM ratListOf
  pure ⟨← getNat b "ndim", ← getNat b "width", ← getBool b "int", rows⟩

def rowsJson (l : List (List Rat)) : Json := Json.arr (l.map ratsToJson).toArray

def groupsOf (v : Json) : Except String Groups := do
  let m ← getOpt v "measures" (fun x => do
    let ps ← getRatList x "ps"
    let sbs ← getOpt x "sbs" parseRat
    pure (ps, sbs))
  pure { measures := m, posSlide := ← getOpt v "pos_slide" ratListOf, posPatient := ← getOpt v "pos_patient" ratListOf,
         oriPatient := ← getOpt v "ori_patient" ratListOf }

def imageDsOf (v : Json) : Except String ImageDs := do
  let coord ← getOpt v "coord" (fun x => do
    match x with
    | .str "slide" => pure Coord.slide
    | .str "patient" => pure Coord.patient
    | _ => throw "coord: slide / patient expected")
  let tf ← getOpt v "tiled_full" (fun x => do
    pure ({ rows := ← getInt x "rows", cols := ← getInt x "cols", totalRows := ← getInt x "trows", totalCols := ← getInt x "tcols",
            source := { sopClass := ← getStr x "sop_class", segmentationType := (← getOpt x "segmentation_type" (fun y => y.getStr?)).getD "",
                        segments := ← getNat x "segments", declaredPaths := ← getOpt x "declared_paths" (fun y => y.getNat?),
                        pathItems := ← getNat x "path_items" },
            focalPlanes := ← getOpt x "planes" (fun y => y.getNat?) } : TiledFull))
  let org ← getOpt v "total_origin" (fun x => do
    pure (← getRat x "x", ← getRat x "y", ← getOpt x "z" parseRat))
  let shared ← (match v.getObjVal? "shared" with | .ok (.obj o) => groupsOf (.obj o) | _ => pure ({} : Groups))
  let pf ← (match v.getObjVal? "per_frame" with | .ok (.arr a) => a.toList.mapM groupsOf | _ => pure [])
  pure { coord := coord, multiframe := ← getBool v "multiframe",
         rootPos := (← getOpt v "root_pos" ratListOf).getD [], rootOri := (← getOpt v "root_ori" ratListOf).getD [],
         rootPs := (← getOpt v "root_ps" ratListOf).getD [], rootSbs := ← getOpt v "root_sbs" parseRat,
         shared := shared, perFrame := pf, tiledFull := tf, totalOrigin := org,
         oriSlide := (← getOpt v "ori_slide" ratListOf).getD [],
         frameOfReference := ← getOpt v "for_uid" (fun y => y.getStr?) }

def errOrJson {α} (f : α → Json) : Except ErrKind α → Json
  | .ok v => f v
  | .error e => Json.mkObj [("error", Json.str e.toString)]

def optRatJson : Option Rat → Json
  | some r => ratToJson r
  | none => Json.null

def handlers : List (String × Handler) := [
  ("createRotation", fun j => do
    let o ← getRatList j "ori"
    let conv ← getChars j "conv"
    let sf ← getBool j "slices_first"
    let h ← getStr j "handedness"
    let ps ← getSpacing j "ps"
    let sbs ← getRat j "sbs"
    let r : Except ErrKind M3 := do
      let rh ← handed h
      match Ori.ofList o with
      | some oo => createRotation oo conv sf rh ps sbs
      | none => .error .value
    pure (exceptToJson m3Json r)),
  ("affineFromAttributes", fun j => do
    let h ← getStr j "handedness"
    let pos ← getRatList j "pos"
    let ori ← getRatList j "ori"
    let ps ← getSpacing j "ps"
    let sbs ← getRat j "sbs"
    let conv ← getChars j "conv"
    let sf ← getBool j "slices_first"
    let r : Except ErrKind Aff := do
      let rh ← handed h
      affineFromAttributes pos ori ps sbs conv sf rh
    pure (exceptToJson affJson r)),
  ("invAffine", fun j => do
    let r := invAffineFromAttributes (← getRatList j "pos") (← getRatList j "ori") (← getSpacing j "ps") (← getRat j "sbs")
    pure (exceptToJson affJson r)),
  ("fromComponents", fun j => do
    let r := affineFromComponents (← getSpacing j "spacing") (← getOptRatList j "position")
      (← getOptRatList j "center") (← getOptRatList j "direction") (← getOptChars j "orientation")
      (← getOptIntList j "shape")
    pure (exceptToJson affJson r)),
  ("rotationForOrientation", fun j => do
    let sp ← getSpacing j "spacing"
    let s : Except String V3 := match sp with
      | .scalar s => pure ⟨s, s, s⟩
      | .seq [a, b, c] => pure ⟨a, b, c⟩
      | .seq _ => throw "3 spacings expected"
    let r := rotationForOrientation (← getChars j "letters") (← s)
    pure (exceptToJson m3Json r)),
  ("closestOrientation", fun j => do
    let r := closestOrientation (← getM3 j "m")
    pure (exceptToJson (fun (l : List Char) => Json.str (String.ofList l)) r)),
  ("toConvention", fun j => do
    let a : Aff := ⟨← getM3 j "m", ← getV3 j "t"⟩
    let r := transformToConvention a (← getChars j "from") (← getChars j "to")
    pure (exceptToJson affJson r)),
  ("coplanar", fun j => do
    let oa ← getRatList j "ori_a"
    let ob ← getRatList j "ori_b"
    let pa ← getV3 j "pos_a"
    let pb ← getV3 j "pos_b"
    let r : Except ErrKind Bool := match Ori.ofList oa, Ori.ofList ob with
      | some a, some b => areCoplanar pa a pb b
      | _, _ => .error .value
    pure (exceptToJson (fun (b : Bool) => Json.bool b) r)),
  ("pixToRef", fun j => do
    let r := pixToRef (← getRatList j "pos") (← getRatList j "ori") (← getSpacing j "ps") (← getInt j "c") (← getInt j "r")
    pure (exceptToJson v3Json r)),
  ("refToPix", fun j => do
    let pos ← getRatList j "pos"
    let ori ← getRatList j "ori"
    let ps ← getSpacing j "ps"
    let sbs ← getRat j "sbs"
    let v ← getV3 j "v"
    let r : Except ErrKind Json := do
      let p ← refToPix pos ori ps sbs v
      let q ← refToPixRounded pos ori ps sbs v
      let d := match refToPixDrop pos ori ps sbs v with
        | .ok pr => pairJson pr
        | .error e => Json.str e.toString
      pure (Json.mkObj [("raw", v3Json p), ("rounded", int3Json q), ("drop", d)])
    pure (exceptToJson (fun x => x) r)),
  ("pixToPix", fun j => do
    let r := pixToPix (← getRatList j "pos_f") (← getRatList j "ori_f") (← getSpacing j "ps_f")
      (← getRatList j "pos_t") (← getRatList j "ori_t") (← getSpacing j "ps_t") (← getInt j "c") (← getInt j "r")
    pure (exceptToJson pairJson r)),
  ("imgToRef", fun j => do
    let r := imgToRef (← getRatList j "pos") (← getRatList j "ori") (← getSpacing j "ps") (← getRat j "x") (← getRat j "y")
    pure (exceptToJson v3Json r)),
  ("refToImg", fun j => do
    let r := refToImg (← getRatList j "pos") (← getRatList j "ori") (← getSpacing j "ps") (← getRat j "sbs") (← getV3 j "v")
    pure (exceptToJson v3Json r)),
  ("imgToImg", fun j => do
    let r := imgToImg (← getRatList j "pos_f") (← getRatList j "ori_f") (← getSpacing j "ps_f")
      (← getRatList j "pos_t") (← getRatList j "ori_t") (← getSpacing j "ps_t") (← getRat j "x") (← getRat j "y")
    pure (exceptToJson pairJson r)),
  ("mapCoord", fun j => do
    let r := mapCoordinateIntoPixelMatrix (← getV3 j "v") (← getRatList j "pos") (← getRatList j "ori")
      (← getSpacing j "ps") (← getRat j "sbs")
    pure (exceptToJson int3Json r)),
  ("tilePosition", fun j => do
    let r := tilePosition (← getInt j "rows") (← getInt j "cols") (← getRatList j "pos") (← getRatList j "ori")
      (← getSpacing j "ps") (← getInt j "tc") (← getInt j "tr")
    pure (exceptToJson (fun (x : (Int × Int) × V3) =>
      Json.mkObj [("offsets", intsToJson [x.1.1, x.1.2]), ("position", v3Json x.2)]) r)),
  ("call", fun j => do
    let cls ← getStr j "cls"
    let seqArg := (match j.getObjVal? "batch" with | .ok .null => true | _ => false)
    let b ← (if seqArg then pure (default : Batch) else getBatch j "batch")
    let round := (← getOpt j "round" jsonToBool).getD false
    let drop := (← getOpt j "drop" jsonToBool).getD false
    let r : Except ErrKind (List (List Rat)) ← (match cls with
      | "p2r" => do pure (pixToRefCall (← getRatList j "pos") (← getRatList j "ori") (← getSpacing j "ps") b)
      | "i2r" => do pure (imgToRefCall (← getRatList j "pos") (← getRatList j "ori") (← getSpacing j "ps") b)
      | "r2p" => do pure (refToPixCall (← getRatList j "pos") (← getRatList j "ori") (← getSpacing j "ps") (← getRat j "sbs") round drop b)
      | "r2i" => do pure (refToImgCall (← getRatList j "pos") (← getRatList j "ori") (← getSpacing j "ps") (← getRat j "sbs") drop b)
      | "p2p" => do pure (pixToPixCall (← getRatList j "pos_f") (← getRatList j "ori_f") (← getSpacing j "ps_f")
          (← getRatList j "pos_t") (← getRatList j "ori_t") (← getSpacing j "ps_t") round b)
      | "i2i" => do pure (imgToImgCall (← getRatList j "pos_f") (← getRatList j "ori_f") (← getSpacing j "ps_f")
          (← getRatList j "pos_t") (← getRatList j "ori_t") (← getSpacing j "ps_t") b)
      | _ => throw "cls: unknown class" : Except String (Except ErrKind (List (List Rat))))
    if !seqArg then pure (exceptToJson rowsJson r)
    else
      -- a list / tuple instead of an array: the transformer is built first, then `callAny` on a sequence
      let ar : Except ErrKind (Aff × CallSpec) ← (match cls with
        | "p2r" => do pure ((pixToRefAffine (← getRatList j "pos") (← getRatList j "ori") (← getSpacing j "ps")).map (·, Gen.pixToRefCallSpec))
        | "i2r" => do pure ((imgToRefAffine (← getRatList j "pos") (← getRatList j "ori") (← getSpacing j "ps")).map (·, Gen.imgToRefCallSpec))
        | "r2p" => do pure ((invAffineFromAttributes (← getRatList j "pos") (← getRatList j "ori") (← getSpacing j "ps") (← getRat j "sbs")).map (·, Gen.refToPixCallSpec))
        | "r2i" => do pure ((refToImgAffine (← getRatList j "pos") (← getRatList j "ori") (← getSpacing j "ps") (← getRat j "sbs")).map (·, Gen.refToImgCallSpec))
        | "p2p" => do pure ((pixToPixAffine (← getRatList j "pos_f") (← getRatList j "ori_f") (← getSpacing j "ps_f")
            (← getRatList j "pos_t") (← getRatList j "ori_t") (← getSpacing j "ps_t")).map (·, Gen.pixToPixCallSpec))
        | "i2i" => do pure ((imgToImgAffine (← getRatList j "pos_f") (← getRatList j "ori_f") (← getSpacing j "ps_f")
            (← getRatList j "pos_t") (← getRatList j "ori_t") (← getSpacing j "ps_t")).map (·, Gen.imgToImgCallSpec))
        | _ => throw "cls: unknown class" : Except String (Except ErrKind (Aff × CallSpec)))
      pure (exceptToJson rowsJson (ar >>= fun (a, sp) => callAny sp a drop round .sequence))),
  ("mapPixelB", fun j => do
    let r := mapPixelIntoCoordinateSystemB (← getIntList j "index") (← getRatList j "pos") (← getRatList j "ori") (← getSpacing j "ps")
    pure (exceptToJson v3Json r)),
  ("mapCoordB", fun j => do
    let r := mapCoordinateIntoPixelMatrixB (← getRatList j "coordinate") (← getRatList j "pos") (← getRatList j "ori")
      (← getSpacing j "ps") (← getOpt j "sbs" parseRat)
    pure (exceptToJson int3Json r)),
  ("forImage", fun j => do
    let ds ← imageDsOf (← j.getObjVal? "ds")
    let frame ← getOptInt j "frame"
    let total ← getBool j "total"
    let info := getSpatialInformation ds frame total
    pure (okJson (Json.mkObj [
      ("info", errOrJson (fun (x : List Rat × List Rat × List Rat × Option Rat) =>
        Json.mkObj [("pos", ratsToJson x.1), ("ori", ratsToJson x.2.1), ("ps", ratsToJson x.2.2.1), ("sbs", optRatJson x.2.2.2)]) info),
      ("p2r", errOrJson affJson (pixToRefForImage ds frame total)),
      ("r2p", errOrJson affJson (refToPixForImage ds frame total)),
      ("i2r", errOrJson affJson (imgToRefForImage ds frame total)),
      ("r2i", errOrJson affJson (refToImgForImage ds frame total))]))),
  ("coordSystem", fun j => do
    let strs := fun (k : String) => do
      let a ← getArr j k
      a.toList.mapM (fun (x : Json) => x.getStr?)
    let r := imageCoordinateSystem ⟨← strs "present", ← strs "first_item", ← strs "empty"⟩
    pure (exceptToJson (fun (c : Option Coord) => match c with | some .slide => Json.str "slide" | some .patient => Json.str "patient" | none => Json.null) r)),
  ("forImages", fun j => do
    let dsF ← imageDsOf (← j.getObjVal? "ds_f")
    let dsT ← imageDsOf (← j.getObjVal? "ds_t")
    let ff ← getOptInt j "frame_f"
    let ft ← getOptInt j "frame_t"
    let tf ← getBool j "total_f"
    let tt ← getBool j "total_t"
    pure (okJson (Json.mkObj [("p2p", errOrJson affJson (pixToPixForImages dsF dsT ff ft tf tt)),
                              ("i2i", errOrJson affJson (imgToImgForImages dsF dsT ff ft tf tt))]))),
  ("roundHalfEven", fun j => do
    pure (okJson ((roundHalfEven (← getRat j "x") : Int) : Json)))
]

def main : IO Unit := run handlers
