import HdVerif.Model.Json
import HdVerif.Model.PMap
import HdVerif.Model.PMapRead
import HdVerif.Model.PMapVolume
open Lean HdVerif HdVerif.Drv HdVerif.Gen HdVerif.Codec HdVerif.PMap

def getMapping (j : Json) : Except String Mapping := do
  pure { label := ← getStr j "label", unit := ← getStr j "unit", isLut := ← getBool j "isLut", first := ← getRat j "first",
         last := ← getRat j "last", slope := ← getRat j "slope", intercept := ← getRat j "intercept", lut := ← getRatList j "lut" }

def getMappingLists (j : Json) (k : String) : Except String (Array (List Mapping)) := do
  let a ← getArr j k
  a.mapM (fun l => do
    let items ← l.getArr?
    items.toList.mapM getMapping)

/-- glue only: the flat C-order list of cells of the normalised (n, r*c, m) array as the model's total function -/
def cellFn (cells : Array (List Nat)) (p m : Nat) : Nat → Nat → Nat → PMap.Cell :=
  fun i k j => match cells[(i * p + k) * m + j]? with | some c => c | none => []

def getInput (j : Json) : Except String PMInput := do
  let n ← getNat j "n"; let r ← getNat j "r"; let c ← getNat j "c"; let m ← getNat j "m"
  let cellsJ ← getArr j "cells"
  let cells ← cellsJ.mapM (fun cj => do let a ← cj.getArr?; a.toList.mapM (·.getNat?))
  let maps ← getMappingLists j "maps"
  let posJ ← getArr j "pos"
  let pos ← posJ.mapM (fun pj => do
    let comps ← pj.getArr?
    comps.toList.mapM (fun cj => do let a ← cj.getArr?; a.toList.mapM parseRat))
  pure { dtypeKind := ← getStr j "kind", dtypeName := ← getStr j "name", dtypeStr := ← getStr j "dtype",
         itemsize := ← getNat j "itemsize", ndim := ← getNat j "ndim", n := n, r := r, c := c, m := m,
         cell := cellFn cells (r * c) m, nested := ← getBool j "nested", nMappingLists := ← getNat j "nMappingLists",
         maps := fun k => match maps[k]? with | some l => l | none => [],
         nPositions := ← getNat j "nPositions", pos := fun i => match pos[i]? with | some p => p | none => [],
         ts := ← getStr j "ts" }

def getSelector (j : Json) : Except String Selector := do
  match j.getObjVal? "index" with
  | .ok v => pure (.index (← v.getInt?))
  | .error _ =>
    match j.getObjVal? "label" with
    | .ok v => pure (.label (← v.getStr?))
    | .error _ => pure (.unit (← getStr j "unit"))

def labelsJson (ms : Option (List Mapping)) : Json :=
  match ms with | none => Json.null | some l => Json.arr (l.map (fun m => Json.str m.label)).toArray

def getOptRat (j : Json) (k : String) : Except String (Option Rat) :=
  match j.getObjVal? k with
  | .error _ => pure none
  | .ok .null => pure none
  | .ok v => some <$> parseRat v

def getReadOp (j : Json) : Except String ReadOp := do
  let op ← getStr j "op"
  if op == "pixelArray" then pure .pixelArray
  else if op == "stored" then pure (.stored (← getNat j "f") (← getBool j "ai"))
  else if op == "storedBatch" then pure (.storedBatch (← getNat j "f") (← getBool j "ai"))
  else if op == "real" then pure (.real (← getNat j "f") (← getBool j "ai") (← getSelector (← j.getObjVal? "sel")))
  else throw s!"unknown read op {op}"

def readResultJson : ReadResult → Json
  | .cells (.ok cs) => natsToJson cs.flatten
  | .cells (.error _) => Json.str "err"
  | .reals (.ok rs) => ratsToJson rs
  | .reals (.error _) => Json.str "err"
  | .done => Json.str "done"
  | .failed _ => Json.str "err"

def answer (x : PMInput) (o : PMObject) (q : Json) : Except String Json := do
  let kind ← getStr q "q"
  let f ← getNat q "f"
  if kind == "volume" then
    -- `get_volume` with all transforms off: per slice the stored values of the frame written there (null: blank)
    match q.getObjVal? "sel" with
    | .ok sj =>
      let rr := getVolumeReal x o (← getBool q "cached") (← getRatList q "ori") (← getOptRat q "hint") none none
        (← getBool q "allow_missing") (← getSelector sj)
      return (match rr with
        | .error e => Json.mkObj [("err", Json.str e.toString)]
        | .ok (_, _, slices) => Json.mkObj [("ok", Json.mkObj [("slices", Json.arr (slices.map (fun sl => match sl with
            | none => Json.null
            | some vals => ratsToJson vals)).toArray)])])
    | .error _ => pure ()
    let r := getVolume x o (← getBool q "cached") (← getRatList q "ori") (← getOptRat q "hint") none none (← getBool q "allow_missing")
    return (match r with
      | .error e => Json.mkObj [("err", Json.str e.toString)]
      | .ok (sp, origin, slices) => Json.mkObj [("ok", Json.mkObj [("spacing", ratToJson sp), ("origin", ratsToJson origin),
          ("slices", Json.arr (slices.map (fun sl => match sl with
            | none => Json.null
            | some cells => intsToJson (cells.map cellValue))).toArray)])])
  if kind == "history" then
    -- a sequence of operations on ONE image object (held in memory or read lazily), from a fresh object
    let how := if (← getStr q "how") == "lazy" then Holding.lazy else Holding.memory
    let opsJ ← getArr q "ops"
    let ops ← opsJ.toList.mapM getReadOp
    pure (Json.mkObj [("ok", Json.arr ((run how o false ops).map readResultJson).toArray)])
  else if kind == "stored" then
    pure (exceptToJson (fun (cs : List PMap.Cell) => natsToJson cs.flatten) (readStoredFrame o f))
  else if kind == "real" then
    pure (exceptToJson ratsToJson (readReal o f (← getSelector q)))
  else if kind == "attached" then
    pure (exceptToJson (fun (ms : List Mapping) => labelsJson (some ms)) (attachedMappings o f))
  else throw s!"unknown query {kind}"

def getFrame (j : Json) : Except String Frame := do
  let dn ← getStr j "dtype"
  match DType.ofName dn with
  | none => throw s!"unknown dtype {dn}"
  | some d =>
    let s ← getOptInt j "samples"
    pure ⟨← getNat j "rows", ← getNat j "cols", s.map Int.toNat, d, ← getIntList j "data"⟩

/-- stand-in for the encapsulated codecs (abstract in the model) -/
def noCodec : CodecImpl := ⟨fun _ _ _ _ _ => .error .other, fun _ _ _ _ _ => .error .other⟩

def handlers : List (String × Handler) := [
  ("scBuild", fun j => do
    let ts ← getStr j "ts"
    match scBuild noCodec ts (← getStr j "pi") (← getInt j "ba") (← getFrame j) with
    | .error e => pure (Json.mkObj [("err", Json.str e.toString)])
    | .ok o =>
      pure (Json.mkObj [("ok", Json.mkObj [
        ("module", intsToJson [o.bitsAllocated, o.bitsStored, o.highBit, o.pixelRepresentation, o.samplesPerPixel,
                               match o.planarConfiguration with | none => -1 | some p => p]),
        ("bytes", natsToJson o.frameBytes),
        ("decoded", exceptToJson intsToJson (scDecode noCodec id ts o))])])),
  ("pm", fun j => do
    let x ← getInput j
    match build x with
    | .error e => pure (Json.mkObj [("err", Json.str e.toString)])
    | .ok o =>
      let qs ← getArr j "queries"
      let ans ← qs.toList.mapM (answer x o)
      pure (Json.mkObj [("ok", Json.mkObj [
        ("element", Json.str o.element), ("ba", (o.bitsAllocated : Json)), ("bs", (o.bitsStored : Json)),
        ("hb", (o.highBit : Json)), ("pr", (o.pixelRepresentation : Json)), ("rows", (o.rows : Json)),
        ("cols", (o.cols : Json)), ("frames", (o.numberOfFrames : Json)), ("pixelData", natsToJson o.pixelData),
        ("shared", labelsJson o.shared),
        ("perFrame", Json.arr (o.perFrame.map (fun rec => Json.mkObj [("pos", Json.arr (rec.position.map ratsToJson).toArray),
          ("div", natsToJson rec.dimensionIndex), ("maps", labelsJson rec.mappings)])).toArray),
        ("answers", Json.arr ans.toArray)])])),
  ("scPixelModule", fun j => do
    let r := scPixelModule (← getInt j "ba") (← getStr j "pi") (← getStr j "ts") (← getStr j "dtype") (← getInt j "ndim")
      (← getInt j "last") (← getInt j "max")
    pure (exceptToJson (fun (m : Int × Int × Int × Int × Int × Int) =>
      intsToJson [m.1, m.2.1, m.2.2.1, m.2.2.2.1, m.2.2.2.2.1, m.2.2.2.2.2]) r)),
  ("rwvmInit", fun j => do
    pure (exceptToJson (fun (i : Int) => (i : Json)) (rwvmInit (← getOptInt j "lut") (← getOptInt j "slope") (← getOptInt j "intercept")
      (← getBool j "isFloat") (← getInt j "first") (← getInt j "last")))),
  ("applyMapping", fun j => do
    pure (exceptToJson ratsToJson (applyMapping (← getMapping j) (← getIntList j "values")))),
  ("pmPixelDataType", fun j => do
    pure (exceptToJson (fun (i : Int) => (i : Json)) (pmPixelDataType (← getStr j "kind") (← getStr j "name") (← getStr j "dtype")))),
  ("pmSyntaxAdmitted", fun j => do
    pure (exceptToJson (fun (i : Int) => (i : Json)) (pmSyntaxAdmitted (← getStr j "ts") (← getStr j "kind"))))
]

def main : IO Unit := run handlers
