import HdVerif.Model.Json
import HdVerif.Model.VR
import HdVerif.Model.VRGuards
import HdVerif.Generated.T20vr
import HdVerif.Generated.T20uid
import HdVerif.Model.AliasTables
import HdVerif.Generated.T20neg
open Lean HdVerif HdVerif.Drv HdVerif.VR HdVerif.Gen HdVerif.Aliasing

/-- strings travel as lists of code points -/
def getChars (j : Json) (k : String) : Except String (List Char) := do
  pure ((← getNatList j k).map Char.ofNat)

def charsToJson (l : List Char) : Json := natsToJson (l.map Char.toNat)

def unitJson : Unit → Json := fun _ => Json.null

/-- ["rep", neg, [[lo,hi],…], lo, hi|null] | ["eol"] | ["eos"] -/
def parseAtom (v : Json) : Except String Atom := do
  let a ← v.getArr?
  match a.toList with
  | [Json.str "eol"] => pure .eol
  | [Json.str "eos"] => pure .eos
  | [Json.str "rep", neg, rs, lo, hi] =>
    let ranges ← (← rs.getArr?).toList.mapM fun r => do
      match (← r.getArr?).toList with
      | [x, y] => pure ((← x.getNat?), (← y.getNat?))
      | _ => throw "bad range"
    let hi' ← match hi with
      | .null => pure none
      | h => some <$> h.getNat?
    pure (.rep ⟨← neg.getBool?, ranges⟩ (← lo.getNat?) hi')
  | _ => throw "bad atom"

def getRe (j : Json) (k : String) : Except String Re := do
  (← getArr j k).toList.mapM parseAtom

def handlers : List (String × Handler) := [
  ("checkCodeString", fun j => do pure (exceptToJson unitJson (checkCodeString (← getChars j "s")))),
  ("checkShortString", fun j => do pure (exceptToJson unitJson (checkShortString (← getChars j "s")))),
  ("checkLongString", fun j => do pure (exceptToJson unitJson (checkLongString (← getChars j "s")))),
  ("checkShortText", fun j => do pure (exceptToJson unitJson (checkShortText (← getChars j "s")))),
  ("checkLongText", fun j => do pure (exceptToJson unitJson (checkLongText (← getChars j "s")))),
  ("pydAccepts", fun j => do pure (okJson (Json.bool (pydAccepts (← getStr j "vr") (← getChars j "s"))))),
  ("personNameWarns", fun j => do pure (okJson (Json.bool (personNameWarns (← getChars j "s"))))),
  ("re", fun j => do
    let p ← getRe j "p"
    let s ← getChars j "s"
    let mode ← getStr j "mode"
    let r := if mode == "match" then reMatch p s else if mode == "fullmatch" then reFullmatch p s else reSearch p s
    pure (okJson (Json.bool r))),
  ("fromUuid", fun j => do pure (exceptToJson charsToJson (fromUuid uuidRoot (← getNat j "n")))),
  ("defaultUid", fun j => do pure (exceptToJson charsToJson (defaultUid defaultPrefix (← getNat j "n")))),
  ("defaultPrefix", fun _ => do pure (okJson (Json.str defaultPrefix))),
  ("aliasNames", fun _ => do pure (okJson (Json.arr (allEntries.map (fun e => Json.str e.name)).toArray))),
  ("alias", fun j => do
    let name ← getStr j "name"
    let copy : Option Bool := match j.getObjVal? "copy" with
      | .ok (.bool b) => some b
      | _ => none
    let es := allEntries.filter (·.name == name)
    pure (okJson (Json.arr (es.map (fun e =>
      let o := observable e copy
      Json.mkObj [("hasCopy", Json.bool e.hasCopy), ("same", Json.bool o.1), ("fresh", Json.bool o.2.1),
                  ("part", Json.bool o.2.2.1), ("writes0", Json.bool o.2.2.2.1), ("writesOther", Json.bool o.2.2.2.2)])).toArray))),
  ("corpus", fun _ => do
    pure (okJson (Json.mkObj [
      ("writersAccepted", Json.arr ((negCorpus.filter fun e => neverWritesInputs e || !wellFormed e).map (fun e => Json.str e.name)).toArray),
      ("twinsRejected", Json.arr ((twinCorpus.filter fun e => !constructorOk e).map (fun e => Json.str e.name)).toArray),
      ("twinsRefused", Json.arr (twinRefused.map Json.str).toArray),
      ("writers", Json.num negCorpus.length), ("refused", Json.num negRefused.length), ("twins", Json.num twinCorpus.length)]))),
  ("validUID", fun j => do pure (okJson (Json.bool (decide (validUID (← getChars j "s"))))))
]

def main : IO Unit := run handlers
