import HdVerif.Model.Json
import HdVerif.Model.VR
import HdVerif.Generated.T20vr
import HdVerif.Generated.T20uid
open Lean HdVerif HdVerif.Drv HdVerif.VR HdVerif.Gen

/-- strings travel as lists of code points -/
def getChars (j : Json) (k : String) : Except String (List Char) := do
  pure ((← getNatList j k).map Char.ofNat)

def charsToJson (l : List Char) : Json := natsToJson (l.map Char.toNat)

def unitJson : Unit → Json := fun _ => Json.null

/-- ["rep", neg, [[lo,hi],…], lo, hi|null] | ["eol"] | ["eos"] -/
def parseAtom (v : Json) : Except String Atom := do
  let a ← v.getArr?
  match a.toList with
  | [Json.str "eol"] => pure .eol
  | [Json.str "eos"] => pure .eos
  | [Json.str "rep", neg, rs, lo, hi] =>
    let ranges ← (← rs.getArr?).toList.mapM fun r => do
      match (← r.getArr?).toList with
      | [x, y] => pure ((← x.getNat?), (← y.getNat?))
      | _ => throw "bad range"
    let hi' ← match hi with
      | .null => pure none
      | h => some <$> h.getNat?
    pure (.rep ⟨← neg.getBool?, ranges⟩ (← lo.getNat?) hi')
  | _ => throw "bad atom"

def getRe (j : Json) (k : String) : Except String Re := do
  (← getArr j k).toList.mapM parseAtom

def handlers : List (String × Handler) := [
  ("checkCodeString", fun j => do pure (exceptToJson unitJson (checkCodeString (← getChars j "s")))),
  ("checkShortString", fun j => do pure (exceptToJson unitJson (checkShortString (← getChars j "s")))),
  ("checkLongString", fun j => do pure (exceptToJson unitJson (checkLongString (← getChars j "s")))),
  ("checkShortText", fun j => do pure (exceptToJson unitJson (checkShortText (← getChars j "s")))),
  ("checkLongText", fun j => do pure (exceptToJson unitJson (checkLongText (← getChars j "s")))),
  ("personNameWarns", fun j => do pure (okJson (Json.bool (personNameWarns (← getChars j "s"))))),
  ("re", fun j => do
    let p ← getRe j "p"
    let s ← getChars j "s"
    let mode ← getStr j "mode"
    let r := if mode == "match" then reMatch p s else if mode == "fullmatch" then reFullmatch p s else reSearch p s
    pure (okJson (Json.bool r))),
  ("fromUuid", fun j => do pure (exceptToJson charsToJson (fromUuid uuidRoot (← getNat j "n")))),
  ("defaultUid", fun j => do pure (exceptToJson charsToJson (defaultUid defaultPrefix (← getNat j "n")))),
  ("defaultPrefix", fun _ => do pure (okJson (Json.str defaultPrefix))),
  ("validUID", fun j => do pure (okJson (Json.bool (decide (validUID (← getChars j "s"))))))
]

def main : IO Unit := run handlers
