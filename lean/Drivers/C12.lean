import HdVerif.Model.TilingJson
/-! JSON-lines driver of the tiling model (C12); same entry points as `Drivers/C04.lean`. -/
def main : IO Unit := HdVerif.Drv.run HdVerif.TilingDrv.handlers
