import HdVerif.Model.TilingJson
import HdVerif.Model.TilingSlideJson
/-! JSON-lines driver of the tiling model (C12): the entry points of `Drivers/C04.lean` plus the C12-only ones. -/
def main : IO Unit := HdVerif.Drv.run (HdVerif.TilingDrv.handlers ++ HdVerif.TilingDrv.slideHandlers)
