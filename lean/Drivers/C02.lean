import HdVerif.Model.Json
import HdVerif.Model.SegRead
import HdVerif.Model.SegMeta
open Lean HdVerif HdVerif.Drv HdVerif.Gen HdVerif.SegRead HdVerif.SegMeta

def getSegType (j : Json) : Except String SegType := do
  match (← getStr j "type") with
  | "BINARY" => pure .binary
  | "FRACTIONAL" => pure .fractional
  | "LABELMAP" => pure .labelmap
  | s => throw s!"bad type {s}"

def dtypeOfName (s : String) : Except String (Option DType) :=
  match s with
  | "none" => pure none
  | "uint8" => pure (some .u8) | "uint16" => pure (some .u16) | "uint32" => pure (some .u32) | "uint64" => pure (some .u64)
  | "int8" => pure (some .i8) | "int16" => pure (some .i16) | "int32" => pure (some .i32) | "int64" => pure (some .i64)
  | "float32" => pure (some .f32) | "float64" => pure (some .f64) | "bool" => pure (some .bool)
  | s => throw s!"bad dtype {s}"

def getFrame (j : Json) : Except String SFrame := do
  pure { key := (← getNat j "key"), seg := (← getNat j "seg"), pix := (← getNatList j "pix") }

/-- an optional boolean field -/
def optBool (j : Json) (k : String) (dflt : Bool) : Except String Bool :=
  match j.getObjVal? k with
  | .error _ => pure dflt
  | .ok .null => pure dflt
  | .ok v => v.getBool?

/-- `_locations_preserved` as the harness reads it off the source image items: "yes" / "no" / "unknown" -/
def getLoc (j : Json) : Except String (Option Bool) :=
  match j.getObjVal? "loc_preserved" with
  | .error _ => pure (some true)
  | .ok v => do
    match (← v.getStr?) with
    | "yes" => pure (some true)
    | "no" => pure (some false)
    | "unknown" => pure none
    | s => throw s!"bad loc_preserved {s}"

def getStored (j : Json) : Except String Stored := do
  let fr ← (← getArr j "frames").toList.mapM getFrame
  pure { type := (← getSegType j), segNums := (← getNatList j "stored"), bitsStored := (← getNat j "bits"),
         mfv := (← getNat j "mfv"), bg := (← getNat j "bg"), npix := (← getNat j "npix"), frames := fr,
         refs := (← getNatList j "refs"), frameSrcs := (← getNatList j "frame_srcs"),
         tiledFull := (← optBool j "tiled_full" false), locPreserved := (← getLoc j),
         singleSource := (← optBool j "single_source" true), segIndexed := (← optBool j "seg_indexed" true) }

def getReq (j : Json) : Except String Req := do
  pure { keys := (← getNatList j "keys"), segs := (← getNatList j "segs"), combine := (← getBool j "combine"),
         relabel := (← getBool j "relabel"), rescale := (← getBool j "rescale"), skipOverlap := (← getBool j "skip"),
         dtype := (← dtypeOfName (← getStr j "dtype")), ignoreSpatial := (← optBool j "ignore_spatial" false) }

def getMode (j : Json) : Except String Mode := do
  match (← getStr j "mode") with
  | "instance" => pure .bySource
  | "frame" => pure (.frame (← getNat j "uid"))
  | "div" => pure .div
  | "all" => pure .all
  | s => throw s!"bad mode {s}"

def valJson (denom : Nat) (v : Int) : Json :=
  if denom = 1 then (v : Json) else ratToJson ((v : Rat) / (denom : Rat))

/-- `[frame][channel][pixel]` → numpy layout `[frame][pixel][channel]` -/
def toPixelMajor (npix : Nat) (fr : List (List Int)) : List (List Int) :=
  (List.range npix).map fun i => fr.map fun ch => ch.getD i 0

def outJson (npix : Nat) : Out → Json
  | .combined px => Json.arr (px.map intsToJson).toArray
  | .stacked denom px =>
    Json.arr (px.map fun fr => Json.arr ((toPixelMajor npix fr).map fun p => Json.arr (p.map (valJson denom)).toArray).toArray).toArray

def getOptStr (j : Json) (k : String) : Except String (Option String) := do
  match j.getObjVal? k with
  | .error _ => pure none
  | .ok .null => pure none
  | .ok v => some <$> v.getStr?

/-- a code travels as [value, scheme designator, scheme version | null] -/
def codeOfJson (v : Json) : Except String PCode := do
  let a ← v.getArr?
  match a.toList with
  | [x, y, z] =>
    let ver ← (match z with | .null => pure none | w => some <$> w.getStr? : Except String (Option String))
    pure ⟨some (← x.getStr?), some (← y.getStr?), none, ver⟩
  | _ => throw "code = [value, scheme, version]"

def getCode (j : Json) (k : String) : Except String PCode := do codeOfJson (← j.getObjVal? k)

def getOptCode (j : Json) (k : String) : Except String (Option PCode) := do
  match j.getObjVal? k with
  | .error _ => pure none
  | .ok .null => pure none
  | .ok v => some <$> codeOfJson v

/-- `snomed_mapping[s].get(v)` restricted to the entries the harness read from pydicom's table for this call -/
def getMapping (j : Json) : Except String SegMeta.Mapping := do
  match j.getObjVal? "srt" with
  | .error _ => pure fun _ _ => none
  | .ok v =>
    let pairs ← (← v.getArr?).toList.mapM fun p => do
      match (← p.getArr?).toList with
      | [a, b] => pure ((← a.getStr?), (← b.getStr?))
      | _ => throw "srt pair"
    pure fun s x => if s == "SRT" then pairs.lookup x else none

def getDesc (j : Json) : Except String Desc := do
  pure { number := (← getNat j "number"), label := (← getStr j "label"), category := (← getCode j "category"),
         ptype := (← getCode j "type"), algo := (← getStr j "algo"), trackingId := (← getOptStr j "tracking_id"),
         trackingUid := (← getOptStr j "tracking_uid") }

def getFilter (j : Json) : Except String Filter := do
  pure { label := (← getOptStr j "segment_label"), category := (← getOptCode j "segmented_property_category"),
         ptype := (← getOptCode j "segmented_property_type"), algo := (← getOptStr j "algorithm_type"),
         trackingUid := (← getOptStr j "tracking_uid"), trackingId := (← getOptStr j "tracking_id") }

def getOptNat (j : Json) (k : String) : Except String (Option Nat) := do
  match j.getObjVal? k with
  | .error _ => pure none
  | .ok .null => pure none
  | .ok v => some <$> v.getNat?

def handlers : List (String × Handler) := [
  ("read", fun j => do
    let st ← getStored j
    let rq ← getReq j
    let r := read st (← getMode j) (← getBool j "assert_missing") rq
    pure (exceptToJson (outJson st.npix) r)),
  ("remapValues", fun j => do
    let r := remapValues (← getNatList j "segs") (← getBool j "combine") (← getBool j "relabel")
    pure (okJson (match r with | some l => natsToJson l | none => Json.null))),
  ("unsignedDtype", fun j => do
    pure (exceptToJson (fun (i : Int) => (i : Json)) (unsignedDtype (← getInt j "v")))),
  ("checkRepr", fun j => do
    match (← dtypeOfName (← getStr j "dtype")) with
    | some d => pure (exceptToJson (fun _ => Json.bool true) (checkRepr (← getInt j "v") d))
    | none => throw "dtype required"),
  ("labelPixels", fun j => do
    let nums ← getNatList j "nums"
    let px ← (← getArr j "pixels").toList.mapM fun p => do
      let a ← p.getArr?
      a.toList.mapM (·.getNat?)
    pure (exceptToJson natsToJson (px.mapM (labelPixel nums)))),
  ("combinePixels", fun j => do
    let px ← (← getArr j "pixels").toList.mapM fun p => do
      let a ← p.getArr?
      a.toList.mapM (·.getNat?)
    pure (okJson (natsToJson (px.map combinePixel)))),
  ("segmentNumbers", fun j => do
    let descs ← (← getArr j "descs").toList.mapM getDesc
    let f ← getFilter (j.getObjValD "filters")
    pure (exceptToJson natsToJson (getSegmentNumbers (← getMapping j) descs (← getOptNat j "ppv") f))),
  ("segmentNumbersAll", fun j => do
    let descs ← (← getArr j "descs").toList.mapM getDesc
    let ppv ← getOptNat j "ppv"
    pure (okJson (Json.mkObj [("numbers", natsToJson (segmentNumbersAll descs ppv)),
                              ("count", (numberOfSegments descs ppv : Json))]))),
  ("propertyCodes", fun j => do
    let descs ← (← getArr j "descs").toList.mapM getDesc
    let ppv ← getOptNat j "ppv"
    let m ← getMapping j
    let codeJson := fun (c : PCode) => Json.arr #[(match c.value with | some v => Json.str v | none => Json.null),
      (match c.scheme with | some v => Json.str v | none => Json.null),
      (match c.version with | some v => Json.str v | none => Json.null)]
    pure (okJson (Json.mkObj [("categories", Json.arr ((propertyCategories m descs ppv).map codeJson).toArray),
                              ("types", Json.arr ((propertyTypes m descs ppv).map codeJson).toArray)]))),
  ("segmentDescription", fun j => do
    let descs ← (← getArr j "descs").toList.mapM getDesc
    pure (exceptToJson (fun (d : Desc) => Json.mkObj [("number", (d.number : Json)), ("label", Json.str d.label)])
      (getSegmentDescription descs (← getNat j "number")))),
  ("trackingIds", fun j => do
    let descs ← (← getArr j "descs").toList.mapM getDesc
    let f ← getFilter (j.getObjValD "filters")
    pure (exceptToJson (fun (l : List (String × String)) =>
      Json.arr (l.map fun p => Json.arr #[Json.str p.1, Json.str p.2]).toArray) (getTrackingIds (← getMapping j) descs f)))
]

def main : IO Unit := run handlers
