import HdVerif.Model.Json
import HdVerif.Model.FrameAccess
import HdVerif.Model.Offsets
import HdVerif.Model.EncapBytes
open Lean HdVerif HdVerif.Drv HdVerif.Bits HdVerif.Gen HdVerif.FrameAccess HdVerif.Offsets HdVerif.EncapBytes

def getFrags (j : Json) (k : String) : Except String (List (List Nat)) := do
  let a ← getArr j k
  a.toList.mapM (fun x => do let l ← x.getArr?; l.toList.mapM (·.getNat?))

def handlers : List (String × Handler) := [
  ("stdFrameIndex", fun j => do
    let r := stdFrameIndex (← getInt j "k") (← getBool j "as_index") (← getInt j "n")
    pure (exceptToJson (fun (i : Int) => (i : Json)) r)),
  ("lazyIndexGuard", fun j => do
    let r := lazyIndexGuard (← getInt j "i") (← getInt j "n")
    pure (exceptToJson (fun (i : Int) => (i : Json)) r)),
  ("pack", fun j => do pure (okJson (natsToJson (pack (← getBoolList j "bits"))))),
  ("memFrameBits", fun j => do
    let r := memFrameBits (← getNatList j "pd") (← getInt j "rows") (← getInt j "cols") (← getInt j "samples")
      (← getInt j "n") (← getInt j "k") (← getBool j "as_index")
    pure (exceptToJson boolsToJson r)),
  ("lazyFrameBits", fun j => do
    let r := lazyFrameBits (← getNatList j "pd") (← getInt j "rows") (← getInt j "cols") (← getInt j "samples")
      (← getInt j "n") (← getInt j "k") (← getBool j "as_index")
    pure (exceptToJson boolsToJson r)),
  ("memFrameBytes", fun j => do
    let r := memFrameBytes (← getNatList j "pd") (← getInt j "rows") (← getInt j "cols") (← getInt j "samples")
      (← getInt j "bits") (← getInt j "n") (← getStr j "pi") (← getInt j "k") (← getBool j "as_index")
    pure (exceptToJson natsToJson r)),
  ("lazyFrameBytes", fun j => do
    let r := lazyFrameBytes (← getNatList j "pd") (← getInt j "rows") (← getInt j "cols") (← getInt j "samples")
      (← getInt j "bits") (← getInt j "n") (← getStr j "pi") (← getInt j "k") (← getBool j "as_index")
    pure (exceptToJson natsToJson r)),
  ("batchFramesBits", fun j => do
    let ks ← match j.getObjVal? "ks" with
      | .ok .null => pure none
      | .ok _ => some <$> getIntList j "ks"
      | .error _ => pure none
    let r := memFramesBits (← getNatList j "pd") (← getInt j "rows") (← getInt j "cols") (← getInt j "samples")
      (← getInt j "n") ks (← getBool j "as_index")
    pure (exceptToJson (fun l => Json.arr (l.map boolsToJson).toArray) r)),
  ("cached", fun j => do
    -- frames are identified by their position 0..n-1; the single-frame image's whole array is frame 0
    let n ← getNat j "n"
    let sk := if (← getBool j "batch") then batchSkel else singleSkel
    let r := sk.cached (List.range n) 0 (← getInt j "k") (← getBool j "as_index")
    pure (exceptToJson (fun (i : Nat) => (i : Json)) r)),
  ("cachedBatch", fun j => do
    let n ← getNat j "n"
    let ks ← match j.getObjVal? "ks" with
      | .ok .null => pure none
      | .ok _ => some <$> getIntList j "ks"
      | .error _ => pure none
    let r := cachedFrames (List.range n) 0 ks (← getBool j "as_index")
    pure (exceptToJson natsToJson r)),
  ("getBot", fun j => do
    let r := getBot (← getNatList j "stored") (← getFrags j "frags") (← getNat j "n")
    pure (exceptToJson natsToJson r)),
  ("readFrameRawEnc", fun j => do
    let r := readFrameRaw (← getFrags j "frags") (← getNatList j "table") (← getNat j "i")
    pure (exceptToJson natsToJson r)),
  ("lazyRawEnc", fun j => do
    -- the lazy reader on the BYTES of the file from the first byte of the Pixel Data element's value on
    let eot ← match j.getObjVal? "eot" with
      | .ok .null => pure none
      | .ok _ => some <$> getNatList j "eot"
      | .error _ => pure none
    let r := lazyRawEnc (← getNatList j "pd") eot (← getNat j "n") (← getInt j "i")
    pure (exceptToJson natsToJson r)),
  ("openEncapsulated", fun j => do
    let eot ← match j.getObjVal? "eot" with
      | .ok .null => pure none
      | .ok _ => some <$> getNatList j "eot"
      | .error _ => pure none
    let r := openEncapsulated (← getNatList j "pd") eot (← getNat j "n")
    pure (exceptToJson (fun (p : List Nat × Nat) => Json.mkObj [("table", natsToJson p.1), ("first", (p.2 : Json))]) r)),
  ("lazyRaw", fun j => do
    let r := lazyRaw (← getNatList j "pd") (← getInt j "rows") (← getInt j "cols") (← getInt j "samples")
      (← getInt j "bits") (← getInt j "n") (← getStr j "pi") (← getInt j "i")
    pure (exceptToJson natsToJson r))
]

def main : IO Unit := run handlers
