import HdVerif.Model.Json
import HdVerif.Model.FrameAccess
import HdVerif.Model.Offsets
import HdVerif.Model.EncapBytes
import HdVerif.Model.FramePaths
open Lean HdVerif HdVerif.Drv HdVerif.Bits HdVerif.Gen HdVerif.FrameAccess HdVerif.Offsets HdVerif.EncapBytes HdVerif.FramePaths

def getFrags (j : Json) (k : String) : Except String (List (List Nat)) := do
  let a ← getArr j k
  a.toList.mapM (fun x => do let l ← x.getArr?; l.toList.mapM (·.getNat?))

/-- pydicom's whole-array decode of a native 1-bit image (refused when the pixel data are too short) -/
def allBits (rows cols n : Nat) (pd : List Nat) : Except ErrKind (List (List Bool)) :=
  if n * (rows * cols) ≤ 8 * pd.length then .ok ((List.range n).map (sliceBits pd (rows * cols))) else .error .value

/-- run a history on a native 1-bit in-memory image; the answers of the fetch operations, in order -/
def runHistory (rows cols n : Nat) (pd0 : List Nat) (ops : List Json) (lazy : Bool := false) : Except String (List Json) := do
  -- `lazy`: the object reads its frames from the file (un-cached fetch = the lazy reader)
  let one := fun pd k ai => if lazy then lazyFrameBits pd rows cols 1 n k ai else memFrameBits pd rows cols 1 n k ai
  let all := allBits rows cols n
  let mut s : Img (List Bool) := ⟨pd0, none⟩
  let mut out : List Json := []
  for o in ops do
    let kind ← getStr o "op"
    if kind == "fetch" then
      let sk := if (← getBool o "batch") then batchSkel else singleSkel
      let r := fetchStep one all n sk s (← getInt o "k") (← getBool o "as_index")
      s := r.1
      out := out ++ [exceptToJson boolsToJson r.2]
    else if kind == "fetchMany" then
      -- get_stored_frames(ks): the frames in request order, or the refusal of the whole batch; an empty request is refused (np.stack)
      let ks ← getIntList o "ks"
      let ai ← getBool o "as_index"
      let mut res : Except ErrKind (List (List Bool)) := .ok []
      for k in ks do
        let r := fetchStep one all n batchSkel s k ai
        s := r.1
        res := match res, r.2 with
          | .ok l, .ok f => .ok (l ++ [f])
          | .ok _, .error e => .error e
          | .error e, _ => .error e
      if ks.isEmpty then res := .error .value
      out := out ++ [exceptToJson (fun l => Json.arr (l.map boolsToJson).toArray) res]
    else if kind == "whole" then
      s := step one all n s .whole
    else if kind == "replace" then
      s := step one all n s (.replace (← getNatList o "pd"))
    else if kind == "scribble" then
      s := step one all n s (.scribble (← getNat o "i"))
    else throw "unknown op"
  pure out

def getPyVal (j : Json) : Except String PyVal := do
  let kind ← getStr j "kind"
  if kind == "int" then pure (.int (← getInt j "k"))
  else if kind == "npint" then pure (.npInt 0 false (← getInt j "k"))
  else if kind == "bool" then pure (.bool (← getBool j "b"))
  else if kind == "npbool" then pure (.npBool (← getBool j "b"))
  else if kind == "float" then pure (.float (← getRat j "v"))
  else if kind == "str" then pure (.str "" (← getOptInt j "parsed"))
  else if kind == "none" then pure .none
  else throw "unknown value kind"

def handlers : List (String × Handler) := [
  ("lazyRawNativeFile", fun j => do
    let r := lazyRawNativeFile (← getNatList j "file") (← getNat j "pixel_data_offset") (← getBool j "implicit") (← getInt j "rows")
      (← getInt j "cols") (← getInt j "samples") (← getInt j "bits") (← getInt j "n") (← getStr j "pi") (← getInt j "i")
    pure (exceptToJson natsToJson r)),
  ("readerCalls", fun j => do
    -- calls: list of k (0 = single fetch, k > 0 = batch of k through get_raw_frame, k < 0 = batch of -k straight from the reader)
    let ks ← getIntList j "calls"
    let calls := ks.map fun (k : Int) => if k = 0 then LazyCall.single else if k > 0 then LazyCall.batch k.toNat true else LazyCall.batch (-k).toNat false
    let r := runCalls (← getBool j "should_close") calls
    pure (okJson (Json.mkObj [("depth", (r.1.depth : Json)), ("open", Json.bool r.1.isOpen), ("reads_ok", Json.bool (r.2.all id)),
      ("reads", (r.2.length : Json))]))),
  ("stdFrameIndexV", fun j => do
    let v ← getPyVal (← j.getObjVal? "v")
    let r := stdFrameIndexV v (← getBool j "as_index") (← getInt j "n")
    pure (exceptToJson (fun (i : Int) => (i : Json)) r)),
  ("getFramesBits", fun j => do
    let pd ← getNatList j "pd"
    let rows ← getInt j "rows"; let cols ← getInt j "cols"; let n ← getInt j "n"
    let r := getFramesFetch (← getBool j "lazy") (memRaw pd rows cols 1 1 "MONOCHROME2") (lazyRaw pd rows cols 1 1 n "MONOCHROME2")
      n (← getInt j "k") (← getBool j "as_index") >>= decodeFetchedBits rows cols 1
    pure (exceptToJson boolsToJson r)),
  ("pixelsBits", fun j => do
    let pd ← getNatList j "pd"
    let rows ← getInt j "rows"; let cols ← getInt j "cols"; let n ← getInt j "n"
    let r := pixelsSkel.fetch (← getBool j "lazy") (memRaw pd rows cols 1 1 "MONOCHROME2") (lazyRaw pd rows cols 1 1 n "MONOCHROME2")
      n (← getInt j "idx") >>= decodeFetchedBits rows cols 1
    pure (exceptToJson boolsToJson r)),
  ("loopCached", fun j => do
    let n ← getNat j "n"
    let sk := if (← getBool j "pixels") then pixelsSkel else framesSkel
    let r := sk.cached (List.range n) 0 (← getInt j "idx")
    pure (exceptToJson (fun (i : Nat) => (i : Json)) r)),
  ("lazyWholeBits", fun j => do
    let r := lazyWholeBits (← getNatList j "pd") (← getInt j "rows") (← getInt j "cols") 1 (← getInt j "n")
    pure (exceptToJson (fun l => Json.arr (l.map boolsToJson).toArray) r)),
  ("history", fun j => do
    let ops ← getArr j "ops"
    let lazy ← match j.getObjVal? "lazy" with
      | .ok v => v.getBool?
      | .error _ => pure false
    let out ← runHistory (← getNat j "rows") (← getNat j "cols") (← getNat j "n") (← getNatList j "pd") ops.toList lazy
    pure (okJson (Json.arr out.toArray))),
  ("stdFrameIndex", fun j => do
    let r := stdFrameIndex (← getInt j "k") (← getBool j "as_index") (← getInt j "n")
    pure (exceptToJson (fun (i : Int) => (i : Json)) r)),
  ("lazyIndexGuard", fun j => do
    let r := lazyIndexGuard (← getInt j "i") (← getInt j "n")
    pure (exceptToJson (fun (i : Int) => (i : Json)) r)),
  ("pack", fun j => do pure (okJson (natsToJson (pack (← getBoolList j "bits"))))),
  ("memFrameBits", fun j => do
    let r := memFrameBits (← getNatList j "pd") (← getInt j "rows") (← getInt j "cols") (← getInt j "samples")
      (← getInt j "n") (← getInt j "k") (← getBool j "as_index")
    pure (exceptToJson boolsToJson r)),
  ("lazyFrameBits", fun j => do
    let r := lazyFrameBits (← getNatList j "pd") (← getInt j "rows") (← getInt j "cols") (← getInt j "samples")
      (← getInt j "n") (← getInt j "k") (← getBool j "as_index")
    pure (exceptToJson boolsToJson r)),
  ("memFrameBytes", fun j => do
    let r := memFrameBytes (← getNatList j "pd") (← getInt j "rows") (← getInt j "cols") (← getInt j "samples")
      (← getInt j "bits") (← getInt j "n") (← getStr j "pi") (← getInt j "k") (← getBool j "as_index")
    pure (exceptToJson natsToJson r)),
  ("lazyFrameBytes", fun j => do
    let r := lazyFrameBytes (← getNatList j "pd") (← getInt j "rows") (← getInt j "cols") (← getInt j "samples")
      (← getInt j "bits") (← getInt j "n") (← getStr j "pi") (← getInt j "k") (← getBool j "as_index")
    pure (exceptToJson natsToJson r)),
  ("batchFramesBits", fun j => do
    let ks ← match j.getObjVal? "ks" with
      | .ok .null => pure none
      | .ok _ => some <$> getIntList j "ks"
      | .error _ => pure none
    let r := memFramesBits (← getNatList j "pd") (← getInt j "rows") (← getInt j "cols") (← getInt j "samples")
      (← getInt j "n") ks (← getBool j "as_index")
    pure (exceptToJson (fun l => Json.arr (l.map boolsToJson).toArray) r)),
  ("cached", fun j => do
    -- frames are identified by their position 0..n-1; the single-frame image's whole array is frame 0
    let n ← getNat j "n"
    let sk := if (← getBool j "batch") then batchSkel else singleSkel
    let r := sk.cached (List.range n) 0 (← getInt j "k") (← getBool j "as_index")
    pure (exceptToJson (fun (i : Nat) => (i : Json)) r)),
  ("cachedBatch", fun j => do
    let n ← getNat j "n"
    let ks ← match j.getObjVal? "ks" with
      | .ok .null => pure none
      | .ok _ => some <$> getIntList j "ks"
      | .error _ => pure none
    let r := cachedFrames (List.range n) 0 ks (← getBool j "as_index")
    pure (exceptToJson natsToJson r)),
  ("getBot", fun j => do
    let r := getBot (← getNatList j "stored") (← getFrags j "frags") (← getNat j "n")
    pure (exceptToJson natsToJson r)),
  ("readFrameRawEnc", fun j => do
    let r := readFrameRaw (← getFrags j "frags") (← getNatList j "table") (← getNat j "i")
    pure (exceptToJson natsToJson r)),
  ("lazyRawEnc", fun j => do
    -- the lazy reader on the BYTES of the file from the first byte of the Pixel Data element's value on
    let eot ← match j.getObjVal? "eot" with
      | .ok .null => pure none
      | .ok _ => some <$> getNatList j "eot"
      | .error _ => pure none
    let r := lazyRawEnc (← getNatList j "pd") eot (← getNat j "n") (← getInt j "i")
    pure (exceptToJson natsToJson r)),
  ("openEncapsulated", fun j => do
    let eot ← match j.getObjVal? "eot" with
      | .ok .null => pure none
      | .ok _ => some <$> getNatList j "eot"
      | .error _ => pure none
    let r := openEncapsulated (← getNatList j "pd") eot (← getNat j "n")
    pure (exceptToJson (fun (p : List Nat × Nat) => Json.mkObj [("table", natsToJson p.1), ("first", (p.2 : Json))]) r)),
  ("lazyRaw", fun j => do
    let r := lazyRaw (← getNatList j "pd") (← getInt j "rows") (← getInt j "cols") (← getInt j "samples")
      (← getInt j "bits") (← getInt j "n") (← getStr j "pi") (← getInt j "i")
    pure (exceptToJson natsToJson r))
]

def main : IO Unit := run handlers
