import HdVerif.Model.Json
import HdVerif.Model.SRReport
open Lean HdVerif HdVerif.Drv HdVerif.SRReport

def optStr16 (j : Json) (k : String) : Except String (Option String) :=
  match j.getObjVal? k with
  | .error _ => pure none
  | .ok .null => pure none
  | .ok v => some <$> v.getStr?

def parseRef16 (v : Json) : Except String Ref := do
  let a ← v.getArr?
  match a.toList with
  | [c, i] => pure ⟨← c.getStr?, ← i.getStr?⟩
  | _ => throw "ref must be [cls, inst]"

def parseCode (v : Json) : Except String String := do
  let a ← v.getArr?
  match a.toList with
  | [c, s] => pure s!"{← c.getStr?}|{← s.getStr?}"
  | [c, s, ver] => pure s!"{← c.getStr?}|{← s.getStr?}|{← ver.getStr?}"
  | _ => throw "code must be [value, scheme] or [value, scheme, version]"

def optCode (j : Json) (k : String) : Except String (Option String) :=
  match j.getObjVal? k with
  | .error _ => pure none
  | .ok .null => pure none
  | .ok v => some <$> parseCode v

def refList (j : Json) (k : String) : Except String (List Ref) :=
  match j.getObjVal? k with
  | .error _ => pure []
  | .ok .null => pure []
  | .ok v => do let a ← v.getArr?; a.toList.mapM parseRef16

def numStr (v : Json) : String := match v with | .str s => s | other => other.compress

def parseRoi (j : Json) : Except String RoiRef := do
  let t ← getStr j "type"
  match t with
  | "region2d" => pure (.region2d (← getStr j "graphic") (← parseRef16 (← j.getObjVal? "source")))
  | "region3d" => pure (.region3d (← getStr j "graphic"))
  | "segframe" => pure (.segframe (← parseRef16 (← j.getObjVal? "seg")) (← parseRef16 (← j.getObjVal? "source")))
  | "regions2d" => do
    let rs ← (← getArr j "regions").toList.mapM (fun x => do
      let a ← x.getArr?
      match a.toList with
      | [g, s] => pure ((← g.getStr?), (← parseRef16 s))
      | _ => throw "region must be [graphic, source]")
    pure (.regions2d rs)
  | "segment" => pure (.segment (← parseRef16 (← j.getObjVal? "seg")) (← refList j "sources") (← optStr16 j "series"))
  | "surface" => pure (.surface (← getStr j "graphic") (← getNat j "n") (← refList j "sources") (← optStr16 j "series"))
  | "region_in_space" => pure (.regionInSpace (← parseRef16 (← j.getObjVal? "ref")))
  | "images" => pure (.images (← refList j "sources"))
  | _ => throw s!"unknown reference type {t}"

def parseKind (s : String) : Except String Kind :=
  match s with
  | "planar" => pure .planar
  | "volumetric" => pure .volumetric
  | "image" => pure .image
  | _ => throw s!"unknown kind {s}"

def parseGItem (j : Json) : Except String GItem := do
  let name ← getStr j "name"
  let vt ← getStr j "vt"
  let rel ← getStr j "rel"
  let value ← getStr j "value"
  let graphic ← getStr j "graphic"
  let ref ← match j.getObjVal? "ref" with
    | .error _ => pure none
    | .ok .null => pure none
    | .ok v => some <$> parseRef16 v
  pure { name := name, vt := vt, rel := rel, value := value, graphic := graphic, ref := ref, kids := [] }

def parseKid (j : Json) : Except String Kid := do
  let ref ← match j.getObjVal? "ref" with
    | .error _ => pure none
    | .ok .null => pure none
    | .ok v => some <$> parseRef16 v
  pure ⟨← getStr j "name", ← getStr j "vt", ← getStr j "rel", ref⟩

def parseGItemFull (j : Json) : Except String GItem := do
  let it ← parseGItem j
  let kids ← match j.getObjVal? "kids" with
    | .error _ => pure []
    | .ok .null => pure []
    | .ok v => do let a ← v.getArr?; a.toList.mapM parseKid
  let hasSeq := match j.getObjVal? "has_seq" with
    | .ok (.bool b) => b
    | _ => !kids.isEmpty
  pure { it with kids := kids, hasSeq := hasSeq }

def parseGroup (j : Json) : Except String Group := do
  let tid ← optStr16 j "template_id"
  let items ← (← getArr j "items").toList.mapM parseGItemFull
  pure ⟨tid, items⟩

def itemList (j : Json) (k : String) : Except String (List GItem) :=
  match j.getObjVal? k with
  | .error _ => pure []
  | .ok .null => pure []
  | .ok v => do let a ← v.getArr?; a.toList.mapM parseGItem

def parseParams (j : Json) : Except String Params := do
  let kind ← parseKind (← getStr j "kind")
  let tu ← getStr j "tracking_uid"
  let ti ← getStr j "tracking_id"
  let fc ← optCode j "finding_category"
  let ft ← optCode j "finding_type"
  let method ← optCode j "method"
  let sites ← (← getArr j "finding_sites").toList.mapM parseCode
  let ms ← (← getArr j "measurements").toList.mapM (fun x => do
    let a ← x.getArr?
    match a.toList with
    | n :: v :: _ => pure ((← parseCode n), numStr v)
    | _ => throw "measurement must be [name, value, unit]")
  let es ← (← getArr j "evaluations").toList.mapM (fun x => do
    let a ← x.getArr?
    match a.toList with
    | [n, v] => pure ((← parseCode n), (← parseCode v))
    | _ => throw "evaluation must be [name, value]")
  let purpose ← optCode j "geometric_purpose"
  let ref ← parseRoi (← j.getObjVal? "ref")
  let template ← getBool j "template"
  let ctxA ← itemList j "ctx_a"
  let ctxB ← itemList j "ctx_b"
  pure ⟨kind, tu, ti, fc, ft, method, sites, ms, es, purpose, ref, template, ctxA, ctxB⟩

def parseFilters (j : Json) : Except String Filters := do
  let tu ← optStr16 j "tracking_uid"
  let ft ← optCode j "finding_type"
  let fs ← optCode j "finding_site"
  let rt ← match j.getObjVal? "reference_type" with
    | .error _ => pure none
    | .ok .null => pure none
    | .ok v => do
      let s ← v.getStr?
      pure (some (match s with
        | "ImageRegion" => cImageRegion | "ReferencedSegmentationFrame" => cReferencedSegmentationFrame
        | "ReferencedSegment" => cReferencedSegment | "VolumeSurface" => cVolumeSurface | "RegionInSpace" => cRegionInSpace
        | "SourceImageForSegmentation" => cSourceImageForSegmentation | other => other))
  let gt ← match j.getObjVal? "graphic_type" with
    | .error _ => pure none
    | .ok .null => pure none
    | .ok v => do
      let a ← v.getArr?
      match a.toList with
      | [d, n] => pure (some ((← d.getNat?) == 2, (← n.getStr?)))
      | _ => throw "graphic_type must be [dim, name]"
  let inst ← optStr16 j "referenced_sop_instance_uid"
  let cls ← optStr16 j "referenced_sop_class_uid"
  pure { trackingUid := tu, findingType := ft, findingSite := fs, referenceType := rt, graphic := gt, inst := inst, cls := cls }

def kidJson (k : Kid) : Json := Json.mkObj [("name", k.name), ("vt", k.vt), ("rel", k.rel),
  ("ref", match k.ref with | none => Json.null | some r => Json.arr #[r.cls, r.inst])]

def itemJson (it : GItem) : Json := Json.mkObj [("name", it.name), ("vt", it.vt), ("rel", it.rel), ("value", it.value),
  ("graphic", it.graphic), ("ref", match it.ref with | none => Json.null | some r => Json.arr #[r.cls, r.inst]),
  ("kids", Json.arr (it.kids.map kidJson).toArray), ("has_seq", Json.bool it.hasSeq)]

def optS : Option String → Json | none => Json.null | some s => Json.str s
def pairsJson (l : List (String × String)) : Json := Json.arr (l.map (fun (a, b) => Json.arr #[Json.str a, Json.str b])).toArray

def handlers : List (String × Handler) := [
  ("query", fun j => do
    let k ← parseKind (← getStr j "method")
    let ps ← (← getArr j "groups").toList.mapM parseParams
    let f ← parseFilters (← j.getObjVal? "filters")
    pure (exceptToJson natsToJson (query k (ps.map mkGroup) f))),
  ("queryItems", fun j => do
    let k ← parseKind (← getStr j "method")
    let gs ← (← getArr j "groups").toList.mapM parseGroup
    let f ← parseFilters (← j.getObjVal? "filters")
    pure (exceptToJson natsToJson (query k gs f))),
  ("spec", fun j => do
    let k ← parseKind (← getStr j "method")
    let ps ← (← getArr j "groups").toList.mapM parseParams
    let f ← parseFilters (← j.getObjVal? "filters")
    let idx := (List.range ps.length).filter (fun i => match ps[i]? with
      | some p => specKind k p && specFilters k p f
      | none => false)
    pure (okJson (Json.mkObj [("spec", natsToJson idx), ("consistent", Json.bool (ps.all Params.consistent)),
      ("graphics_valid", Json.bool (ps.all Params.graphicsValid)), ("sound", Json.bool (ps.all (fun p => (mkGroup p).sound))),
      ("context_ok", Json.bool (ps.all (fun p => p.ctxA.all contextItemOK && p.ctxB.all contextItemOK))),
      ("clean_names", Json.bool (ps.all (fun p => p.evaluations.all (fun e => !reservedCodeNames.contains e.1))))]))),
  ("sound", fun j => do
    let gs ← (← getArr j "groups").toList.mapM parseGroup
    pure (okJson (Json.arr (gs.map (fun g => Json.bool g.sound)).toArray))),
  ("args", fun j => do
    let k ← parseKind (← getStr j "method")
    let gt ← match j.getObjVal? "gt" with
      | .error _ => pure none
      | .ok .null => pure none
      | .ok v => do
        let a ← v.getArr?
        match a.toList with
        | [d, n] => pure (some ((← d.getNat?) == 2, (← n.getStr?)))
        | _ => throw "gt must be [dim, name]"
    let f0 ← parseFilters (Json.mkObj [("reference_type", (j.getObjValD "rt"))])
    let f : Filters := { f0 with graphic := gt, inst := if (← getBool j "has_inst") then some "x" else none,
                                 cls := if (← getBool j "has_cls") then some "y" else none }
    pure (exceptToJson (fun (b : Bool) => Json.bool b) (argCheck k f))),
  ("layout", fun j => do
    let p ← parseParams j
    let g := mkGroup p
    pure (okJson (Json.mkObj [
      ("template_id", optS g.templateId), ("items", Json.arr (g.items.map itemJson).toArray),
      ("tracking_uid", optS (trackingUidOf g)), ("tracking_id", optS (trackingIdOf g)),
      ("finding_type", optS (findingTypeOf g)), ("finding_category", optS (findingCategoryOf g)), ("method", optS (methodOf g)),
      ("finding_sites", Json.arr ((findingSitesOf g).map Json.str).toArray),
      ("measurements", pairsJson (measurementsOf g)), ("evaluations", pairsJson (evaluationsOf g)),
      ("reference_type", optS (match p.kind with
        | .planar => referenceTypeOf g Gen.planarAllowedRefTypes
        | .volumetric => referenceTypeOf g Gen.volumetricAllowedRefTypes
        | .image => none))])))
]

def main : IO Unit := run handlers
