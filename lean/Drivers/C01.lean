import HdVerif.Model.Json
import HdVerif.Model.SegEncode
import HdVerif.Model.SegFrames
open Lean HdVerif HdVerif.Drv HdVerif.Bits HdVerif.Gen HdVerif.SegEncode

def jNatList (v : Json) : Except String (List Nat) := do
  let a ← v.getArr?
  a.toList.mapM (·.getNat?)

def jRatList (v : Json) : Except String (List Rat) := do
  let a ← v.getArr?
  a.toList.mapM parseRat

def jList {α} (f : Json → Except String α) (v : Json) : Except String (List α) := do
  let a ← v.getArr?
  a.toList.mapM f

def getMask (j : Json) : Except String Mask := do
  let kind ← getStr j "kind"
  let four ← getBool j "four"
  let pl ← j.getObjVal? "planes"
  match kind, four with
  | "int", false => Mask.intLabel <$> jList jNatList pl
  | "int", true => Mask.intStack <$> jList (jList jNatList) pl
  | "float", false => Mask.fltLabel <$> jList jRatList pl
  | "float", true => Mask.fltStack <$> jList (jList jRatList) pl
  | _, _ => throw "bad mask kind"

def getType (j : Json) : Except String SegType := do
  match (← getStr j "type") with
  | "BINARY" => pure .binary
  | "FRACTIONAL" => pure .fractional
  | "LABELMAP" => pure .labelmap
  | s => throw s!"bad type {s}"

/-- the identity codec stands for any lossless codec (the law is exercised on the real codecs by the harness) -/
def idCodec : Codec := { enc := id, dec := id }

def getCodec (j : Json) : Except String (Option Codec) := do
  pure (if (← getBool j "native") then none else some idCodec)

def segToJson : Option Nat → Json
  | none => (-1 : Int)
  | some s => (s : Nat)

def nat3ToJson (l : List (List (List Nat))) : Json :=
  Json.arr (l.map fun a => Json.arr (a.map natsToJson).toArray).toArray

def overlapStr : Overlap → String
  | .yes => "YES" | .no => "NO" | .undefined => "UNDEFINED"

def maskToJson : Mask → Json
  | .intLabel ps => Json.mkObj [("kind", "int"), ("four", false), ("planes", Json.arr (ps.map natsToJson).toArray)]
  | .intStack ps => Json.mkObj [("kind", "int"), ("four", true), ("planes", nat3ToJson ps)]
  | .fltLabel ps => Json.mkObj [("kind", "float"), ("four", false), ("planes", Json.arr (ps.map ratsToJson).toArray)]
  | .fltStack ps => Json.mkObj [("kind", "float"), ("four", true),
      ("planes", Json.arr (ps.map fun a => Json.arr (a.map ratsToJson).toArray).toArray)]

def getPlane (j : Json) : Except String Plane := do
  let kind ← getStr j "kind"
  let three ← getBool j "three"
  let px ← j.getObjVal? "px"
  match kind, three with
  | "int", false => Plane.intLabel <$> jNatList px
  | "int", true => Plane.intStack <$> jList jNatList px
  | "float", false => Plane.fltLabel <$> jRatList px
  | "float", true => Plane.fltStack <$> jList jRatList px
  | _, _ => throw "bad plane kind"

/-- `build` (and `buildTiled`: `tiled` = the matrix size; the mask is then cut into tiles by the model) with everything the
    harness compares: NumberOfFrames, BitsAllocated, SegmentsOverlap, the frames in loop order with their (segment, plane)
    key and DimensionIndexValues, PixelData in the implementation's frame order -/
def buildHandler (tiled : Bool) : Handler := fun j => do
    let codec ← getCodec j
    let rows ← getNat j "rows"
    let cols ← getNat j "cols"
    let t ← getType j
    let segs ← getNatList j "segs"
    let mfv ← getNat j "mfv"
    let omt ← getBool j "omit"
    let m0 ← getMask j
    let R ← (if tiled then getNat j "R" else pure 0)
    let C ← (if tiled then getNat j "C" else pure 0)
    let m := if tiled then tileMask R C rows cols m0 else m0
    let order ← (if tiled then pure (List.range m.numPlanes) else getNatList j "order")
    -- the shape checks of `buildTiled` (one plane of R * C pixels)
    let pre : Except ErrKind Unit :=
      if tiled ∧ (m0.numPlanes ≠ 1 ∨ m0.planeSizes.any (· != R * C)) then .error .value else .ok ()
    let r : Except ErrKind Json := do
      pre
      let o ← build codec rows cols t segs mfv omt order m
      -- the frames themselves (re-run of the loop; `build` keeps only what the object stores)
      let (arr, ov) ← castMask segs t m
      let frames ← storedFrames arr segs t mfv omt order
      -- PixelData with the frames arranged in the implementation's own frame order, if given
      let pdJson ← (match j.getObjVal? "keys" with
        | .error _ => pure Json.null
        | .ok kv =>
          match (jList (fun x => do
                  let a ← jList (fun y => y.getInt?) x
                  match a with
                  | [s, p] => pure ((if s < 0 then none else some s.toNat : Option Nat), p.toNat)
                  | _ => throw "bad key") kv) with
          | .error _ => pure Json.null
          | .ok keys =>
            match keys.mapM (fun k => frames.find? (fun f => f.seg = k.1 ∧ f.plane = k.2)) with
            | none => pure Json.null
            | some fs =>
              match codec with
              | some _ => pure Json.null
              | none => do
                let pd ← encodePixelData none rows cols o.bits (fs.map (·.px))
                match pd with
                | .native b => pure (natsToJson b)
                | _ => pure Json.null : Except ErrKind Json)
      let fkeys : List (Option Nat × Nat) := frames.map fun (f : Frame) => (f.seg, f.plane)
      let ord' := (planOrder arr mfv omt order).2
      -- DimensionIndexValues: slide coordinates when `coords` (per tile: row, column, x, y, z) is given, else a stack of
      -- planes in a frame of reference, or a single image without one (`for` = false)
      let dimsOf : List (List Nat) :=
        match (j.getObjVal? "coords").toOption.bind (fun v => (jList jRatList v).toOption) with
        | some coords => frameDimsSlide (fun p => coords.getD p []) ord' ((coords.headD []).length) fkeys
        | none => if (getBool j "for").toOption.getD true then frameDims ord' fkeys else frameDimsNoFoR fkeys
      pure (Json.mkObj [
        ("nframes", (o.keys.length : Nat)),
        ("bits", (o.bits : Nat)),
        ("overlap", overlapStr ov),
        ("frames", Json.arr (frames.map fun f => Json.arr #[segToJson f.seg, (f.plane : Nat), natsToJson f.px]).toArray),
        ("dims", Json.arr (dimsOf.map natsToJson).toArray),
        ("pd", pdJson)])
    pure (exceptToJson id r)

def handlers : List (String × Handler) := [
  ("build", buildHandler false),
  ("buildTiled", buildHandler true),
  ("tpm", fun j => do
    -- `buildTiled`, read every tile back, gather the total pixel matrix per segment (`assembleTPM`; -1 = nothing there)
    let codec ← getCodec j
    let tr ← getNat j "rows"
    let tc ← getNat j "cols"
    let R ← getNat j "R"
    let C ← getNat j "C"
    let t ← getType j
    let segs ← getNatList j "segs"
    let mfv ← getNat j "mfv"
    let omt ← getBool j "omit"
    let m ← getMask j
    let r : Except ErrKind (List (List Int)) := do
      let o ← buildTiled codec R C tr tc t segs mfv omt m
      let out ← readBySource codec o (List.range (tilesAlong R tr * tilesAlong C tc)) .assertEmpty
      pure ((List.range segs.length).map fun jj => (assembleTPM out R C tr tc jj).map fun v =>
        match v with
        | some x => (x : Int)
        | none => -1)
    pure (exceptToJson (fun l => Json.arr (l.map fun row => Json.arr (row.map fun (x : Int) => (x : Json)).toArray).toArray) r)),
  ("readDim", fun j => do
    let codec ← getCodec j
    let rows ← getNat j "rows"
    let cols ← getNat j "cols"
    let t ← getType j
    let segs ← getNatList j "segs"
    let mfv ← getNat j "mfv"
    let omt ← getBool j "omit"
    let order ← getNatList j "order"
    let m ← getMask j
    let ks ← getNatList j "request"
    let r : Except ErrKind (List (List (List Nat))) := do
      let o ← build codec rows cols t segs mfv omt order m
      let (arr, _) ← castMask segs t m
      readByDimIndex codec o (frameDims (planOrder arr mfv omt order).2 o.keys) ks
    pure (exceptToJson nat3ToJson r)),
  ("roundtrip", fun j => do
    let codec ← getCodec j
    let allow ← getBool j "allow_missing"
    let mode ← (if allow then pure ReadMode.assertEmpty else do
      let mf ← getBool j "multiframe"
      if mf then pure ReadMode.byFrame else do
        let nsrc ← getNat j "nsrc"
        pure (ReadMode.byInstance nsrc))
    let r := roundtrip codec (← getNat j "rows") (← getNat j "cols") (← getType j) (← getNatList j "segs")
      (← getNat j "mfv") (← getBool j "omit") (← getNatList j "order") (← getMask j)
      (← getNatList j "request") mode
    pure (exceptToJson nat3ToJson r)),
  ("castMask", fun j => do
    let r := castMask (← getNatList j "segs") (← getType j) (← getMask j)
    pure (exceptToJson (fun (x : Mask × Overlap) =>
      Json.mkObj [("mask", maskToJson x.1), ("overlap", overlapStr x.2)]) r)),
  ("segPlane", fun j => do
    let r := segPlane (← getNatList j "segs") (← getType j) (← getNat j "mfv") (← getNat j "s") (← getPlane j)
    pure (exceptToJson natsToJson r)),
  ("nativeBits", fun j => do
    let fr ← jList (fun x => do let a ← x.getArr?; a.toList.mapM jsonToBool) (← j.getObjVal? "frames")
    let r := nativeBits (← getNat j "rows") (← getNat j "cols") fr
    pure (exceptToJson natsToJson r)),
  ("roundHalfEven", fun j => do
    pure (okJson ((roundHalfEven (← getRat j "q") : Int) : Json)))
]

def main : IO Unit := run handlers
