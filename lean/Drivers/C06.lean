import HdVerif.Model.Json
import HdVerif.Model.PixelPipeline
import HdVerif.Generated.T6g
import HdVerif.Generated.T6i
import HdVerif.Generated.T6p
import HdVerif.Generated.T6r
open Lean HdVerif HdVerif.Drv HdVerif.Gen HdVerif.PixelPipeline

def getTri (v : Json) : Except String Tri :=
  match v with
  | .null => pure .n
  | .bool true => pure .t
  | .bool false => pure .f
  | _ => throw "tri-state expected"

def getCType (s : String) : Except String CType :=
  if s == "MONOCHROME" then pure .mono else if s == "COLOR" then pure .color
  else if s == "PALETTE_COLOR" then pure .palette else throw s!"colour type {s}"

def getWinFn (s : String) : Except String WinFn :=
  if s == "LINEAR" then pure .linear else if s == "LINEAR_EXACT" then pure .exact
  else if s == "SIGMOID" then pure .sigmoid else throw s!"window function {s}"

def getSel (v : Json) : Except String Sel :=
  match v with
  | .str s => pure (Sel.str s)
  | v => do pure (Sel.idx (← v.getInt?))

def stagesOf (l : List Bool) : Except String Stages :=
  match l with
  | [a, b, c, d, e, f] => pure ⟨a, b, c, d, e, f⟩
  | _ => throw "six stage flags expected"

def stagesToJson (s : Stages) : Json := boolsToJson [s.rwvm, s.modality, s.voi, s.invert, s.palette, s.icc]

def kindOf (j : Json) : Except String String :=
  match j with
  | .null => pure "none"
  | _ => getStr j "k"

def getParams (j : Json) : Except String Params := do
  let mj := j.getObjValD "modality"
  let modality ← match (← kindOf mj) with
    | "none" => pure Modality.none
    | "rescale" => pure (Modality.rescale (← getRat mj "m") (← getRat mj "b"))
    | "lut" => pure (Modality.lut (← getInt mj "first") (← getNatList mj "data"))
    | k => throw s!"modality kind {k}"
  let vj := j.getObjValD "voi"
  let voi ← match (← kindOf vj) with
    | "none" => pure Voi.none
    | "window" => pure (Voi.window (← getWinFn (← getStr vj "fn")) (← getRat vj "c") (← getRat vj "w"))
    | "lut" => pure (Voi.lut (← getInt vj "first") (← getNatList vj "data"))
    | k => throw s!"voi kind {k}"
  let rj := j.getObjValD "rwvm"
  let rwvm ← match (← kindOf rj) with
    | "none" => pure Rwvm.none
    | "linear" => pure (Rwvm.linear (← getRat rj "first") (← getRat rj "last") (← getRat rj "m") (← getRat rj "b"))
    | "lut" => pure (Rwvm.lut (← getInt rj "first") (← getRatList rj "data"))
    | k => throw s!"rwvm kind {k}"
  pure { modality, voi, rwvm, imin := (← getInt j "imin"), imax := (← getInt j "imax"),
         lo := (← getRat j "lo"), hi := (← getRat j "hi") }

def outToJson : Out → Json
  | .val q => Json.mkObj [("v", ratToJson q)]
  | .sig k off arg => Json.mkObj [("s", ratsToJson [k, off, arg])]

def outsToJson (l : List (Except ErrKind Out)) : Json :=
  Json.arr (l.map (exceptToJson outToJson)).toArray

def handlers : List (String × Handler) := [
  ("flagOutcome", fun j => do
    let fl ← (← getArr j "flags").toList.mapM getTri
    let pr ← getBoolList j "present"
    match fl, pr with
    | [rw, mod, voi, pal, icc], [a, b, c, d, e] =>
      let r := stageOutcome ⟨rw, mod, voi, pal, icc, (← getBool j "pres")⟩ (← getCType (← getStr j "ctype")) ⟨a, b, c, d, e⟩
      pure (exceptToJson stagesToJson r)
    | _, _ => throw "five flags and five presence bits expected"),
  ("specOutcome", fun j => do
    let fl ← (← getArr j "flags").toList.mapM getTri
    let pr ← getBoolList j "present"
    match fl, pr with
    | [rw, mod, voi, pal, icc], [a, b, c, d, e] =>
      match specOutcome ⟨rw, mod, voi, pal, icc, (← getBool j "pres")⟩ (← getCType (← getStr j "ctype")) ⟨a, b, c, d, e⟩ with
      | some s => pure (okJson (stagesToJson s))
      | none => pure (Json.mkObj [("err", Json.str "refused")])
    | _, _ => throw "five flags and five presence bits expected"),
  ("folded", fun j => do
    let p ← getParams (j.getObjValD "params")
    let st ← stagesOf (← getBoolList j "stages")
    pure (okJson (outsToJson ((← getIntList j "xs").map (folded p st))))),
  ("pipeline", fun j => do
    -- flags -> stages (stageOutcome) -> folded transform on every stored value
    let fl ← (← getArr j "flags").toList.mapM getTri
    let pr ← getBoolList j "present"
    let p ← getParams (j.getObjValD "params")
    match fl, pr with
    | [rw, mod, voi, pal, icc], [a, b, c, d, e] =>
      match stageOutcome ⟨rw, mod, voi, pal, icc, (← getBool j "pres")⟩ (← getCType (← getStr j "ctype")) ⟨a, b, c, d, e⟩ with
      | .error e => pure (Json.mkObj [("err", Json.str e.toString)])
      | .ok st => pure (okJson (Json.mkObj [("stages", stagesToJson st),
          ("folded", outsToJson ((← getIntList j "xs").map (folded p st))),
          ("ref", outsToJson ((← getIntList j "xs").map (ref p st)))]))
    | _, _ => throw "five flags and five presence bits expected"),
  ("ref", fun j => do
    let p ← getParams (j.getObjValD "params")
    let st ← stagesOf (← getBoolList j "stages")
    pure (okJson (outsToJson ((← getIntList j "xs").map (ref p st))))),
  ("applyLut", fun j => do
    let table ← getIntList j "table"
    let first ← getInt j "first"
    let clip ← getBool j "clip"
    pure (okJson (Json.arr (((← getIntList j "xs").map (applyLut table first clip)).map
      (exceptToJson (fun (i : Int) => (i : Json)))).toArray))),
  ("checkRescaleDtype", fun j => do
    let r := checkRescaleDtype (← getRat j "slope") (← getRat j "intercept") (← getBool j "has_range") (← getInt j "rmin")
      (← getInt j "rmax") (← getStr j "out_kind") (← getStr j "in_kind") (← getInt j "out_max") (← getInt j "out_min")
      (← getInt j "in_max") (← getInt j "in_min")
    pure (exceptToJson (fun (b : Bool) => Json.bool b) r)),
  ("inputType", fun j => do
    let r := inputType (← getBool j "is_pmap") (← getInt j "bits_allocated") (← getInt j "pixel_representation") (← getInt j "bits_stored")
    pure (exceptToJson (fun (p : Int × Bool × Int × Int) =>
      Json.mkObj [("dtype", (p.1 : Json)), ("has_range", Json.bool p.2.1), ("lo", (p.2.2.1 : Json)), ("hi", (p.2.2.2 : Json))]) r)),
  ("outputRules", fun j => do
    let r := outputRules (← getBool j "has_lut") (← getBool j "has_cm") (← getBool j "lut_dtype_differs") (← getBool j "in_float")
      (← getBool j "has_si") (← getBool j "si_identity") (← getBool j "has_window") (← getStr j "out_kind") (← getStr j "in_kind")
      (← getBool j "can_cast_safe") (← getStr j "color_type")
    pure (exceptToJson (fun (p : Bool × Bool × Bool × Bool × Bool × Bool) =>
      Json.mkObj [("has_si", Json.bool p.2.1), ("check_output_range", Json.bool p.2.2.2.2.1), ("color_output", Json.bool p.2.2.2.2.2)]) r)),
  ("presentationInverts", fun j => do
    let r := presentationInverts (← getBool j "apply") (← getBool j "has_shape") (← getStr j "shape") (← getStr j "photometric")
    pure (exceptToJson (fun (b : Bool) => Json.bool b) r)),
  ("lutInit", fun j => do
    let r := lutInit (← getInt j "first") (← getNat j "bits") (← getNatList j "data")
    pure (exceptToJson (fun (ds : LutDs) => Json.mkObj [("descriptor", intsToJson ds.descriptor), ("data", natsToJson ds.data)]) r)),
  ("lutAccess", fun j => do
    let ds : LutDs := ⟨← getIntList j "descriptor", ← getNatList j "data"⟩
    let ds := if (← getBool j "pad") then padEven ds else ds
    let r : Except ErrKind (List Nat × Int × Int) :=
      match lutData ds, firstMapped ds, numberOfEntries ds with
      | .ok d, .ok f, .ok n => .ok (d, f, n)
      | .error e, _, _ => .error e
      | _, .error e, _ => .error e
      | _, _, .error e => .error e
    pure (exceptToJson (fun (x : List Nat × Int × Int) =>
      Json.mkObj [("data", natsToJson x.1), ("first", (x.2.1 : Json)), ("n", (x.2.2 : Json))]) r)),
  ("selectWindow", fun j => do
    let expl ← match j.getObjValD "expl" with
      | .null => pure none
      | v => do let a ← v.getArr?; pure (some (← a.toList.mapM (·.getStr?)))
    let sel ← getSel (j.getObjValD "sel")
    match selectWindow (← getRatList j "centers") (← getRatList j "widths") expl sel with
    | some (c, w) => pure (okJson (ratsToJson [c, w]))
    | none => pure (Json.mkObj [("err", Json.str "index")])),
  ("selectLut", fun j => do
    let expl ← (← getArr j "expl").toList.mapM fun v => match v with
      | .null => pure none
      | v => some <$> v.getStr?
    let n ← getNat j "n"
    match selectLut expl (List.range n) (← getSel (j.getObjValD "sel")) with
    | some i => pure (okJson (i : Json))
    | none => pure (Json.mkObj [("err", Json.str "index")])),
  ("selectRwvm", fun j => do
    let labels ← (← getArr j "labels").toList.mapM (·.getStr?)
    let units ← (← getArr j "units").toList.mapM fun v => do
      let a ← v.getArr?
      match a.toList with
      | [x, y] => pure ((← x.getStr?), (← y.getStr?))
      | _ => throw "unit pair expected"
    let sj := j.getObjValD "sel"
    let sel ← match sj with
      | .num _ => do pure (RwSel.idx (← sj.getInt?))
      | .str s => pure (RwSel.label s)
      | .arr a => match a.toList with
        | [x, y] => do pure (RwSel.unit (← x.getStr?) (← y.getStr?))
        | _ => throw "unit selector"
      | _ => throw "selector"
    match selectRwvm labels units (List.range labels.length) sel with
    | some i => pure (okJson (i : Json))
    | none => pure (Json.mkObj [("err", Json.str "index")])),
  ("findPlaced", fun j => do
    let opt (v : Json) : Except String (Option Int) := match v with
      | .null => pure none
      | v => some <$> v.getInt?
    let pl : Placed Int := ⟨← opt (j.getObjValD "image"), ← opt (j.getObjValD "shared"),
      ← (← getArr j "perFrame").toList.mapM opt⟩
    match pl.find (← getNat j "f") with
    | some (v, sh) => pure (okJson (Json.arr #[(v : Json), Json.bool sh]))
    | none => pure (Json.mkObj [("err", Json.str "none")]))
]

def main : IO Unit := run handlers
