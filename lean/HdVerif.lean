-- Root of the library: imports every property file so that `lake build` checks all theorems.
import HdVerif.Model.Basic
import HdVerif.Model.Json
import HdVerif.Props.C05
