"""C03 defect (c): create_segmentation_pyramid (single source image) computes the level spacing from
`pixel_arrays[0].shape[0] / pixel_array.shape[0]` and `shape[1] / shape[1]`: rows/columns are axes 0/1 only for a
rank-2 mask; for rank-3/4 masks (1, rows, cols[, segments]) -- and for every down-sampled level, which is always
built with a leading frame axis -- the ratio is taken over the wrong axes, so rows*row_spacing (the physical extent)
differs between levels.
Run: /venv/bin/python fixes/C03-pyramid-spacing/repro.py  (exit 1 while the defect is present)
"""
import sys
sys.path.insert(0, '/verif/harness')
import hd_env; hd_env.setup()
import numpy as np
import highdicom as hd
from gen.sources import slide_image, seg_description

bad = 0
for rank in (2, 3, 4):
    src, _ = slide_image(16, 24, 8, 8, pixel_spacing=(0.5, 0.25))
    mask = np.zeros((16, 24), np.uint8)
    mask[2:9, 3:17] = 1
    arr = {2: mask, 3: mask[None], 4: mask[None, :, :, None]}[rank]
    segs = hd.seg.create_segmentation_pyramid(
        [src], [arr], 'BINARY', [seg_description(1)], series_instance_uid=hd.UID(), series_number=2,
        manufacturer='m', manufacturer_model_name='mm', software_versions='1', device_serial_number='1',
        downsample_factors=[2.0, 4.0])
    ext = []
    for s in segs:
        ps = s.SharedFunctionalGroupsSequence[0].PixelMeasuresSequence[0].PixelSpacing
        ext.append((s.TotalPixelMatrixRows * float(ps[0]), s.TotalPixelMatrixColumns * float(ps[1])))
    ok = all(np.allclose(e, ext[0]) for e in ext)
    print('rank', rank, 'extent (rows*spacing, cols*spacing) per level:', ext, 'ok' if ok else 'WRONG')
    bad |= not ok
sys.exit(int(bad))
