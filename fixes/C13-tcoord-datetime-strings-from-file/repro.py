"""TcoordContentItem.value of an item read from DICOM bytes returned strings instead of date times.  Exit 1 while present."""
import os
import sys
sys.path.insert(0, os.path.join(os.path.dirname(os.path.abspath(__file__)), ".."))
from _c13_common import *  # noqa: E402,F401,F403

import datetime
t = TcoordContentItem(NAME, 'POINT', referenced_date_time=[datetime.datetime(2020, 1, 2, 3, 4, 5, 678)], relationship_type='CONTAINS')
back = TcoordContentItem.from_dataset(through_bytes(t))
print('in memory', [type(v).__name__ for v in t.value], ' after bytes', [type(v).__name__ for v in back.value], back.value == t.value)
sys.exit(0 if all(isinstance(v, datetime.datetime) for v in back.value) and list(back.value) == list(t.value) else 1)
