"""get_qualitative_evaluations() returned the "Finding category" (and "Geometric purpose of region") CODE items of
the group container as if they were qualitative evaluations.
    /venv/bin/python fixes/C16-evaluations-include-category/repro.py"""
import sys
sys.path.insert(0, '/verif/harness')
import hd_env; hd_env.setup()
import highdicom as hd
from gen import srreports
g = hd.sr.MeasurementsAndQualitativeEvaluations(
    tracking_identifier=hd.sr.TrackingIdentifier(uid='1.2.3', identifier='x'),
    finding_category=srreports.cc(('C1', '99VERIF')),
    qualitative_evaluations=[hd.sr.QualitativeEvaluation(name=srreports.cc(('Q1', '99VERIF')), value=srreports.cc(('A1', '99VERIF')))])
got = [(e.name.value, e.value.value) for e in g.get_qualitative_evaluations()]
print('constructed with [(Q1, A1)]; reported:', got)
sys.exit(0 if got == [('Q1', 'A1')] else 1)
