"""C19: ParametricMap per-frame DimensionIndexValues: the rank of a frame's ImagePositionPatient is looked up with an
element-wise comparison of 3-vectors, so every position that shares ONE coordinate with the first unique position
(e.g. x = y = 0 for an axial stack) gets index 1.  exit 1 = defect present"""
import sys; sys.path.insert(0, '/verif/fixes')
from _c19_common import *
src = ct_series(3, 3, 4, order=[2, 0, 1])          # z = 2, 0, 1
arr = np.arange(36, dtype=np.uint16).reshape(3, 3, 4)
pm = pmap(arr, [lin('a', 1.0, 0.0)], src)
got = [(float(p.PlanePositionSequence[0].ImagePositionPatient[2]), p.FrameContentSequence[0].DimensionIndexValues)
       for p in pm.PerFrameFunctionalGroupsSequence]
print(got)
want = [3, 1, 2]
ok = [int(d if not hasattr(d, '__len__') else d[0]) for _, d in got] == want
print('dimension index values', 'OK' if ok else 'WRONG, expected %s' % want)
sys.exit(0 if ok else 1)
