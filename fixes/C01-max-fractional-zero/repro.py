"""max_fractional_value = 0 is accepted: every stored value is 0, MaximumFractionalValue = 0 is written, reading
back divides by zero (NaN everywhere), and with omit_empty_frames=True the constructor crashes with IndexError on
an object without frames.  Exit 1 while the defect is present."""
import os
import sys
sys.path.insert(0, os.path.join(os.path.dirname(os.path.abspath(__file__)), '..'))
from _c01_common import ct_series, make  # noqa: E402
import numpy as np  # noqa: E402

src = ct_series(1, 2, 2)
mask = np.array([[[1, 0], [0, 1]]], dtype=np.uint8)
try:
    seg = make(src, mask, 'FRACTIONAL', [1], max_fractional_value=0, omit_empty_frames=False)
except ValueError as e:
    print('refused:', e)
    sys.exit(0)
out = seg.get_pixels_by_source_instance([src[0].SOPInstanceUID])[..., 0]
print('accepted; read back', out.tolist())
sys.exit(1)
