"""C12 defect: the per-frame data implied by TILED_FULL ignore ZOffsetInSlideCoordinateSystem of the total pixel matrix origin.

`iter_tiled_full_frame_data` (and with it compute_plane_position_slide_per_frame, the frame table of TILED_FULL images and every
`*Transformer.for_image(image, frame_number=k)`) takes z = (focal plane - 1) * SpacingBetweenSlices, while
`_get_spatial_information(for_total_pixel_matrix=True)`, `Image.get_volume_geometry` and the Segmentation constructor (which WRITES
that attribute into TotalPixelMatrixOriginSequence, and gives TILED_SPARSE frames that z) use the origin's z offset.  So for an
image whose origin has z != 0 a tile's reported position is not the total-pixel-matrix transform of its pixel offset, and the same
mask stored as TILED_FULL and as TILED_SPARSE sits at two different heights.
Run:  /venv/bin/python fixes/C12-tiled-full-origin-z/repro.py     (exit 1 while the defect is present)
"""
import os
import sys
sys.path.insert(0, os.path.join(os.path.dirname(os.path.abspath(__file__)), '..', '..', 'harness'))
import hd_env
hd_env.setup()
import numpy as np
import highdicom as hd
from highdicom import spatial
from gen.sources import seg_description, slide_image

bad = 0
ds, _ = slide_image(4, 6, 2, 2, tiled_full=True, origin=(1.0, 2.0, 0.0))
ds.TotalPixelMatrixOriginSequence[0].ZOffsetInSlideCoordinateSystem = 2.5
T = spatial.PixelToReferenceTransformer.for_image(ds, for_total_pixel_matrix=True)
for k, x in enumerate(list(spatial.iter_tiled_full_frame_data(ds))[:3], 1):
    want = T(np.array([[x[2] - 1, x[3] - 1]]))[0].tolist()
    frame = spatial.PixelToReferenceTransformer.for_image(ds, frame_number=k)(np.array([[0, 0]]))[0].tolist()
    ok = np.allclose(x[4:], want) and np.allclose(frame, want)
    print('frame', k, 'iter_tiled_full_frame_data', x[4:], 'per-frame transformer', frame, 'transform of the offset', want, 'OK' if ok else 'DIFFERENT')
    bad += not ok
mask = np.ones((1, 4, 6), dtype=np.uint8)
z = {}
for org in ('TILED_SPARSE', 'TILED_FULL'):
    seg = hd.seg.Segmentation([ds], mask, 'LABELMAP', [seg_description(1)], hd.UID(), 1, hd.UID(), 1, 'm', 'mm', '1', 'dev',
                              tile_pixel_array=True, dimension_organization_type=org, omit_empty_frames=False)
    z[org] = spatial.PixelToReferenceTransformer.for_image(seg, frame_number=2)(np.array([[0, 0]]))[0].tolist()
    print(org, 'segmentation, frame 2 sits at', z[org], ' origin z written:', seg.TotalPixelMatrixOriginSequence[0].ZOffsetInSlideCoordinateSystem)
bad += not np.allclose(z['TILED_SPARSE'], z['TILED_FULL'])
sys.exit(1 if bad else 0)
