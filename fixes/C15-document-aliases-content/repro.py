"""The SR document must own its content tree: no aliasing of the caller items, data set items = .content items.
    /venv/bin/python fixes/C15-document-aliases-content/repro.py"""
import sys, io
sys.path.insert(0,'/verif/harness')
import hd_env; hd_env.setup()
import highdicom as hd, pydicom
from pydicom.sr.codedict import codes
from gen import srdocs
ds = srdocs.evidence_dataset('1.2.3','1.2.3.1','1.2.3.1.1','1.2.840.10008.5.1.4.1.1.2')
child = hd.sr.TextContentItem(name=codes.DCM.Finding, value='x', relationship_type='CONTAINS')
root = hd.sr.ContainerContentItem(name=codes.DCM.ImagingMeasurementReport)
root.ContentSequence = hd.sr.ContentSequence([child])
doc = hd.sr.Comprehensive3DSR(evidence=[ds], content=root, series_instance_uid='1.9', series_number=1, sop_instance_uid='1.9.1', instance_number=1, manufacturer='m')
print('data set aliases caller item:', doc.ContentSequence[0] is child, '| data set item is .content item:', doc.ContentSequence[0] is doc.content[0].ContentSequence[0])
child.TextValue = 'MUTATED'
print('after mutating the caller item: data set', doc.ContentSequence[0].TextValue, '.content', doc.content[0].ContentSequence[0].TextValue)
bio=io.BytesIO(); doc.save_as(bio); print(hd.sr.srread(io.BytesIO(bio.getvalue())).content[0].ContentSequence[0].TextValue)
