"""get_volume_positions(..., sort=False) is documented to "check whether the positions represent a 3D volume in
the specific order in which they are passed", but it examined the rows in the lexicographic order produced by
np.unique, never in the given order:
  * a shuffled stack was accepted (indices = lexicographic rank),
  * a stack passed along the positive normal was REFUSED with enforce_handedness=True whenever the
    lexicographic order runs against the normal (e.g. the default volume convention on axial slices, normal -z),
  * and the indices of an accepted stack did not follow the given order.
Expected after the fix: with sort=False the spacing test runs over the positions as given, indices are 0..n-1."""
import sys
sys.path.insert(0, '/verif/harness')
import hd_env; hd_env.setup()
from highdicom.spatial import get_volume_positions, get_normal_vector, VOLUME_INDEX_CONVENTION
ori = [1., 0., 0., 0., 1., 0.]
print('normal', get_normal_vector(ori, VOLUME_INDEX_CONVENTION))       # (0, 0, -1)
P = lambda zs: [[0., 0., float(z)] for z in zs]
along = P([2, 1, 0])        # ordered along the positive normal
against = P([0, 1, 2])
shuffled = P([1, 0, 2])
r = {}
r['along'] = get_volume_positions(along, ori, sort=False)
r['along_enforced'] = get_volume_positions(along, ori, sort=False, enforce_handedness=True)
r['against'] = get_volume_positions(against, ori, sort=False)
r['against_enforced'] = get_volume_positions(against, ori, sort=False, enforce_handedness=True)
r['shuffled'] = get_volume_positions(shuffled, ori, sort=False)
for k, v in r.items():
    print(k, v)
assert r['along'] == (1.0, [0, 1, 2])
assert r['along_enforced'] == (1.0, [0, 1, 2])
assert r['against'] == (1.0, [0, 1, 2])
assert r['against_enforced'] == (None, None)
assert r['shuffled'] == (None, None)
print('ok')
