"""ReferenceToPixelTransformer / ReferenceToImageTransformer / PixelToPixelTransformer / ImageToImageTransformer (through
_create_inv_affine_matrix_from_attributes) raised TypeError('Argument "image_position" must be a sequence.') for numpy arrays,
while the forward transformers (create_affine_matrix_from_attributes) accept the very same arguments: the inverse of a
transformer could not be built from the arguments the transformer itself was built from.  Expected: arrays accepted alike."""
import sys
sys.path.insert(0, '/verif/harness')
import hd_env; hd_env.setup()
import numpy as np
from highdicom import spatial as sp
a = dict(image_position=np.array([1., 2., 3.]), image_orientation=np.array([1., 0, 0, 0, 1, 0]), pixel_spacing=np.array([.5, .25]))
f = sp.PixelToReferenceTransformer(**a)
b = sp.ReferenceToPixelTransformer(round_output=False, **a)
assert np.allclose(b(f(np.array([[3, 4]])))[0], [3, 4, 0])
sp.ReferenceToImageTransformer(**a)
sp.PixelToPixelTransformer(a['image_position'], a['image_orientation'], a['pixel_spacing'], a['image_position'], a['image_orientation'], a['pixel_spacing'])
print('ok')
