"""WaveformContentItem.referenced_waveform_channels looks for ReferencedFrameNumber, which a waveform reference
never has: the accessor returns None whatever channels the item was constructed with.  Exit 1 while present."""
import os
import sys
sys.path.insert(0, os.path.join(os.path.dirname(os.path.abspath(__file__)), ".."))
from _c13_common import *  # noqa: E402,F401,F403

w = WaveformContentItem(NAME, '1.2.840.10008.5.1.4.1.1.9.1.1', '1.2.3', referenced_waveform_channels=[(1, 2), (1, 3)])
print('constructed with [(1, 2), (1, 3)], accessor returns', w.referenced_waveform_channels)
sys.exit(0 if w.referenced_waveform_channels == [(1, 2), (1, 3)] else 1)
