"""C11 open finding C11-gaps-sparse-start (NOT fixed): get_volume_positions(allow_missing_positions=True) without a spacing
hint estimates the spacing from the smallest gap and refines it over the distances of the planes above the lowest one, in
increasing order (n = round(distance / spacing); spacing = distance / n).  When the plane number jumps by more than ~1/(2 rtol)
from one present plane to the next, the estimate (known to half the tolerance) cannot tell the number of the next plane; the
refinement settles on a neighbouring number and a stack that is regular within a quarter of the tolerance is refused:
planes at 0, 400.0025, 400.9975, 531 (spacing 1, rtol 1 %: every plane within 0.0025 of its multiple) -> (None, None),
although spacing_hint=1.0 gives (1.0, [0, 400, 401, 531]).
Run: /venv/bin/python fixes/C11-gaps-sparse-start/repro.py   (exit 1 while the finding reproduces)
"""
import sys
sys.path.insert(0, '/verif/harness')
import hd_env; hd_env.setup()
from highdicom.spatial import get_volume_positions

ORI = [1.0, 0.0, 0.0, 0.0, 1.0, 0.0]
pos = [[0.0, 0.0, -z] for z in (0.0, 400.0025, 400.9975, 531.0)]
print('every plane within', max(abs(z - k) for z, k in zip((0.0, 400.0025, 400.9975, 531.0), (0, 400, 401, 531))), 'of k * 1.0; tolerance 0.01')
hinted = get_volume_positions(pos, ORI, allow_missing_positions=True, spacing_hint=1.0)
free = get_volume_positions(pos, ORI, allow_missing_positions=True)
print('with spacing_hint=1.0 ->', hinted)
print('without hint         ->', free, '(expected (1.0, [0, 400, 401, 531]))')
sys.exit(1 if free[0] is None else 0)
