import sys; sys.path.insert(0,'/verif/harness')
import hd_env; hd_env.setup()
import numpy as np, highdicom as hd, pydicom
from gen.sources import ct_series
from pydicom.sr.coding import Code
def mk(t, nums):
    src = ct_series(2, 3, 3)
    descs=[hd.seg.SegmentDescription(segment_number=n, segment_label='s%d'%n, segmented_property_category=Code('T-1','99V','a'), segmented_property_type=Code('T-2','99V','b'), algorithm_type='MANUAL') for n in nums]
    S=len(nums)
    lab=np.array([[[0,1,2],[1,2,0],[2,2,1]],[[0,0,1],[1,1,1],[2,0,0]]])
    arr=np.stack([(lab==k+1) for k in range(S)],axis=-1).astype(np.uint8)
    kw={}
    if t=='FRACTIONAL': arr=arr.astype(float); kw['max_fractional_value']=100
    seg=hd.seg.Segmentation(source_images=src,pixel_array=arr,segmentation_type=t,segment_descriptions=descs,series_instance_uid=hd.UID(),series_number=2,sop_instance_uid=hd.UID(),instance_number=1,manufacturer='v',manufacturer_model_name='v',software_versions='1',device_serial_number='1',**kw)
    return seg,src
for t in ['BINARY','FRACTIONAL','LABELMAP']:
    seg,src=mk(t,[1,2])
    uids=[s.SOPInstanceUID for s in src]
    for segs in ([1,1],[2,1,2]):
        for c in (False,True):
            for rl in (False,True):
                for sk in (False,True):
                    try:
                        a=seg.get_pixels_by_source_instance(uids[:1],segment_numbers=segs,combine_segments=c,relabel=rl,skip_overlap_checks=sk)
                        print(t,segs,c,rl,sk,'ok',a.shape,a.reshape(-1).tolist()[:18])
                    except Exception as e:
                        print(t,segs,c,rl,sk,type(e).__name__,str(e)[:80])
