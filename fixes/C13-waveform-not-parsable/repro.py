"""A WAVEFORM content item cannot be parsed back: `_get_content_item_class` and `_assert_value_type` have no row
for the value type (KeyError from ContentSequence.from_sequence) and WaveformContentItem.from_dataset asserts the
value type IMAGE (ValueError; and it accepts an IMAGE dataset).  Exit 1 while the defect is present."""
import os
import sys
sys.path.insert(0, os.path.join(os.path.dirname(os.path.abspath(__file__)), ".."))
from _c13_common import *  # noqa: E402,F401,F403

w = WaveformContentItem(NAME, '1.2.840.10008.5.1.4.1.1.9.1.1', '1.2.3', relationship_type='CONTAINS')
r1 = attempt(lambda: type(WaveformContentItem.from_dataset(plain(w))).__name__)
r2 = attempt(lambda: type(ContentSequence.from_sequence([plain(w)])[0]).__name__)
im = ImageContentItem(NAME, '1.2.840.10008.5.1.4.1.1.2', '1.2.3', relationship_type='CONTAINS')
r3 = attempt(lambda: type(WaveformContentItem.from_dataset(plain(im))).__name__)
print('WaveformContentItem.from_dataset:', r1, ' from_sequence:', r2, ' from_dataset(IMAGE dataset):', r3)
sys.exit(0 if r1 == ('ok', 'WaveformContentItem') and r2 == ('ok', 'WaveformContentItem') and r3[0] == 'raised' else 1)
