"""ParametricMap(slide source, plane_positions=<positions that differ from the source>) assigned the raw floats of the position\ntable to TotalPixelMatrixOriginSequence[0].X/YOffsetInSlideCoordinateSystem (VR DS): 2.3333333333333335 has 18 characters ->\nOverflowError under strict validation, an over-long invalid DS otherwise.  Found by the DS-site table (T20ds) / long-repr number stream."""
import sys; sys.path.insert(0,'/verif/harness'); sys.path.insert(0,'/verif')
import hd_env; hd_env.setup()
import numpy as np, highdicom as hd, traceback
from gen import sources
from corr import C20
from pydicom.sr.codedict import codes
import logging; logging.disable(logging.CRITICAL)
third=1/3
ids=lambda: dict(series_instance_uid=hd.UID(), series_number=1, sop_instance_uid=hd.UID(), instance_number=1, manufacturer='m', manufacturer_model_name='mm', software_versions='1', device_serial_number='1')
ds,_=sources.slide_image(8, 8, 4, 4)
n=int(ds.NumberOfFrames)
pos=[hd.PlanePositionSequence(hd.CoordinateSystemNames.SLIDE, image_position=(1.0+third*k, 2.0+third, 0.0), pixel_matrix_position=(1+4*(k%2), 1+4*(k//2))) for k in range(n)]
m=hd.pm.RealWorldValueMapping(lut_label='m', lut_explanation='f', unit=codes.UCUM.NoUnits, value_range=(0,255), intercept=0, slope=1)
for mode in ('WARN','RAISE'):
    try:
        if mode=='RAISE':
            cm=C20.strict_validation(); cm.__enter__()
        o=hd.pm.ParametricMap([ds], np.zeros((n,4,4),np.uint8), contains_recognizable_visual_features=False, real_world_value_mappings=[m], window_center=1, window_width=2, plane_positions=pos, **ids())
        print(mode, 'constructed; X offset element:', repr(o.TotalPixelMatrixOriginSequence[0].XOffsetInSlideCoordinateSystem), len(str(o.TotalPixelMatrixOriginSequence[0].XOffsetInSlideCoordinateSystem)))
        print(mode, C20.file_clause(o)[0])
    except Exception as e:
        print(mode, 'CTOR', type(e).__name__, str(e)[:140])
    finally:
        if mode=='RAISE': cm.__exit__()
with C20.strict_validation():
    try:
        hd.pm.ParametricMap([ds], np.zeros((n,4,4),np.uint8), contains_recognizable_visual_features=False, real_world_value_mappings=[m], window_center=1, window_width=2, plane_positions=pos, **ids())
    except Exception as e:
        tb=traceback.extract_tb(e.__traceback__); print([(t.filename.split('/')[-1], t.lineno, t.line) for t in tb if 'highdicom' in t.filename][-2:])
