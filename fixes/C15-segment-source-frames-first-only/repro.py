"""from_segmentation builders: source frames of ALL named frames (union per instance; a source item without frame numbers = whole instance).
    /venv/bin/python fixes/C15-segment-source-frames-first-only/repro.py"""
import sys
sys.path.insert(0,'/verif/harness')
import hd_env; hd_env.setup()
import highdicom as hd
from pydicom.dataset import Dataset
from pydicom.sequence import Sequence
def seg(frames):
    ds = Dataset(); ds.SOPClassUID = '1.2.840.10008.5.1.4.1.1.66.4'; ds.SOPInstanceUID = '1.2.3'
    ds.NumberOfFrames = len(frames); pf = []
    for segment, src_frame in frames:
        it = Dataset(); si = Dataset(); si.ReferencedSegmentNumber = segment
        it.SegmentIdentificationSequence = Sequence([si])
        s = Dataset(); s.ReferencedSOPClassUID = '1.2.840.10008.5.1.4.1.1.2.1'; s.ReferencedSOPInstanceUID = '1.2.4'
        if src_frame is not None: s.ReferencedFrameNumber = src_frame
        d = Dataset(); d.SourceImageSequence = Sequence([s]); it.DerivationImageSequence = Sequence([d]); pf.append(it)
    ds.PerFrameFunctionalGroupsSequence = Sequence(pf)
    return ds
def frames_of(r):
    out=[]
    for x in list(r)[1:]:
        s_=x.ReferencedSOPSequence[0]; out.append(s_.get('ReferencedFrameNumber'))
    return out
r = hd.sr.ReferencedSegment.from_segmentation(seg([(1,17),(2,23),(1,5)]), segment_number=1)
print('by segment 1 (derived from 17 and 5):', frames_of(r))
r = hd.sr.ReferencedSegment.from_segmentation(seg([(1,None),(1,5)]), segment_number=1)
print('whole image + frame 5:', frames_of(r))
r = hd.sr.ReferencedSegmentationFrame.from_segmentation(seg([(1,None),(1,5)]), frame_number=[1,2])
print('frame builder whole image + frame 5:', frames_of(r))
