"""from_segmentation builders: source frames of ALL named frames (union per instance; a source item without frame numbers = whole instance).
    /venv/bin/python fixes/C15-segment-source-frames-first-only/repro.py"""
import sys
sys.path.insert(0,'/verif/harness')
import hd_env; hd_env.setup()
import highdicom as hd
from pydicom.dataset import Dataset
from pydicom.sequence import Sequence
def seg(frames):
    ds = Dataset(); ds.SOPClassUID = '1.2.840.10008.5.1.4.1.1.66.4'; ds.SOPInstanceUID = '1.2.3'
    ds.NumberOfFrames = len(frames); pf = []
    for segment, src_frame in frames:
        it = Dataset(); si = Dataset(); si.ReferencedSegmentNumber = segment
        it.SegmentIdentificationSequence = Sequence([si])
        s = Dataset(); s.ReferencedSOPClassUID = '1.2.840.10008.5.1.4.1.1.2.1'; s.ReferencedSOPInstanceUID = '1.2.4'
        if src_frame is not None: s.ReferencedFrameNumber = src_frame
        d = Dataset(); d.SourceImageSequence = Sequence([s]); it.DerivationImageSequence = Sequence([d]); pf.append(it)
    ds.PerFrameFunctionalGroupsSequence = Sequence(pf)
    return ds
def frames_of(r):
    out=[]
    for x in list(r)[1:]:
        s_=x.ReferencedSOPSequence[0]; out.append(s_.get('ReferencedFrameNumber'))
    return out
r = hd.sr.ReferencedSegment.from_segmentation(seg([(1,17),(2,23),(1,5)]), segment_number=1)
print('by segment 1 (derived from 17 and 5):', frames_of(r))
r = hd.sr.ReferencedSegment.from_segmentation(seg([(1,None),(1,5)]), segment_number=1)
print('whole image + frame 5:', frames_of(r))
r = hd.sr.ReferencedSegmentationFrame.from_segmentation(seg([(1,None),(1,5)]), frame_number=[1,2])
print('frame builder whole image + frame 5:', frames_of(r))
# follow-up (second review): the union of the source frame numbers must stay linear in the number of frames - a segment with
# n frames, each derived from its own source frame (the normal tiled case), by segment and by an explicit frame list;
# the order-preserving union is unchanged (first mention first)
import time
n = 10000
d = seg([(1, n - i) for i in range(n)]); d.TotalPixelMatrixRows = 64
t = time.time(); r = hd.sr.ReferencedSegment.from_segmentation(d, segment_number=1); t1 = time.time() - t
ok1 = [int(x) for x in frames_of(r)[0]] == [n - i for i in range(n)]
t = time.time(); r = hd.sr.ReferencedSegmentationFrame.from_segmentation(d, frame_number=list(range(1, n + 1))); t2 = time.time() - t
ok2 = [int(x) for x in frames_of(r)[0]] == [n - i for i in range(n)]
print(f'n = {n}: ReferencedSegment {t1:.2f} s, ReferencedSegmentationFrame {t2:.2f} s (want < 2 s each); order kept: {ok1 and ok2}')
import sys
sys.exit(0 if t1 < 2 and t2 < 2 and ok1 and ok2 else 1)
