"""C19: a parametric map whose mapping is a one-entry look-up table cannot be read with the real-world value
transform (image.py wraps the bare number pydicom returns into a 0-d array).  exit 1 = defect present"""
import sys; sys.path.insert(0, '/verif/fixes')
from _c19_common import *
m = RealWorldValueMapping('a', 'ea', codes.UCUM.NoUnits, (7, 7), lut_data=[2.5])
pm = pmap(np.full((2, 3, 4), 7, dtype=np.uint8), [m], ct_series(2, 3, 4))
im = hd.imread(io.BytesIO(written(pm)))
try:
    out = im.get_frame(2, apply_real_world_transform=True)
except Exception as e:  # noqa: BLE001
    print('get_frame raised:', type(e).__name__, e); sys.exit(1)
print(out.tolist()); sys.exit(0 if np.array_equal(out, np.full((3, 4), 2.5)) else 1)
