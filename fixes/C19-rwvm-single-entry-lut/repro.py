"""C19: RealWorldValueMapping with a one-entry look-up table ((7, 7) -> [2.5]) is accepted; apply() raised
TypeError: len() of unsized object.  exit 1 = defect present"""
import sys; sys.path.insert(0, '/verif/fixes')
from _c19_common import *
m = RealWorldValueMapping('a', 'ea', codes.UCUM.NoUnits, (7, 7), lut_data=[2.5])
try:
    out = m.apply(np.full((2, 3), 7, dtype=np.uint8))
except Exception as e:  # noqa: BLE001
    print('apply raised:', type(e).__name__, e); sys.exit(1)
print(out.tolist()); sys.exit(0 if np.array_equal(out, np.full((2, 3), 2.5)) else 1)
