"""Volume.copy() on a volume with channel dimensions: the channel specification is not passed on."""
import sys; sys.path.insert(0, '/verif/harness')
import hd_env; hd_env.setup()
import numpy as np
from highdicom.volume import Volume
v = Volume(np.arange(48).reshape(2, 3, 4, 2), np.eye(4), 'PATIENT', channels={'OpticalPathIdentifier': ['a', 'b']})
try:
    c = v.copy()
    ok = c.channel_descriptors == v.channel_descriptors and c.get_channel_values('OpticalPathIdentifier') == ['a', 'b'] \
        and np.array_equal(c.array, v.array) and c.array is not v.array
    print('copy ok, channels carried along:', ok)
    sys.exit(0 if ok else 1)
except Exception as e:
    print('DEFECT: copy() raised', type(e).__name__, e)
    sys.exit(1)
