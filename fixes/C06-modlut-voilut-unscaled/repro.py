"""C06 defect: with a Modality LUT *and* a VOI LUT, `_CombinedPixelTransform` composes the raw tables
(`voi_lut.apply(modality_lut.lut_data)`): the result is neither scaled into `voi_output_range` nor inverted
for an INVERSE presentation shape / MONOCHROME1 - unlike every other VOI path (window, rescale + VOI LUT).
Input: modality LUT first 0 data [3, 2, 1, 0], VOI LUT first 0 data [10, 20, 40, 74], stored 0..3,
voi_output_range (0, 1): expected (74, 40, 20, 10 - 10) / 64 = 1, 0.46875, 0.15625, 0; the library returned
74, 40, 20, 10.  With PresentationLUTShape INVERSE the expected values are 1 - those.
Run: /venv/bin/python fixes/C06-modlut-voilut-unscaled/repro.py   (exit 1 while the defect is present)
"""
import sys
sys.path.insert(0, '/verif/fixes')
import numpy as np
from _c06_common import image, report

bad = 0
for shape in (None, 'INVERSE'):
    T = {'mod_lut': {'first': 0, 'bits': 8, 'data': [3, 2, 1, 0]},
         'voi_luts': [{'first': 0, 'bits': 8, 'data': [10, 20, 40, 74]}]}
    if shape:
        T['pres_shape'] = shape
    P = {'bits': 8, 'photometric': 'MONOCHROME2', 'frames': [[[0, 1], [2, 3]]], 'T': T}
    got = image(P).get_frame(1, apply_voi_transform=True)
    want = (np.array([[74, 40], [20, 10]], dtype=float) - 10) / 64
    if shape:
        want = 1 - want
    report(got, want)
    bad |= not np.array_equal(got, want)
sys.exit(bad)
