"""An EMPTY list of time points / frame numbers / segment numbers / waveform channels was accepted by the constructors
(the guard is `is not None`) and stored as an empty data element (VM 1-n forbids that): a TCOORD "without time points"
was built, reported [] in memory and [None] after a file round trip; ImageContentItem.referenced_frame_numbers /
referenced_segment_numbers and WaveformContentItem.referenced_waveform_channels then raised TypeError.
Exit 1 while the defect is present."""
import os
import sys
sys.path.insert(0, os.path.join(os.path.dirname(os.path.abspath(__file__)), ".."))
from _c13_common import *  # noqa: E402,F401,F403
bad = 0


def probe(label, build, read):
    global bad
    try:
        it = build()
    except ValueError as e:
        print(label, 'refused:', e)
        return
    bad += 1
    try:
        print(label, 'ACCEPTED; reports', read(it), end='; ')
    except Exception as e:  # noqa: BLE001
        print(label, 'ACCEPTED; accessor raises', type(e).__name__, end='; ')
    try:
        print('after a file round trip', read(type(it).from_dataset(through_bytes(it))))
    except Exception as e:  # noqa: BLE001
        print('after a file round trip the accessor raises', type(e).__name__)


for arg in ('referenced_sample_positions', 'referenced_time_offsets', 'referenced_date_time'):
    probe('TCOORD ' + arg + '=[]', lambda: TcoordContentItem(NAME, 'POINT', relationship_type='CONTAINS', **{arg: []}),
          lambda it: it.value)
for arg in ('referenced_frame_numbers', 'referenced_segment_numbers'):
    probe('IMAGE ' + arg + '=[]', lambda: ImageContentItem(NAME, '1.2.840.10008.5.1.4.1.1.2', '1.2.3', relationship_type='CONTAINS',
                                                          **{arg: []}), lambda it: getattr(it, arg))
probe('WAVEFORM referenced_waveform_channels=[]',
      lambda: WaveformContentItem(NAME, '1.2.840.10008.5.1.4.1.1.9.1.1', '1.2.3', referenced_waveform_channels=[],
                                  relationship_type='CONTAINS'), lambda it: it.referenced_waveform_channels)
sys.exit(1 if bad else 0)
