"""pad_width given as numpy integers in the scalar and the [before, after] form: the scalar is refused with TypeError and
the pair form crashes with UnboundLocalError (full_pad_width is never bound because the element is neither `int` nor a
Sequence), although the nested forms accept numpy integers."""
import sys; sys.path.insert(0, '/verif/harness')
import hd_env; hd_env.setup()
import warnings; warnings.simplefilter('ignore')
import numpy as np
from highdicom.volume import Volume
v = Volume(np.arange(24).reshape(2, 3, 4), np.eye(4), 'PATIENT')
bad = False
for obj in (v, v.get_geometry()):
    for w, plain in ((np.int64(1), 1), (np.uint8(2), 2), ([np.int64(1), np.int64(2)], [1, 2]), ((np.uint8(1), np.uint8(0)), (1, 0))):
        ref = obj.pad(plain)
        try:
            got = obj.pad(w)
            ok = tuple(got.spatial_shape) == tuple(ref.spatial_shape) and tuple(got.position) == tuple(ref.position)
            print(type(obj).__name__, repr(w), '->', got.spatial_shape, got.position, 'OK' if ok else 'DEFECT')
            bad |= not ok
        except Exception as e:
            print(type(obj).__name__, repr(w), 'raised', type(e).__name__, 'DEFECT'); bad = True
    try:
        obj.pad([1.5, 2.0]); print('float pair accepted DEFECT'); bad = True
    except TypeError:
        print(type(obj).__name__, 'float pair refused with TypeError')
sys.exit(1 if bad else 0)
