"""C19: SCImage for the SLIDE coordinate system with an issuer of the container identifier raises AttributeError
(appends to a misspelt attribute IssuerOftheContainerIdentifierSequence).  exit 1 = defect present"""
import sys; sys.path.insert(0, '/verif/fixes')
from _c19_common import *
from highdicom import IssuerOfIdentifier, SpecimenDescription
arr = np.arange(15, dtype=np.uint8).reshape(3, 5)
try:
    im = sc(arr, 'MONOCHROME2', 8, cs='SLIDE', container_identifier='c1', issuer_of_container_identifier=IssuerOfIdentifier('iss'),
            specimen_descriptions=[SpecimenDescription('s1', hd.UID())])
    n = len(im.IssuerOfTheContainerIdentifierSequence)
    print('constructed, issuer items:', n)
    sys.exit(0 if n == 1 and np.array_equal(pydicom.dcmread(io.BytesIO(written(im))).pixel_array, arr) else 1)
except AttributeError as e:
    print('AttributeError:', e); sys.exit(1)
