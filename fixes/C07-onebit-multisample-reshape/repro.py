"""C07: a native 1-bit frame with 3 samples per pixel is encoded, but decode_frame reshapes to (rows, columns)
and fails (pydicom decodes the same bytes as a one-frame image without problems).  exit 1 = defect present"""
import sys, warnings
sys.path.insert(0, '/verif/harness')
import hd_env; hd_env.setup()
import numpy as np
from highdicom.frame import encode_frame, decode_frame
from pydicom.uid import ExplicitVRLittleEndian as TS
warnings.simplefilter('ignore')
a = (np.arange(4 * 6 * 3).reshape(4, 6, 3) % 5 < 2)
b = encode_frame(a, TS, 1, 1, 'RGB', 0, 0)
try:
    d = decode_frame(b, TS, 4, 6, 3, 1, 1, 'RGB', 0, 0)
    ok = d.shape == a.shape and np.array_equal(d.astype(bool), a)
    print('decoded', d.shape, 'equal' if ok else 'DIFFERENT')
    sys.exit(0 if ok else 1)
except Exception as e:  # noqa: BLE001
    print('decode fails:', e)
    sys.exit(1)
