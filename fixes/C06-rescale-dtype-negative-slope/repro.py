"""C06 defect: `_check_rescale_dtype` computes output_max from input_max and output_min from input_min; for a
negative slope (every inverted presentation: effective slope -m) the two are exchanged and the capacity test
`output_max > type_max or output_min < type_min` passes although the values do not fit - the frame is then
cast with wrap-around.
Input: unsigned 16-bit MONOCHROME1 image, stored 0 and 114, get_frame(dtype=int16): inverted values 65535 and
65421 do not fit int16; expected a refusal (as for the same range with a positive slope), got -1 and -115.
Run: /venv/bin/python fixes/C06-rescale-dtype-negative-slope/repro.py   (exit 1 while the defect is present)
"""
import sys
sys.path.insert(0, '/verif/fixes')
import numpy as np
from _c06_common import image, report

P = {'bits': 16, 'photometric': 'MONOCHROME1', 'frames': [[[0, 114]]], 'T': {}}
im = image(P)
print('float64:', im.get_frame(1).tolist())
try:
    got = im.get_frame(1, dtype=np.int16)
    report(got, 'ValueError (int16 cannot hold 65535 - stored)')
    sys.exit(1)
except ValueError as e:
    print('refused:', e)
# still accepted where it fits
print('int32:', im.get_frame(1, dtype=np.int32).tolist())
sys.exit(0)
