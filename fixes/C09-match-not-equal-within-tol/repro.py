"""match_geometry accepted targets that are not equal to anything it can produce within the tolerance it was
given: its own acceptance tests are |u.v -+ 1| < tol (quadratic in the angle) and index-space tolerances
(scaled by the spacing), so a target rotated by 0.003 rad, or shifted by 2.4e-5 mm at spacing 3, was 'matched'
by a volume with geometry_equal(result, target) == False.  Exit 1 = defect present."""
import sys, os
sys.path.insert(0, os.path.join(os.path.dirname(os.path.abspath(__file__)), "..", "..", "harness"))
import hd_env; hd_env.setup()
import numpy as np
from highdicom.volume import Volume, VolumeGeometry, VolumeToVolumeTransformer
arr = np.arange(1, 4 * 5 * 6 + 1).reshape(4, 5, 6).astype(np.int32)
def vol(uid="1.2.3", spacing=(1.0, 1.0, 1.0), position=(0.0, 0.0, 0.0), direction=np.eye(3)):
    return Volume.from_components(arr, spacing=list(spacing), position=list(position), direction=direction,
                                  coordinate_system="PATIENT", frame_of_reference_uid=uid)

th = 0.003
R = np.array([[np.cos(th), -np.sin(th), 0], [np.sin(th), np.cos(th), 0], [0, 0, 1]])
bad = []
for name, s, t in (("rotated 0.003 rad", vol(), vol(direction=R)),
                   ("shift 2.4e-5 at spacing 3", vol(spacing=(3.0, 3.0, 3.0)), vol(spacing=(3.0, 3.0, 3.0), position=(2.4e-5, 0.0, 0.0)))):
    try:
        r = s.match_geometry(t)
        eq = r.geometry_equal(t)
        print(name, "returned a volume; geometry_equal(result, target) =", eq); bad.append(not eq)
    except RuntimeError as e:
        print(name, "refused:", e)
sys.exit(1 if any(bad) else 0)
