"""C05-lazy-pathlike: `imread(fp, lazy_frame_retrieval=True)` / `Image.from_file` document `fp: str | bytes | os.PathLike |
BinaryIO` and hand every os.PathLike on to ImageFileReader, whose constructor accepted only `str` and `pathlib.Path`: a path
given as `pathlib.PurePosixPath` or as any other object with `__fspath__` opened eagerly but was refused lazily (TypeError)."""
import io
import os
import pathlib
import sys
import tempfile

sys.path.insert(0, os.path.join(os.path.dirname(os.path.abspath(__file__)), '..', '..', 'harness'))
import hd_env
hd_env.setup()
import numpy as np
import highdicom as hd
from gen.images import multiframe_image, to_bytes

ds = multiframe_image(np.arange(2 * 3 * 4).reshape(2, 3, 4) % 200, 8)
fd, p = tempfile.mkstemp(suffix='.dcm')
os.write(fd, to_bytes(ds))
os.close(fd)


class Custom:
    def __init__(self, p):
        self.p = p

    def __fspath__(self):
        return self.p


bad = []
for name, arg in (('PurePosixPath', pathlib.PurePosixPath(p)), ('custom os.PathLike', Custom(p)), ('Path', pathlib.Path(p))):
    want = hd.imread(arg).get_stored_frame(2)
    try:
        got = hd.imread(arg, lazy_frame_retrieval=True).get_stored_frame(2)
        ok = np.array_equal(got, want)
        print(name, 'lazy:', 'same frame' if ok else 'OTHER PIXELS')
    except Exception as e:  # noqa: BLE001
        ok = False
        print(name, 'lazy:', type(e).__name__, str(e)[:90])
    if not ok:
        bad.append(name)
    with hd.io.ImageFileReader(arg) as rd:
        assert np.array_equal(rd.read_frame(1), want)
os.unlink(p)
sys.exit(1 if bad else 0)
