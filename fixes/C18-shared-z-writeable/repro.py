"""C18-shared-z-writeable: a parsed 3-D group with a common z handed out WRITEABLE arrays that are its cache.

Before the fix: gd = group.get_graphic_data('3D'); gd[0][0, 0] = -777  ->  every later get_graphic_data / get_coordinates of the
object returns -777 (2-D groups and 3-D groups with varying z hand out read-only views of the stored bytes).
After the fix: the assignment raises ValueError (read-only), the object keeps reporting what is stored.

Run: HD_REPO=<repo> /venv/bin/python fixes/C18-shared-z-writeable/repro.py   (exit 1 = defect present)
"""
import io
import os
import sys

sys.path.insert(0, os.path.join(os.path.dirname(os.path.abspath(__file__)), '..', '..', 'harness'))
import hd_env  # noqa: E402

hd_env.setup()
import numpy as np  # noqa: E402
sys.path.insert(0, os.path.join(os.path.dirname(os.path.abspath(__file__)), '..', '..', 'harness', 'corr'))
import C18  # noqa: E402
from highdicom.ann import annread  # noqa: E402

spec = {'number': 1, 'uid': '1.2.826.0.1.3680043.10.511.4.1', 'label': 'w', 'gtype': 'POINT', 'meas': [], 'alg': None,
        'category': 0, 'ptype': 2, 'algorithm_type': 'MANUAL', 'description': None, 'dtype': 'f4', 'dim': 3, 'zclass': 'const',
        'counts': [1, 1], 'coords': [np.array([[1., 2., 9.]], np.float32), np.array([[3., 4., 9.]], np.float32)]}
buf = io.BytesIO()
C18._build_sop([C18._build_group(spec)], '3D').save_as(buf)
g = annread(io.BytesIO(buf.getvalue())).get_annotation_group(number=1)
gd = g.get_graphic_data('3D')
try:
    gd[0][0, 0] = -777
except ValueError as e:
    print('in-place edit refused:', e)
again = g.get_coordinates(1, '3D').tolist()
print('annotation 1 read again:', again)
sys.exit(0 if again == [[1.0, 2.0, 9.0]] else 1)
