import sys; sys.path.insert(0,'/verif/harness')
import hd_env; hd_env.setup()
import numpy as np, highdicom as hd
from gen.sources import ct_series
from pydicom.sr.coding import Code
src = ct_series(2, 3, 3)
descs=[hd.seg.SegmentDescription(segment_number=n, segment_label='s%d'%n, segmented_property_category=Code('T-1','99V','a'), segmented_property_type=Code('T-2','99V','b'), algorithm_type='MANUAL') for n in (1,2)]
arr=np.zeros((2,3,3,2),np.uint8); arr[0,1,1,:]=1; arr[1,0,0,0]=1
seg=hd.seg.Segmentation(source_images=src,pixel_array=arr,segmentation_type='BINARY',segment_descriptions=descs,series_instance_uid=hd.UID(),series_number=2,sop_instance_uid=hd.UID(),instance_number=1,manufacturer='v',manufacturer_model_name='v',software_versions='1',device_serial_number='1')
uids=[s.SOPInstanceUID for s in src]
kept=[]
try:
    seg.get_pixels_by_source_instance(uids, combine_segments=True)
except Exception as e:
    kept.append(e); print('first:', type(e).__name__)
try:
    a=seg.get_pixels_by_source_instance(uids, combine_segments=False); print('second ok', a.shape); rc=0
except Exception as e:
    print('second:', type(e).__name__, e); rc=1
sys.exit(rc)
