"""ContentSequence.__setitem__ did not apply the relationship type rule: an item without relationship type
enters a non-root SR sequence by assignment.  Exit 1 while the defect is present."""
import os
import sys
sys.path.insert(0, os.path.join(os.path.dirname(os.path.abspath(__file__)), ".."))
from _c14_common import *  # noqa: E402,F401,F403

s = ContentSequence([text(0, 1), text(1, 2)])
r = attempt(lambda: s.__setitem__(slice(0, 1), [text(2, 3, None)]))
print('assignment of an item without relationship type:', r, values(s))
root = ContentSequence([container(0)], is_root=True)
r2 = attempt(lambda: root.__setitem__(slice(0, 1), [container(1, 'CONTAINS')]))
print('assignment of an item with relationship type to a root sequence:', r2)
sys.exit(0 if r[0] == 'raised' and r2[0] == 'raised' else 1)
