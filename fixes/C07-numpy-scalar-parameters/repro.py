"""C07: bits_allocated / bits_stored (rows, columns, ...) given as numpy integer scalars: np.int8(12) made the bits_stored range check
overflow (valid 16/12 frame refused), np.int16/32/64(12) made pydicom's unused-bit correction fail in decode_frame.
exit 1 = defect present"""
import sys, warnings
sys.path.insert(0, '/verif/harness')
import hd_env; hd_env.setup()
import numpy as np
from highdicom.frame import encode_frame, decode_frame
from pydicom.uid import ExplicitVRLittleEndian as TS
warnings.simplefilter('ignore')
a = (np.arange(24).reshape(4, 6) * 100).astype(np.uint16)
bad = 0
for st in (np.int8, np.uint8, np.int16, np.int32, np.int64, np.uint64):
    try:
        b = encode_frame(a, TS, st(16), st(12), 'MONOCHROME2', 0)
        d = decode_frame(b, TS, st(4), st(6), st(1), st(16), st(12), 'MONOCHROME2', 0)
        ok = np.array_equal(d, a)
        print(st.__name__, 'round trip', 'OK' if ok else 'DIFFERENT'); bad += not ok
    except Exception as e:  # noqa: BLE001
        print(st.__name__, type(e).__name__, str(e)[:90]); bad += 1
sys.exit(1 if bad else 0)
