"""get_series_volume_positions took the spacing hint from datasets[0].SpacingBetweenSlices - the first dataset IN THE GIVEN
ORDER.  When the datasets do not all carry the same value, the answer (and get_volume_from_series) depended on the order:
three CT slices 1 mm apart, SpacingBetweenSlices = 5.0 on ONE of them: order [0, 1, 2] -> a volume, order [1, 0, 2] ->
RuntimeError (hint mismatch).  Expected after the fix: the hint is the value the datasets agree on (exactly one distinct value
among those that carry the attribute), whatever the order; conflicting values give no hint."""
import sys, itertools
sys.path.insert(0, '/verif/harness')
import hd_env; hd_env.setup()
from gen import sources
from highdicom.spatial import get_series_volume_positions

def outcome(dss):
    try:
        return get_series_volume_positions(dss)
    except Exception as e:
        return type(e).__name__

base = sources.ct_series(3, 2, 2, slice_spacing=1.0)
base[1].SpacingBetweenSlices = 5.0
res = {p: outcome([base[k] for k in p]) for p in itertools.permutations(range(3))}
print(res)
assert len({repr(v) if isinstance(v, str) else 'vol' for v in res.values()}) == 1, 'order dependent'
base[0].SpacingBetweenSlices = 1.0       # conflicting values: no hint
res2 = {p: outcome([base[k] for k in p]) for p in itertools.permutations(range(3))}
assert all(not isinstance(v, str) and v[0] == 1.0 for v in res2.values()), res2
for d in base:
    d.SpacingBetweenSlices = 1.0          # agreed value: used
assert outcome(base)[0] == 1.0
for d in base:
    d.SpacingBetweenSlices = 2.0          # agreed but wrong: reported
assert outcome(base) == 'RuntimeError'
print('ok')
