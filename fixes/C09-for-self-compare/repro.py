"""geometry_equal / match_geometry compared self.frame_of_reference_uid with itself: two volumes in
different frames of reference compared equal and were matched.  Exit 1 = defect present."""
import sys, os
sys.path.insert(0, os.path.join(os.path.dirname(os.path.abspath(__file__)), "..", "..", "harness"))
import hd_env; hd_env.setup()
import numpy as np
from highdicom.volume import Volume, VolumeGeometry, VolumeToVolumeTransformer
arr = np.arange(1, 4 * 5 * 6 + 1).reshape(4, 5, 6).astype(np.int32)
def vol(uid="1.2.3", spacing=(1.0, 1.0, 1.0), position=(0.0, 0.0, 0.0), direction=np.eye(3)):
    return Volume.from_components(arr, spacing=list(spacing), position=list(position), direction=direction,
                                  coordinate_system="PATIENT", frame_of_reference_uid=uid)

a, b = vol("1.2.3"), vol("9.9.9")
bad = a.geometry_equal(b)
try:
    a.match_geometry(b); bad2 = True
except RuntimeError:
    bad2 = False
print("geometry_equal across frames of reference:", bad, " match_geometry accepted:", bad2)
sys.exit(1 if (bad or bad2) else 0)
