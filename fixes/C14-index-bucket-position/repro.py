"""ContentSequence.index returned the position among the items of the same name, not the position in the
sequence.  Exit 1 while the defect is present."""
import os
import sys
sys.path.insert(0, os.path.join(os.path.dirname(os.path.abspath(__file__)), ".."))
from _c14_common import *  # noqa: E402,F401,F403

a, b, c = text(0, 1), text(1, 3), text(0, 2)
s = ContentSequence([a, b, c])
print('index(c) =', s.index(c), ' list(s).index(c) =', list(s).index(c))
sys.exit(0 if s.index(c) == 2 and s.index(b) == 1 else 1)
