"""C06 defect: a VOI LUT behind a negative integer rescale slope is folded to `table[::m]` (reversed) but the
first mapped stored value is still derived from the table's first entry, so every pixel is looked up n - 1
positions off (and m = -1 does not even reverse: `if slope != 1` -> table[::-1] with first (first - b) / -1).
Input: slope -1, intercept 10, table first 2, data [0, 16, 32, 64], stored 4..9: modality 6, 5, 4, 3, 2, 1 ->
entries 3, 3, 2, 1, 0, 0.
Run: /venv/bin/python fixes/C06-voilut-negative-slope/repro.py   (exit 1 while the defect is present)
"""
import sys
sys.path.insert(0, '/verif/fixes')
import numpy as np
from _c06_common import image, report, voilut_ref

data = [0, 16, 32, 64]
stored = [[4, 5, 6], [7, 8, 9]]
bad = 0
for slope, icpt, first in ((-1, 10, 2), (-2, 20, 3)):
    P = {'bits': 8, 'photometric': 'MONOCHROME2', 'frames': [stored],
         'T': {'rescale': [{'place': 'image', 'vals': [[str(slope), str(icpt)]]}],
               'voi_luts': [{'first': first, 'bits': 8, 'data': data}]}}
    want = voilut_ref(stored, slope, icpt, first, data)
    try:
        got = image(P).get_frame(1, apply_voi_transform=True)
    except ValueError as e:        # a refusal is no wrong value
        print('slope', slope, 'refused:', e)
        continue
    report(got, want)
    bad |= not np.array_equal(got, want)
sys.exit(bad)
