"""C18: a measurement vector of the wrong length was accepted whenever it contained a NaN.

With a NaN present only the indices of the non-NaN entries are stored, so the length of the vector the user
passed was forgotten: values=[1.5, nan, nan, nan, nan] (5 values) or [2.5, nan] (2 values) were accepted for
a group of 3 annotations.  Exit status 1 = defect present."""
import sys
sys.path.insert(0, '/verif/fixes')
from _c18_common import *
bad = 0
for vals in ([1.5, np.nan, np.nan, np.nan, np.nan], [2.5, np.nan]):
    try:
        g = group(3, [measurements(vals)])
        print(len(vals), 'values accepted for 3 annotations ->', g.get_measurements()[1].ravel().tolist())
        bad += 1
    except ValueError as e:
        print(len(vals), 'values rejected:', e)
g = group(3, [measurements([1.0, np.nan, 3.0])])      # the matching length must of course still work
assert np.array_equal(g.get_measurements()[1].ravel(), np.array([1, np.nan, 3], np.float32), equal_nan=True)
sys.exit(1 if bad else 0)
