"""A volumetric ROI made of a POLYLINE region followed by a CIRCLE region is found by graphic_type=POLYLINE but not by
graphic_type=CIRCLE: the filter looked at the first region only, so the answer depended on the order of the regions."""
import sys
sys.path.insert(0, '/verif/harness')
import hd_env
hd_env.setup()
import numpy as np
import highdicom as hd
from highdicom.sr import (ImageRegion, SourceImageForRegion, VolumetricROIMeasurementsAndQualitativeEvaluations as Vol,
                          TrackingIdentifier, GraphicTypeValues, MeasurementReport, ObservationContext)
from pydicom.sr.codedict import codes


def region(gt, data, n):
    src = SourceImageForRegion('1.2.840.10008.5.1.4.1.1.2', f'1.2.3.{n}')
    return ImageRegion(graphic_type=gt, graphic_data=np.array(data, dtype=float), source_image=src)


poly = region(GraphicTypeValues.POLYLINE, [[1, 1], [5, 1], [5, 5], [1, 1]], 1)
circ = region(GraphicTypeValues.CIRCLE, [[3, 3], [3, 5]], 2)
out = {}
for label, regs in (('polygon-first', [poly, circ]), ('circle-first', [circ, poly])):
    g = Vol(tracking_identifier=TrackingIdentifier(uid=hd.UID(), identifier='x'), referenced_regions=regs)
    rep = MeasurementReport(observation_context=ObservationContext(), procedure_reported=codes.LN.CTUnspecifiedBodyRegion,
                            imaging_measurements=[g])
    out[label] = [len(rep.get_volumetric_roi_measurement_groups(graphic_type=t))
                  for t in (GraphicTypeValues.POLYLINE, GraphicTypeValues.CIRCLE)]
print(out)
bad = [k for k, v in out.items() if v != [1, 1]]
if bad:
    print('DEFECT: the graphic-type filter depends on the order of the regions:', bad)
    sys.exit(1)
print('ok')
