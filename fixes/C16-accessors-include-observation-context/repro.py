"""get_measurements() reported the NUM "Time Point Order" item and get_qualitative_evaluations() the CODE "Time Point Type" item of a
TimePointContext (relationship HAS OBS CONTEXT) as a measurement / evaluation of the group.
    /venv/bin/python fixes/C16-accessors-include-observation-context/repro.py"""
import sys
sys.path.insert(0,'/verif/harness')
import hd_env; hd_env.setup()
import highdicom as hd
from highdicom import sr
from gen import srreports
cc = srreports.cc
tp = sr.TimePointContext(time_point='baseline', time_point_type=cc(('TP1','99V')), time_point_order=2, subject_time_point_identifier='s1')
alg = sr.AlgorithmIdentification(name='alg', version='1.0', parameters=['a=1'])
g = sr.MeasurementsAndQualitativeEvaluations(
    tracking_identifier=sr.TrackingIdentifier(uid='1.2.3', identifier='x'), session='sess', time_point_context=tp, algorithm_id=alg,
    referenced_real_world_value_map=sr.RealWorldValueMap('1.2.9'),
    measurements=[sr.Measurement(name=cc(('M1','99V')), value=1.5, unit=cc(('mm','UCUM')))],
    qualitative_evaluations=[sr.QualitativeEvaluation(name=cc(('Q1','99V')), value=cc(('A1','99V')))])
print('measurements:', [(m.name.value, m.value) for m in g.get_measurements()])
print('evaluations:', [(e.name.value, e.value.value) for e in g.get_qualitative_evaluations()])
print([ (str(i.ValueType), i.name.value, str(i.RelationshipType)) for i in g[0].ContentSequence])
