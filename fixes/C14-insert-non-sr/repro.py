"""ContentSequence.insert demanded a relationship type also in non-SR sequences, whose constructor forbids one
(append accepts the item).  Exit 1 while the defect is present."""
import os
import sys
sys.path.insert(0, os.path.join(os.path.dirname(os.path.abspath(__file__)), ".."))
from _c14_common import *  # noqa: E402,F401,F403

s = ContentSequence(is_sr=False)
r = attempt(lambda: s.insert(0, text(0, 1, None)))
print('insert of an item without relationship type into a non-SR sequence:', r)
sys.exit(0 if r[0] == 'ok' else 1)
