"""C06 defect: `_CombinedPixelTransform` folds a LINEAR VOI window through a rescale with slope != 1 as
(center - intercept) / slope, width / slope.  PS3.3 C.11.2.1.2.1 defines LINEAR with the terms (c - 0.5) and
(w - 1), which do not scale that way: the folded window must be ((c - 0.5 - b) / m + 0.5, (w - 1) / m + 1).
Input: stored 30, RescaleSlope 2, RescaleIntercept -5 (modality value 35), WindowCenter 40, WindowWidth 17:
standard ((35 - 39.5) / 16 + 0.5) = 0.21875; the library returned 0.2333.
Run: /venv/bin/python fixes/C06-linear-window-fold/repro.py   (exit 1 while the defect is present)
"""
import sys
sys.path.insert(0, '/verif/harness')
import hd_env; hd_env.setup()
import numpy as np
import highdicom as hd
from gen.pixeltransforms import make_image

P = {'bits': 16, 'photometric': 'MONOCHROME2', 'frames': [[[0, 10, 20], [30, 40, 50]]],
     'T': {'rescale': [{'place': 'image', 'vals': [['2', '-5']]}],
           'window': [{'place': 'image', 'vals': [{'c': ['40'], 'w': ['17'], 'fn': 'LINEAR'}]}]}}
im = hd.Image.from_dataset(make_image(P))
got = im.get_frame(1, apply_voi_transform=True)
x = np.array(P['frames'][0], dtype=float) * 2 - 5
want = np.clip((x - 39.5) / 16 + 0.5, 0, 1)
print('got ', got.tolist())
print('want', want.tolist())
sys.exit(0 if np.array_equal(got, want) else 1)
