"""C06 defect: `get_frames(frame_numbers)` always builds its reusable transform for frame 1 (index 0) first.  If
that frame's own parameters cannot be used (here: a non-integer per-frame rescale in front of a VOI LUT) the
whole call is refused although frame 1 was not requested and every requested frame is readable with `get_frame`.
Run: /venv/bin/python fixes/C06-get-frames-first-frame-transform/repro.py   (exit 1 while the defect is present)
"""
import sys
sys.path.insert(0, '/verif/fixes')
import numpy as np
from _c06_common import image, report

P = {'bits': 8, 'photometric': 'MONOCHROME2', 'frames': [[[1, 2]], [[3, 4]], [[5, 6]]],
     'T': {'rescale': [{'place': 'perframe', 'vals': [['3/2', '0'], ['1', '0'], ['2', '0']]}],
           'voi_luts': [{'first': 0, 'bits': 8, 'data': [0, 16, 32, 64, 128, 255]}]}}
im = image(P)
want = np.stack([im.get_frame(3, apply_voi_transform=True), im.get_frame(2, apply_voi_transform=True)])
try:
    got = im.get_frames([3, 2], apply_voi_transform=True)
except Exception as e:  # noqa: BLE001
    report(f'{type(e).__name__}: {e}', want)
    sys.exit(1)
report(got, want)
sys.exit(0 if np.array_equal(got, want) else 1)
