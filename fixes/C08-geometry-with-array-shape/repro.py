"""VolumeGeometry.with_array does not check that the array has the geometry's spatial shape (the docstring
requires it; Volume.with_array checks): the result is a volume of another shape at the geometry's place."""
import sys; sys.path.insert(0, '/verif/harness')
import hd_env; hd_env.setup()
import numpy as np
from highdicom.volume import VolumeGeometry
g = VolumeGeometry(np.eye(4), [2, 3, 4], 'PATIENT')
try:
    w = g.with_array(np.zeros((5, 5, 5)))
    print('DEFECT: accepted array of shape', w.spatial_shape, 'for geometry of shape', g.spatial_shape)
    sys.exit(1)
except ValueError as e:
    print('refused:', e)
    ok = g.with_array(np.zeros((2, 3, 4))).spatial_shape == (2, 3, 4)
    sys.exit(0 if ok else 1)
