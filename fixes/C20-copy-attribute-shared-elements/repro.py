"""SOPClass._copy_attribute added the source image's own DataElement objects to the derived instance; assigning such an
attribute on the result rewrote the source image.  Fixed in /repo 9595338 (a copy of the element is added)."""
import sys
sys.path.insert(0, '/verif/harness')
import hd_env
hd_env.setup()
import logging
import numpy as np
import highdicom as hd
from gen import sources
logging.disable(logging.CRITICAL)
src = sources.ct_series(2, 4, 4)
seg = hd.seg.Segmentation(src, np.ones((2, 4, 4), np.uint8), 'BINARY', [sources.seg_description(1)], hd.UID(), 1, hd.UID(), 1,
                          'm', 'mm', '1', '1')
shared = seg['PatientName'] is src[0]['PatientName']
seg.PatientName = 'Other^Name'
print('element shared with the source:', shared, '; source PatientName after editing the segmentation:', src[0].PatientName)
sys.exit(1 if shared or str(src[0].PatientName) == 'Other^Name' else 0)
