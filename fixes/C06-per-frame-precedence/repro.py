"""C06 defect: `_CombinedPixelTransform` searches image level, then shared, then per-frame functional groups
and stops at the first hit, so shared (or image-level) rescale / window / real-world-map parameters override
the ones given for the individual frame.  The parameters that apply to a frame are the most specific ones.
Input: shared PixelValueTransformation slope 2 intercept -5, per-frame slope 3 intercept 1, frame 2 stored
60..110: expected 3 * stored + 1; the library returned 2 * stored - 5.
Run: /venv/bin/python fixes/C06-per-frame-precedence/repro.py   (exit 1 while the defect is present)
"""
import sys
sys.path.insert(0, '/verif/fixes')
import numpy as np
from _c06_common import image, report

fr = (np.arange(18).reshape(3, 2, 3) * 10).tolist()
P = {'bits': 16, 'photometric': 'MONOCHROME2', 'frames': fr,
     'T': {'rescale': [{'place': 'shared', 'vals': [['2', '-5']]},
                       {'place': 'perframe', 'vals': [['3', '1'], ['3', '1'], ['4', '0']]}]}}
im = image(P)
bad = 0
for f, (m, b) in enumerate([(3, 1), (3, 1), (4, 0)]):
    got = im.get_frame(f + 1)
    want = np.array(fr[f], dtype=float) * m + b
    report(got, want)
    bad |= not np.array_equal(got, want)
got = im.get_frames()
bad |= not np.array_equal(got[2], np.array(fr[2], dtype=float) * 4)
sys.exit(bad)
