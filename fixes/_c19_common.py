import sys, warnings, io
sys.path.insert(0, '/verif/harness')
import hd_env; hd_env.setup()
import numpy as np, pydicom
import highdicom as hd
from highdicom.pm import ParametricMap, RealWorldValueMapping
from highdicom.sc import SCImage
from pydicom.sr.codedict import codes
from pydicom.uid import ExplicitVRLittleEndian
from gen.sources import ct_series
warnings.simplefilter('ignore')


def pmap(arr, maps, src, ts=ExplicitVRLittleEndian, **kw):
    return ParametricMap(src, arr, hd.UID(), 1, hd.UID(), 1, 'm', 'mm', '1', 'sn', False, maps, 0.5, 1.0,
                         transfer_syntax_uid=ts, **kw)


def lin(label, slope, icpt, rng=(0, 65535)):
    return RealWorldValueMapping(label, 'expl ' + label, codes.UCUM.NoUnits, rng, slope=slope, intercept=icpt)


def sc(arr, pi, ba, ts=ExplicitVRLittleEndian, cs='PATIENT', **kw):
    if cs == 'PATIENT':
        kw.setdefault('patient_orientation', ('L', 'P'))
    return SCImage(arr, pi, ba, cs, hd.UID(), hd.UID(), 1, hd.UID(), 1, 'm', transfer_syntax_uid=ts, **kw)


def written(ds):
    bio = io.BytesIO(); ds.save_as(bio)
    return bio.getvalue()
