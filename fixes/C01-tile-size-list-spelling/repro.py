"""Segmentation(tile_pixel_array=True, tile_size=[2, 3]) -- the source image's own tile size given as a LIST: the
constructor compared `tile_size == (src_img.Rows, src_img.Columns)` (list == tuple is False), so spatial locations were
not recorded as preserved, no frame named its source frame and get_pixels_by_source_frame raised RuntimeError, while the
same call with tile_size=(2, 3) (or without tile_size) works.  Exit 1 while the defect is present."""
import os
import sys
sys.path.insert(0, os.path.join(os.path.dirname(os.path.abspath(__file__)), '..', '..', 'harness'))
import hd_env  # noqa: E402
hd_env.setup()
import numpy as np  # noqa: E402
import highdicom as hd  # noqa: E402
from gen.sources import slide_image, seg_description  # noqa: E402

R, C, tr, tc = 4, 6, 2, 3
ds, _ = slide_image(R, C, tr, tc, tiled_full=False)
mask = np.zeros((1, R, C), dtype=np.uint8)
mask[0, 0, 0], mask[0, 0, 4], mask[0, 2, 1], mask[0, 3, 5] = 1, 1, 1, 1
bad = 0
for spelling in ((tr, tc), [tr, tc]):
    seg = hd.seg.Segmentation([ds], mask, 'BINARY', [seg_description(1)], tile_pixel_array=True, tile_size=spelling,
                              omit_empty_frames=False, series_instance_uid=hd.UID(), series_number=2, sop_instance_uid=hd.UID(),
                              instance_number=1, manufacturer='v', manufacturer_model_name='m', software_versions='1',
                              device_serial_number='1')
    try:
        got = seg.get_pixels_by_source_frame(ds.SOPInstanceUID, [1, 2, 3, 4])
        ok = got.shape == (4, tr, tc, 1) and np.array_equal(got[1, :, :, 0], mask[0, 0:2, 3:6])
        print(f'tile_size={spelling!r}: read by source frame', 'matches' if ok else 'DIFFERS')
        bad += not ok
    except Exception as e:  # noqa: BLE001
        print(f'tile_size={spelling!r}: {type(e).__name__}: {str(e)[:110]}')
        bad += 1
sys.exit(1 if bad else 0)
