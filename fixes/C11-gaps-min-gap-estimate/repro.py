"""C11 defect C11-gaps-min-gap-estimate (fixed in /repo 8504cfa): get_volume_positions(allow_missing_positions=True) without a
spacing hint took the smallest gap between two consecutive planes at face value as THE spacing.  That gap carries the rounding of
two positions and was multiplied by the plane number when every plane was compared with its whole multiple, so stacks that are
regular within tolerance were refused:
  1. planes at 0, 0.9975, 100 along the normal (spacing 1, every plane within a quarter of the 1 % tolerance of its multiple);
  2. the reviewer's stacks (fixes/REVIEW.md, 95f2029), every tenth plane removed: 800 planes 0.625 mm apart stored as float32,
     444 planes z = round(-207.3 - 1.0003 k, 2), 332 planes z = round(-50 - 1.2501 k, 3).
Each must be accepted with the plane numbers of the construction; a stack that no spacing fits (0, 1, 2, 3.5) stays refused.
Run: /venv/bin/python fixes/C11-gaps-min-gap-estimate/repro.py   (exit 1 while the defect is present)
"""
import sys
sys.path.insert(0, '/verif/harness')
import hd_env; hd_env.setup()
import numpy as np
from highdicom.spatial import get_volume_positions

ORI = [1.0, 0.0, 0.0, 0.0, 1.0, 0.0]      # volume normal (0, 0, -1): planes are numbered with decreasing z
bad = 0


def run(name, zs, want_numbers, want_spacing):
    global bad
    sp, vp = get_volume_positions([[0.0, 0.0, z] for z in zs], ORI, allow_missing_positions=True)
    ok = sp is not None and list(vp) == list(want_numbers) and abs(sp - want_spacing) <= 1e-3 * want_spacing
    print(f'{name}: spacing {sp}, highest plane number {max(vp) if vp else None} -> {"ok" if ok else "DEFECT (refused or wrong numbers)"}')
    bad |= not ok


sp, vp = get_volume_positions([[0.0, 0.0, 0.0], [0.0, 0.0, -0.9975], [0.0, 0.0, -100.0]], ORI, allow_missing_positions=True)
print('planes 0, 0.9975, 100 ->', sp, vp, '(expected a spacing that fits: 1.0 with [0, 1, 100])')
bad |= sp is None or list(vp) not in ([0, 1, 100], [0, 1, 101])
ks = [k for k in range(800) if k % 10 != 9]
run('800 x 0.625 mm float32', [float(np.float32(-207.3 - 0.625 * k)) for k in ks], ks, 0.625)
ks = [k for k in range(444) if k % 10 != 9]
run('444 x 1.0003 mm, 2 decimals', [round(-207.3 - 1.0003 * k, 2) for k in ks], ks, 1.0003)
ks = [k for k in range(332) if k % 10 != 9]
run('332 x 1.2501 mm, 3 decimals', [round(-50 - 1.2501 * k, 3) for k in ks], ks, 1.2501)
sp, vp = get_volume_positions([[0.0, 0.0, -z] for z in (0.0, 1.0, 2.0, 3.5)], ORI, allow_missing_positions=True)
print('planes 0, 1, 2, 3.5 ->', sp, vp, '(expected refusal)')
bad |= sp is not None
sys.exit(1 if bad else 0)
