"""LABELMAP, combine_segments=True, relabel=False, exactly one stored segment left out of the request:
the unrequested segment appears in the output (need_remap = len(setxor1d(...)) > 1)."""
import sys
sys.path.insert(0, '/verif/fixes')
from _c02_common import *
m = np.zeros((3, 3, 4), np.uint8)
m[0, 0, :3] = [1, 2, 3]
seg = mk(m, 'LABELMAP', [1, 2, 3])
out = seg.get_pixels_by_source_instance(UIDS, segment_numbers=[1, 2], combine_segments=True)[0, 0]
print('requested [1, 2] combined:', out.tolist(), '(expected [1, 2, 0, 0])')
sys.exit(0 if out.tolist() == [1, 2, 0, 0] else 1)
