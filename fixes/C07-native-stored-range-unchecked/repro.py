"""C07: native encode_frame accepts samples that do not fit into bits_stored (the encapsulated encoders refuse them); the
bytes decode, with the same parameters, to different values (pydicom masks / sign-extends to bits_stored).
exit 1 = defect present"""
import sys, warnings
sys.path.insert(0, '/verif/harness')
import hd_env; hd_env.setup()
import numpy as np
from highdicom.frame import encode_frame, decode_frame
from pydicom.uid import ExplicitVRLittleEndian as TS
warnings.simplefilter('ignore')
bad = 0
for a, ba, bs, pr in [(np.array([[1, 4096, 3, 65535]], dtype=np.uint16), 16, 12, 0),
                      (np.array([[1, -2049, 3, 2047]], dtype=np.int16), 16, 12, 1),
                      (np.array([[1, 16, 3, 15]], dtype=np.uint8), 8, 4, 0)]:
    try:
        b = encode_frame(a, TS, ba, bs, 'MONOCHROME2', pr)
    except ValueError as e:
        print('refused:', a.tolist(), f'{ba}/{bs}', '-', e); continue
    d = decode_frame(b, TS, 1, 4, 1, ba, bs, 'MONOCHROME2', pr)
    same = np.array_equal(d.astype(np.int64), a.astype(np.int64))
    print('accepted:', a.tolist(), f'{ba}/{bs}', '->', d.tolist(), 'OK' if same else 'DIFFERENT'); bad += not same
sys.exit(1 if bad else 0)
