"""C06 / C20 defect: `LUT.from_dataset(dataset, copy=True)` makes the deep copy and then re-binds
`dataset_copy = dataset`, so the copy is dropped: the caller's dataset itself is converted (its class changes)
and returned - later edits of the LUT object write through to the source image's sequence item.
Run: /venv/bin/python fixes/C06-lut-from-dataset-copy/repro.py   (exit 1 while the defect is present)
"""
import sys
sys.path.insert(0, '/verif/fixes')
import highdicom as hd
import _c06_common  # noqa: F401
from gen.pixeltransforms import lut_item

src = lut_item(3, 8, [1, 2, 3, 4])
lut = hd.LUT.from_dataset(src, copy=True)
alias = lut is src
cls_changed = type(src).__name__ != 'Dataset'
lut.LUTExplanation = 'edited'
wrote_through = 'LUTExplanation' in src
print('returned object is the argument:', alias, '| argument class now', type(src).__name__, '| edit visible in argument:', wrote_through)
lut2 = hd.LUT.from_dataset(src, copy=False)
print('copy=False returns the argument:', lut2 is src)
sys.exit(1 if (alias or cls_changed or wrote_through) else 0)
