"""C03 defect (b): Segmentation.get_volume, tiled branch, slices the geometry with
`volume_geometry[:, row_start - 1:, column_start - 1:]` although row_start/column_start were already
made zero-based (outputs_as_indices=True).  For the default request (row_start=0) the origin of the returned
volume is the position of the LAST row/column; for any other start it is one row/column too early.
Image.get_volume uses `row_start:` / `column_start:`.
Run: /venv/bin/python fixes/C03-tiled-origin/repro.py  (exit 1 while the defect is present)
"""
import sys
sys.path.insert(0, '/verif/harness')
import hd_env; hd_env.setup()
import numpy as np
import highdicom as hd
from gen.sources import slide_image, seg_description

src, tpm = slide_image(6, 8, 4, 4, origin=(10.0, 20.0, 0.0), pixel_spacing=(0.5, 0.25))
mask = np.zeros((1, 6, 8), np.uint8)
mask[0, 1, 2] = 1
mask[0, 5, 7] = 1
seg = hd.seg.Segmentation([src], mask, 'LABELMAP', [seg_description(1)], series_instance_uid=hd.UID(),
                          series_number=2, sop_instance_uid=hd.UID(), instance_number=1, manufacturer='m',
                          manufacturer_model_name='mm', software_versions='1', device_serial_number='1',
                          tile_pixel_array=True)
geom = seg.get_volume_geometry()
bad = 0
for kw in ({}, {'row_start': 2, 'column_start': 3}, {'row_start': 3, 'row_end': 6, 'column_start': 2, 'column_end': 5}):
    v = seg.get_volume(combine_segments=True, **kw)
    r0 = kw.get('row_start', 1) - 1
    c0 = kw.get('column_start', 1) - 1
    want = geom.map_indices_to_reference(np.array([[0, r0, c0]]))[0]
    got = v.affine[:3, 3]
    ok = np.allclose(want, got)
    print(kw, 'origin', got, 'position of first voxel', want, 'ok' if ok else 'WRONG')
    bad |= not ok
sys.exit(int(bad))
