"""C03 defect (f) (audit C03-1): for a single-frame image the geometry reported by get_volume_geometry() is built by a
separate branch of `_get_volume_geometry` with `spacing_between_slices=self.get('SpacingBetweenSlices', 1.0)` taken as it
is, while get_volume() goes through get_volume_positions (absolute value of the recorded spacing, 0 refused): with
SpacingBetweenSlices = -2.5 the two disagree in the sign of the slice column, with 0 the reported geometry is singular
while get_volume raises.
Run: /venv/bin/python fixes/C03-single-frame-geometry/repro.py   (exit 1 while the defect is present)
"""
import sys
sys.path.insert(0, '/verif/harness')
import hd_env; hd_env.setup()
import numpy as np
import highdicom as hd
from gen.sources import ct_series

bad = 0
for sbs in (2.5, -2.5, 0.0):
    ds = ct_series(1, 2, 3)[0]
    ds.SpacingBetweenSlices = sbs
    im = hd.Image.from_dataset(ds, copy=False)
    try:
        g = im.get_volume_geometry()
        ga = None if g is None else g.affine
    except Exception as e:  # noqa: BLE001
        ga = type(e).__name__
    try:
        va = im.get_volume(apply_modality_transform=False).affine
    except Exception as e:  # noqa: BLE001
        va = type(e).__name__
    same = (isinstance(ga, str) and isinstance(va, str)) or (isinstance(ga, np.ndarray) and isinstance(va, np.ndarray)
                                                               and np.array_equal(ga, va))
    print('SpacingBetweenSlices', sbs, ': geometry column 0', ga if isinstance(ga, str) else ga[:3, 0],
          '| volume column 0', va if isinstance(va, str) else va[:3, 0], 'ok' if same else 'DISAGREE')
    bad |= not same
sys.exit(int(bad))
