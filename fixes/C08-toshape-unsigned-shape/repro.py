"""pad_to / crop_to / pad_or_crop_to_spatial_shape with a shape given as unsigned numpy integers: the size differences
(`outsize - insize`) are computed in the caller's unsigned type and wrap: pad_or_crop_to_spatial_shape(np.uint8([1, 5, 4]))
on shape (2, 3, 4) pads axis 0 by 255 (result shape (257, 5, 4)) instead of cropping it to 1; pad_to_spatial_shape with a
smaller unsigned size pads hugely instead of raising."""
import sys; sys.path.insert(0, '/verif/harness')
import hd_env; hd_env.setup()
import warnings; warnings.simplefilter('ignore')
import numpy as np
from highdicom.volume import Volume
v = Volume(np.arange(24).reshape(2, 3, 4), np.eye(4), 'PATIENT')
bad = False
for obj in (v, v.get_geometry()):
    for shape in (np.array([1, 5, 4], dtype=np.uint8), [np.uint16(1), np.uint16(5), np.uint16(4)]):
        got = obj.pad_or_crop_to_spatial_shape(shape)
        ref = obj.pad_or_crop_to_spatial_shape([1, 5, 4])
        ok = tuple(got.spatial_shape) == (1, 5, 4) and tuple(got.position) == tuple(ref.position)
        print(type(obj).__name__, 'pad_or_crop', [int(x) for x in shape], '->', got.spatial_shape, got.position, 'OK' if ok else 'DEFECT')
        bad |= not ok
    try:
        r = obj.pad_to_spatial_shape(np.array([1, 3, 4], dtype=np.uint8))
        print(type(obj).__name__, 'pad_to smaller unsigned shape accepted ->', r.spatial_shape, 'DEFECT'); bad = True
    except ValueError as e:
        print(type(obj).__name__, 'pad_to smaller shape refused:', e)
sys.exit(1 if bad else 0)
