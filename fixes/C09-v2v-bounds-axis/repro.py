"""VolumeToVolumeTransformer(check_bounds=True) reduced min/max over axis=1 (the three coordinates of a point)
and zipped that with the three axis sizes: the inside point (3, 4, 5) of a 4x5x6 volume failed, the outside
fourth point (9, 9, 9) passed.  Exit 1 = defect present."""
import sys, os
sys.path.insert(0, os.path.join(os.path.dirname(os.path.abspath(__file__)), "..", "..", "harness"))
import hd_env; hd_env.setup()
import numpy as np
from highdicom.volume import Volume, VolumeGeometry, VolumeToVolumeTransformer
arr = np.arange(1, 4 * 5 * 6 + 1).reshape(4, 5, 6).astype(np.int32)
def vol(uid="1.2.3", spacing=(1.0, 1.0, 1.0), position=(0.0, 0.0, 0.0), direction=np.eye(3)):
    return Volume.from_components(arr, spacing=list(spacing), position=list(position), direction=direction,
                                  coordinate_system="PATIENT", frame_of_reference_uid=uid)

g = VolumeGeometry.from_components(spatial_shape=(4, 5, 6), spacing=[1.0, 1.0, 1.0], position=[0.0, 0.0, 0.0],
                                   direction=np.eye(3), coordinate_system="PATIENT")
t = VolumeToVolumeTransformer(g, g, check_bounds=True)
def fails(p):
    try:
        t(np.array(p, dtype=float)); return False
    except ValueError:
        return True
inside, outside = fails([[3, 4, 5]]), fails([[0, 0, 0]] * 3 + [[9, 9, 9]])
print("inside point refused:", inside, " outside 4th point refused:", outside)
sys.exit(1 if (inside or not outside) else 0)
