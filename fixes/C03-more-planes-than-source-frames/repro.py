"""C03 defect: Segmentation.__init__ with explicit plane_positions whose orientation and pixel spacing equal the
source image's compares `plane_positions[i] == source_plane_positions[i]` for every handed-over plane.  When the user
hands over MORE planes than the source image has frames (e.g. a slide segmentation given tile by tile with tiles
smaller than the source's), this raises IndexError instead of concluding that the spatial locations are not those of
the source.  Found by the round-4 dimension "hand-over order of explicit tile positions".
Run: /venv/bin/python fixes/C03-more-planes-than-source-frames/repro.py  (exit 1 while the defect is present)
"""
import sys
sys.path.insert(0, '/verif/harness')
import hd_env; hd_env.setup()
import numpy as np
import highdicom as hd
from gen.sources import slide_image, seg_description

# source: 4 x 3 total pixel matrix in tiles of 4 x 3 (one frame); segmentation: the same matrix in six tiles of 2 x 1
src, _ = slide_image(4, 3, 4, 3, origin=(-44.25, 3.625, 0.0), pixel_spacing=(0.5, 0.25))
ps = (0.5, 0.25)
mask = np.array([[1, 0, 0], [1, 0, 1], [0, 1, 1], [1, 1, 1]], np.uint8)
tiles = [(r0, c0) for r0 in (0, 2) for c0 in (0, 1, 2)]
iop = [float(x) for x in src.ImageOrientationSlide]
rowcos, colcos = np.array(iop[:3]), np.array(iop[3:])
origin = np.array([-44.25, 3.625, 0.0])
pps = [hd.PlanePositionSequence('SLIDE', list(origin + r0 * ps[0] * colcos + c0 * ps[1] * rowcos),
                                pixel_matrix_position=(c0 + 1, r0 + 1)) for r0, c0 in tiles]
px = np.stack([mask[r0:r0 + 2, c0:c0 + 1] for r0, c0 in tiles])
try:
    seg = hd.seg.Segmentation([src], px, 'BINARY', [seg_description(1)], series_instance_uid=hd.UID(), series_number=2,
                              sop_instance_uid=hd.UID(), instance_number=1, manufacturer='m', manufacturer_model_name='mm',
                              software_versions='1', device_serial_number='1', plane_positions=pps,
                              plane_orientation=hd.PlaneOrientationSequence('SLIDE', iop),
                              pixel_measures=hd.PixelMeasuresSequence(pixel_spacing=list(ps), slice_thickness=1.0))
except IndexError as e:
    print('constructor raised IndexError:', e)
    sys.exit(1)
v = seg.get_volume(combine_segments=True)
ok = v.spatial_shape == (1, 4, 3) and np.array_equal(v.array[0], mask) and np.allclose(v.affine[:3, 3], origin)
print('read-back volume', v.spatial_shape, 'origin', v.affine[:3, 3], 'ok' if ok else 'WRONG')
sys.exit(int(not ok))
