"""C03 defect (g) (audit C03-6): a segmentation of a single plane (one source image, SliceThickness 5, no
SpacingBetweenSlices anywhere) records SpacingBetweenSlices = 1.0: get_volume_positions stipulates 1.0 for a single
position and the constructor writes that stipulation into the file as if it were inferred from the data.
Run: /venv/bin/python fixes/C03-single-plane-invented-spacing/repro.py   (exit 1 while the defect is present)
"""
import sys
sys.path.insert(0, '/verif/harness')
import hd_env; hd_env.setup()
import numpy as np
import highdicom as hd
from gen.sources import ct_series, seg_description

src = ct_series(1, 2, 4, slice_spacing=5.0)
arr = np.zeros((1, 2, 4), np.uint8)
arr[0, 1, 2] = 1
seg = hd.seg.Segmentation(src, arr, 'LABELMAP', [seg_description(1)], series_instance_uid=hd.UID(), series_number=2,
                          sop_instance_uid=hd.UID(), instance_number=1, manufacturer='m', manufacturer_model_name='mm',
                          software_versions='1', device_serial_number='1')
pm = seg.SharedFunctionalGroupsSequence[0].PixelMeasuresSequence[0]
rec = pm.get('SpacingBetweenSlices')
print('source SliceThickness', src[0].SliceThickness, 'recorded SpacingBetweenSlices', rec)
v = seg.get_volume(combine_segments=True)
print('read-back still works, position of the plane', v.affine[:3, 3])
sys.exit(0 if rec is None else 1)
