"""Both bounds checks called min()/max() on an empty set of points and raised numpy's
'zero-size array to reduction operation' ValueError although no point lies outside.  Exit 1 = defect present."""
import sys, os
sys.path.insert(0, os.path.join(os.path.dirname(os.path.abspath(__file__)), "..", "..", "harness"))
import hd_env; hd_env.setup()
import numpy as np
from highdicom.volume import Volume, VolumeGeometry, VolumeToVolumeTransformer
arr = np.arange(1, 4 * 5 * 6 + 1).reshape(4, 5, 6).astype(np.int32)
def vol(uid="1.2.3", spacing=(1.0, 1.0, 1.0), position=(0.0, 0.0, 0.0), direction=np.eye(3)):
    return Volume.from_components(arr, spacing=list(spacing), position=list(position), direction=direction,
                                  coordinate_system="PATIENT", frame_of_reference_uid=uid)

g = VolumeGeometry.from_components(spatial_shape=(4, 5, 6), spacing=[1.0, 1.0, 1.0], position=[0.0, 0.0, 0.0],
                                   direction=np.eye(3), coordinate_system="PATIENT")
bad = False
for f in (lambda p: VolumeToVolumeTransformer(g, g, check_bounds=True)(p), lambda p: g.map_reference_to_indices(p, check_bounds=True)):
    try:
        f(np.zeros((0, 3)))
    except Exception as e:
        print("empty point set refused:", type(e).__name__, e); bad = True
sys.exit(1 if bad else 0)
