"""Per-channel padding (per_channel=True with MINIMUM / MAXIMUM / MEAN / MEDIAN on a volume with more than one channel)
allocates the result with numpy's default dtype float64: the dtype of the volume changes and retained integer values
above 2**53 are altered."""
import sys; sys.path.insert(0, '/verif/harness')
import hd_env; hd_env.setup()
import numpy as np
from highdicom.volume import Volume
big = 2 ** 53 + 1
arr = np.arange(2 * 2 * 2 * 2, dtype=np.int64).reshape(2, 2, 2, 2) + big
v = Volume(arr, np.eye(4), 'PATIENT', channels={'OpticalPathIdentifier': ['a', 'b']})
p = v.pad(1, mode='MINIMUM', per_channel=True)
q = v.pad(1, mode='MINIMUM', per_channel=False)
kept = p.array[1:-1, 1:-1, 1:-1]
same = kept.dtype == arr.dtype and np.array_equal(kept, arr)
print('per_channel=False dtype', q.array.dtype, '| per_channel=True dtype', p.array.dtype)
print('retained values identical:', same, '| first value', int(arr.flat[0]), '->', repr(kept.flat[0]))
sys.exit(0 if same else 1)
