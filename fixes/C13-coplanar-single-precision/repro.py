"""spatial.are_points_coplanar computed the plane of best fit in the precision of its INPUT: for a float32 array (the
precision graphic data is stored in) the rounding error of the mean / SVD at coordinates of a few thousand exceeds the
absolute tolerance 1e-5, so Scoord3DContentItem refused an EXACTLY coplanar closed polygon ("must contain co-planar
points") that it accepts as float64.  Exit 1 while the defect is present."""
import os
import sys
sys.path.insert(0, os.path.join(os.path.dirname(os.path.abspath(__file__)), ".."))
from _c13_common import *  # noqa: E402,F401,F403
import numpy as np  # noqa: E402
from highdicom.sr import Scoord3DContentItem  # noqa: E402
from highdicom.spatial import are_points_coplanar  # noqa: E402
# every coordinate is an integer (exact in float32), all points lie in one plane (checked exactly below)
pts = [[3424, 1632, -3824], [2944, 1920, -4016], [3104, 2208, -3728], [2976, 1824, -4048], [3616, 1632, -3680], [3424, 1632, -3824]]
d = [[p[k] - pts[0][k] for k in range(3)] for p in pts[1:]]
det = lambda a, b, c: a[0] * (b[1] * c[2] - b[2] * c[1]) - a[1] * (b[0] * c[2] - b[2] * c[0]) + a[2] * (b[0] * c[1] - b[1] * c[0])  # noqa: E731
assert all(det(a, b, c) == 0 for a in d for b in d for c in d), 'not exactly coplanar'
bad = 0
for dt in (np.float64, np.float32):
    arr = np.array(pts, dtype=dt)
    try:
        Scoord3DContentItem(NAME, 'POLYGON', arr, frame_of_reference_uid='1.2.3', relationship_type='CONTAINS')
        print(dt.__name__, 'accepted; are_points_coplanar =', bool(are_points_coplanar(arr)))
    except ValueError as e:
        bad += 1
        print(dt.__name__, 'REFUSED:', str(e)[:90], '; are_points_coplanar =', bool(are_points_coplanar(arr)))
sys.exit(1 if bad else 0)
