"""insert(1.0, x) raises TypeError (list.insert) but x had already been entered into the name look-up table: find()
returns an item that is not in the sequence.  Exit 1 while the defect is present."""
import os
import sys
sys.path.insert(0, os.path.join(os.path.dirname(os.path.abspath(__file__)), ".."))
from _c14_common import *  # noqa: E402,F401,F403

s = ContentSequence([text(0, 1)])
r = attempt(lambda: s.insert(1.0, text(0, 2)))
print('insert(1.0, x):', r, ' list', values(s), ' find(name 0)', values(s.find(name(0))))
sys.exit(0 if values(s.find(name(0))) == values(s) else 1)
