"""TcoordContentItem.value returns the bare element instead of a list when there is one time point (pydicom stores a
one-item list as the item).  Exit 1 while the defect is present."""
import os
import sys
sys.path.insert(0, os.path.join(os.path.dirname(os.path.abspath(__file__)), ".."))
from _c13_common import *  # noqa: E402,F401,F403

t = TcoordContentItem(NAME, 'POINT', referenced_sample_positions=[5])
print('constructed with [5], value is', repr(t.value))
sys.exit(0 if t.value == [5] else 1)
