"""C07: encode_frame accepts bits_stored outside 1..bits_allocated; the bytes cannot be decoded with the same parameters.
exit 1 = defect present"""
import sys, warnings
sys.path.insert(0, '/verif/harness')
import hd_env; hd_env.setup()
import numpy as np
from highdicom.frame import encode_frame, decode_frame
from pydicom.uid import ExplicitVRLittleEndian as TS
warnings.simplefilter('ignore')
a = np.array([[1, 2, 3, 4]], dtype=np.uint16)
bad = 0
for bs in (0, 17, 20):
    try:
        b = encode_frame(a, TS, 16, bs, 'MONOCHROME2', 0)
    except ValueError as e:
        print('refused bits_stored', bs, '-', e); continue
    try:
        d = decode_frame(b, TS, 1, 4, 1, 16, bs, 'MONOCHROME2', 0)
        print('accepted', bs, 'decoded', d.tolist())
    except Exception as e:  # noqa: BLE001
        print('accepted bits_stored', bs, 'but decoding fails:', str(e)[:90]); bad += 1
sys.exit(1 if bad else 0)
