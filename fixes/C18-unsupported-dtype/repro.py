"""C18: coordinate arrays of a dtype other than float32/float64/integer were accepted and stored as raw bytes of the
wrong width, so the group could not be read back.

float16 input [[1.5, 2.25]], [[3.0, 4.5]] was written as 8 bytes of half floats into PointCoordinatesData (which holds
32-bit floats) and parsed as ONE point (4.0075.., 1026.06..); complex64, long double and bool arrays were accepted the
same way.  After the fix half precision is widened (losslessly) to single precision and every other non-float,
non-integer or wider-than-double dtype is refused with a ValueError.  Exit status 1 = defect present."""
import sys
sys.path.insert(0, '/verif/fixes')
from _c18_common import *


def grp(gd):
    return AnnotationGroup(number=1, uid=hd.UID(), label='g', annotated_property_category=Code('91723000', 'SCT', 'Anatomical Structure'),
                           annotated_property_type=Code('4421005', 'SCT', 'Cell'), graphic_type='POINT', graphic_data=gd,
                           algorithm_type='MANUAL')


base = [np.array([[1.5, 2.25]]), np.array([[3.0, 4.5]])]
bad = 0
for dt in ['f2', 'c8', 'g', '?']:
    gd = [a.astype(dt) for a in base]
    try:
        g = grp(gd)
    except ValueError as e:
        print(dt, 'refused:', str(e)[:70])
        continue
    try:
        out = AnnotationGroup.from_dataset(g, copy=True).get_graphic_data('2D')
        same = len(out) == 2 and all(np.array_equal(o.astype('f8'), a.astype('f8')) for o, a in zip(out, gd))
    except Exception as e:  # noqa: BLE001
        out, same = type(e).__name__, False
    print(dt, 'accepted; read back', 'unchanged' if same else f'CHANGED: {out if isinstance(out, str) else [o.tolist() for o in out]}')
    bad += not same
sys.exit(1 if bad else 0)
