"""FRACTIONAL segmentation from a stacked (4-D) uint8 mask: `_get_segment_pixel_array` scales a *view* of the
caller's array in place (`segment_array *= max_fractional_value`).  Exit 1 while the defect is present."""
import os
import sys
sys.path.insert(0, os.path.join(os.path.dirname(os.path.abspath(__file__)), '..'))
from _c01_common import ct_series, make  # noqa: E402
import numpy as np  # noqa: E402

src = ct_series(2, 2, 3)
mask = np.zeros((2, 2, 3, 2), dtype=np.uint8)
mask[0, 0, 0, 0] = 1
mask[1, 1, 2, 1] = 1
keep = mask.copy()
make(src, mask, 'FRACTIONAL', [1, 2], max_fractional_value=255)
print('input unchanged:', np.array_equal(mask, keep), 'max now', mask.max())
sys.exit(0 if np.array_equal(mask, keep) else 1)
