"""A segmentation handed over as individual planes (plane_positions + pixel_array) whose positions, orientation and pixel spacing
equal those of the first source frames but whose planes have ANOTHER size than the source frames (2 x 2 tiles over a source tiled
2 x 3) was refused: "Shape of input pixel_array does not match shape of the source image."  Expected: accepted (locations are
simply not preserved frame by frame) and read back where the planes were placed.  Fixed in /repo (see findings/C03.json)."""
import sys, os
sys.path.insert(0,'/verif/harness'); sys.path.insert(0,'/verif/harness/corr')
import hd_env; hd_env.setup()
import numpy as np, highdicom as hd
from gen.sources import seg_description, slide_image
# source: 4 x 2 total pixel matrix, tiles 2 x 3 (one tile column, padded); segmentation handed over as two 2 x 2 tiles
src, _ = slide_image(4, 2, 2, 3, origin=[41.5, -42.25, 0.0], pixel_spacing=[0.5, 0.25], orientation=[0.0, -1.0, 0.0, -1.0, 0.0, 0.0])
print('source frames', src.NumberOfFrames, src.Rows, src.Columns, src.get('DimensionOrganizationType'))
mask = np.ones((4, 2), np.uint8)
def tile_pos(r0, c0):
    o = np.array([41.5, -42.25, 0.0]); colcos = np.array([-1.0, 0, 0]); rowcos = np.array([0, -1.0, 0])
    return list(o + r0 * 0.5 * colcos + c0 * 0.25 * rowcos)
tiles = [(0, 0), (2, 0)]
pps = [hd.PlanePositionSequence('SLIDE', tile_pos(r0, c0), pixel_matrix_position=(c0 + 1, r0 + 1)) for r0, c0 in tiles]
px = np.stack([mask[r0:r0 + 2, c0:c0 + 2] for r0, c0 in tiles])
po = hd.PlaneOrientationSequence('SLIDE', [0.0, -1.0, 0.0, -1.0, 0.0, 0.0])
pm = hd.PixelMeasuresSequence(pixel_spacing=[0.5, 0.25], slice_thickness=1.0)
kw = dict(series_instance_uid=hd.UID(), series_number=2, sop_instance_uid=hd.UID(), instance_number=1, manufacturer='m', manufacturer_model_name='mm', software_versions='1', device_serial_number='1')
try:
    seg = hd.seg.Segmentation([src], px, 'BINARY', [seg_description(1)], plane_positions=pps, plane_orientation=po, pixel_measures=pm, omit_empty_frames=False, **kw)
    print('ok', seg.NumberOfFrames, seg.get_volume(combine_segments=True).spatial_shape)
except Exception as e:
    print('ERR', type(e).__name__, e)
