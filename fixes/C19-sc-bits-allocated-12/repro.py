"""C19: SCImage(bits_allocated=12) with a uint16 array writes BitsAllocated=12 over 16-bit cells; pydicom cannot
decode the image.  exit 1 = defect present"""
import sys; sys.path.insert(0, '/verif/fixes')
from _c19_common import *
arr = (np.arange(16 * 16, dtype=np.uint16).reshape(16, 16) * 16) % 4096
try:
    im = sc(arr, 'MONOCHROME2', 12)
except Exception as e:  # noqa: BLE001
    print('refused:', e); sys.exit(0)
ds = pydicom.dcmread(io.BytesIO(written(im)))
print('BitsAllocated', ds.BitsAllocated, 'BitsStored', ds.BitsStored, 'HighBit', ds.HighBit)
try:
    ok = np.array_equal(ds.pixel_array, arr)
    print('decoded', 'equal' if ok else 'DIFFERENT'); sys.exit(0 if ok else 1)
except Exception as e:  # noqa: BLE001
    print('pydicom cannot decode:', str(e)[:120]); sys.exit(1)
