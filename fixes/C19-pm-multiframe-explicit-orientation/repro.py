"""C19: ParametricMap(multi-frame source image, plane_orientation=...) raises TypeError: the source's plane orientation is a
plain pydicom sequence and is compared with a highdicom PlaneOrientationSequence.  exit 1 = defect present"""
import sys; sys.path.insert(0, '/verif/fixes')
from _c19_common import *
from gen.sources import enhanced_multiframe
mf = enhanced_multiframe(2, 3, 4)
arr = np.arange(24, dtype=np.uint16).reshape(2, 3, 4)
po = hd.PlaneOrientationSequence('PATIENT', [1.0, 0.0, 0.0, 0.0, 1.0, 0.0])
try:
    pm = pmap(arr, [lin('a', 1.0, 0.0)], [mf], plane_orientation=po)
    ok = np.array_equal(pydicom.dcmread(io.BytesIO(written(pm))).pixel_array, arr)
    print('constructed;', 'pixels equal' if ok else 'pixels DIFFER'); sys.exit(0 if ok else 1)
except TypeError as e:
    print('TypeError:', e); sys.exit(1)
