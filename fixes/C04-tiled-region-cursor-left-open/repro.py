"""C04-tiled-region-cursor-left-open: a valid region read is refused after an earlier read on the same object was refused part way
through its rows and the caller kept the exception.

Before the fix (image.py, _iterate_indices_for_tiled_region): the second and third read raise
sqlite3.OperationalError: database table is locked.  Run: /venv/bin/python fixes/C04-tiled-region-cursor-left-open/repro.py"""
import os
import sys
sys.path.insert(0, os.path.join(os.path.dirname(os.path.abspath(__file__)), '..', '..', 'harness'))
import hd_env  # noqa: E402
hd_env.setup()
import numpy as np  # noqa: E402
import highdicom as hd  # noqa: E402
from gen.sources import seg_description, slide_image  # noqa: E402

R, C, th, tw = 5, 7, 2, 3
src, _ = slide_image(R, C, 4, 4, tiled_full=True)
arr = np.zeros((1, R, C, 3), np.uint8)
arr[0, 0:2, 0:3, 0] = 1
arr[0, 2:4, 3:6, 1] = 1
arr[0, 4:, 6:, 2] = 1
arr[0, 2:4, 3:6, 2] = 1          # segments 2 and 3 overlap in one tile: combining them is refused while the rows are being copied
seg = hd.seg.Segmentation([src], arr, 'BINARY', [seg_description(s) for s in (1, 2, 3)], hd.UID(), 1, hd.UID(), 1, 'v', 'm', '1', 'd',
                          tile_pixel_array=True, omit_empty_frames=True, tile_size=(th, tw))
kept = []
bad = 0
for kw, want in [(dict(combine_segments=True), None), (dict(segment_numbers=[2]), arr[0][..., [1]]),
                 (dict(segment_numbers=[1, 2]), arr[0][..., [0, 1]])]:
    try:
        v = seg.get_total_pixel_matrix(**kw)
        ok = want is not None and np.array_equal(v, want)
        print(kw, 'ok' if ok else 'WRONG')
        bad += not ok
    except Exception as e:  # noqa: BLE001
        kept.append(e)           # the caller keeps the exception
        print(kw, type(e).__name__, str(e)[:80])
        bad += want is not None
sys.exit(1 if bad else 0)
