"""find_content_items(name=...) and the coding scheme version of an item's name.
Before the fix the search rebuilt every item's name WITHOUT its CodingSchemeVersion and compared that with the query:
a query by the exact name of an item (with its version) found nothing - no query that names a version could ever match -
although `item.name == name` holds for the item itself.  After: a query that names a version is compared with the version
of the item's name; a query without a version matches the code in any version (as before).
    /venv/bin/python fixes/C15-find-name-version-ignored/repro.py      exit 1 = defect present"""
import sys
sys.path.insert(0, '/verif/harness')
import hd_env; hd_env.setup()
import highdicom as hd
from highdicom.sr import CodedConcept, ContainerContentItem, ContentSequence, TextContentItem
from highdicom.sr.utils import find_content_items

v1 = CodedConcept('121071', 'DCM', 'Finding', scheme_version='01')
v2 = CodedConcept('121071', 'DCM', 'Finding', scheme_version='02')
plain = CodedConcept('121071', 'DCM', 'Finding')
root = ContainerContentItem(name=CodedConcept('126000', 'DCM', 'Imaging Measurement Report'))
inner = ContainerContentItem(name=CodedConcept('125007', 'DCM', 'Measurement Group'), relationship_type='CONTAINS')
inner.ContentSequence = ContentSequence([TextContentItem(name=v2, value='two levels down, version 02', relationship_type='CONTAINS')])
root.ContentSequence = ContentSequence([
    TextContentItem(name=v1, value='version 01', relationship_type='CONTAINS'),
    TextContentItem(name=plain, value='no version', relationship_type='CONTAINS'),
    inner])
bad = 0
for label, query, want in (('exact name with version 01', v1, ['version 01']),
                           ('exact name with version 02', v2, ['two levels down, version 02']),
                           ('name without version', plain, ['version 01', 'no version', 'two levels down, version 02']),
                           ('version no item has', CodedConcept('121071', 'DCM', 'Finding', scheme_version='99'), [])):
    got = [str(i.TextValue) for i in find_content_items(root, name=query, recursive=True)]
    print(f'{label:30s} -> {got}')
    if got != want:
        print('   WANT', want)
        bad = 1
print('item.name == query for the first item:', root.ContentSequence[0].name == v1)
sys.exit(bad)
