"""C06 defect: `VOILUTTransformation(window_center=40, window_width=400, window_explanation='SOFT')` stores
`list('SOFT')` = ['S', 'O', 'F', 'T'] as WindowCenterWidthExplanation, so the single window can never be
selected by its explanation (`apply(..., voi_transform_selector='SOFT')` raises IndexError) and the dataset
carries four bogus explanations for one window.
Run: /venv/bin/python fixes/C06-window-explanation-split/repro.py   (exit 1 while the defect is present)
"""
import sys
sys.path.insert(0, '/verif/fixes')
import numpy as np
import highdicom as hd
import _c06_common  # noqa: F401

t = hd.VOILUTTransformation(window_center=40.0, window_width=400.0, window_explanation='SOFT', voi_lut_function='LINEAR_EXACT')
print('stored explanation:', t.WindowCenterWidthExplanation)
bad = t.WindowCenterWidthExplanation != 'SOFT'
try:
    out = t.apply(np.array([[40, 240]], dtype=np.int16), voi_transform_selector='SOFT')
    print('selected by name:', out.tolist())
    bad |= out.tolist() != [[0.5, 1.0]]
except Exception as e:  # noqa: BLE001
    print('selection by name raised', type(e).__name__, e)
    bad = True
sys.exit(1 if bad else 0)
