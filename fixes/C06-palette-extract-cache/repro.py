"""C06 defect: `PaletteColorLUTTransformation.extract_from_dataset(ds)` returns an object on which
`combined_lut_data` (and so `apply`) always raises: (1) the cache attribute `_lut_data` is only set by
`__init__`, which extraction bypasses (AttributeError); (2) for an 8-bit palette with an odd number of
entries the extracted data has its padding byte stripped, which the parser then rejects as "incorrect length".
Run: /venv/bin/python fixes/C06-palette-extract-cache/repro.py   (exit 1 while the defect is present)
"""
import sys
sys.path.insert(0, '/verif/fixes')
import numpy as np
import highdicom as hd
import _c06_common  # noqa: F401
from gen.pixeltransforms import make_image

bad = 0
for n in (4, 3):
    table = (np.arange(n * 3).reshape(n, 3) * 7 % 256).astype(np.uint8)
    P = {'bits': 8, 'photometric': 'PALETTE COLOR', 'frames': [[[0, 1, 2]]],
         'T': {'palette': {'first': 0, 'bits': 8, 'data': table.tolist()}}}
    tr = hd.PaletteColorLUTTransformation.extract_from_dataset(make_image(P))
    try:
        got = tr.combined_lut_data
        out = tr.apply(np.array([[0, 1, 2]], dtype=np.uint8))
        ok = np.array_equal(got, table) and np.array_equal(out[0], table[:3])
        print(n, 'entries: table returned as given:', ok)
        bad |= not ok
    except Exception as e:  # noqa: BLE001
        print(n, 'entries: raised', type(e).__name__, e)
        bad = 1
sys.exit(bad)
