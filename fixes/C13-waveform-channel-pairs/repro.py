"""WaveformContentItem flattened the items of referenced_waveform_channels without looking at their length: a triple
(1, 2, 3) was accepted, written as [1, 2, 3] (an odd number of values for an attribute of VM 2-2n) and reported back as
[(1, 2)]; [(1, 2, 3), (4, 5, 6)] was reported as [(1, 2), (3, 4), (5, 6)]; a 1-tuple made the accessor raise TypeError.
Exit 1 while the defect is present."""
import os
import sys
sys.path.insert(0, os.path.join(os.path.dirname(os.path.abspath(__file__)), ".."))
from _c13_common import *  # noqa: E402,F401,F403
bad = 0
for ch in ([(1, 2, 3)], [(1, 2, 3), (4, 5, 6)], [(1,)], [(1, 2), (3,)]):
    try:
        it = WaveformContentItem(NAME, '1.2.840.10008.5.1.4.1.1.9.1.1', '1.2.3', referenced_waveform_channels=ch,
                                 relationship_type='CONTAINS')
    except ValueError as e:
        print(ch, 'refused:', e)
        continue
    bad += 1
    try:
        print(ch, 'ACCEPTED; reported as', it.referenced_waveform_channels)
    except Exception as e:  # noqa: BLE001
        print(ch, 'ACCEPTED; accessor raises', type(e).__name__)
sys.exit(1 if bad else 0)
