"""C05-cached-frame-is-view: once `pixel_array` was accessed, `get_stored_frame` (and `get_frame` when no transform changes the
values) returned a WRITABLE VIEW of the cached array: a caller who edits the returned frame in place (windowing, masking)
changed what every later read of that object returns, whereas on an object whose array is not cached the same edit changes
nothing.  What a read returns must not depend on what the caller did with an earlier result."""
import io
import os
import sys

sys.path.insert(0, os.path.join(os.path.dirname(os.path.abspath(__file__)), '..', '..', 'harness'))
import hd_env
hd_env.setup()
import numpy as np
import pydicom
import highdicom as hd
from gen.images import multiframe_image, to_bytes

bad = []
for n in (1, 3):
    fr = (np.arange(n * 2 * 3).reshape(n, 2, 3) + 1) % 200
    blob = to_bytes(multiframe_image(fr, 8))
    for cached in (False, True):
        im = hd.Image.from_dataset(pydicom.dcmread(io.BytesIO(blob)), copy=False)
        if cached:
            im.pixel_array
        a = im.get_stored_frame(1)
        a[...] = 0                                   # the caller edits its result in place
        b = im.get_stored_frame(1)
        c = im.get_stored_frames([1])[0]
        ok = np.array_equal(b, fr[0]) and np.array_equal(c, fr[0])
        print(f'{n} frame(s), array cached: {cached}: second read', 'unchanged' if ok else 'RETURNS THE EDITED PIXELS')
        if not ok:
            bad.append((n, cached))
sys.exit(1 if bad else 0)
