"""ImageFileReader.read_frame(np.uint8(3)) on a bit-packed image with more than 255 pixels per frame raised
OverflowError (the index entered `(index + 1) * n_pixels` and decode_frame's bit arithmetic as an 8-bit numpy scalar).
Exit 1 when a valid index is refused or answered with other pixels."""
import os
import sys
sys.path.insert(0, os.path.join(os.path.dirname(os.path.abspath(__file__)), '..', '..', 'harness'))
import hd_env
hd_env.setup()
import numpy as np
import highdicom as hd
from pydicom.filebase import DicomBytesIO
from gen.images import multiframe_image, to_bytes

frames = np.random.default_rng(0).random((40, 30, 31)) < 0.5
bad = 0
with hd.io.ImageFileReader(DicomBytesIO(to_bytes(multiframe_image(frames, 1)))) as rd:
    for k in (np.uint8(3), np.int8(30), np.uint8(39), np.int16(36), 39):
        try:
            got = rd.read_frame(k, correct_color=False)
            if not np.array_equal(got.astype(bool), frames[int(k)]):
                bad += 1
                print(type(k).__name__, int(k), 'returned other pixels')
        except Exception as e:  # noqa: BLE001
            bad += 1
            print(type(k).__name__, int(k), 'raised', type(e).__name__, e)
print('FAIL' if bad else 'ok')
sys.exit(1 if bad else 0)
