"""ContentSequence.__setitem__ never updated the name look-up table: after a slice assignment find() still
returns the replaced item and does not know the new one.  Exit 1 while the defect is present."""
import os
import sys
sys.path.insert(0, os.path.join(os.path.dirname(os.path.abspath(__file__)), ".."))
from _c14_common import *  # noqa: E402,F401,F403

s = ContentSequence([text(0, 1), text(1, 2)])
s[0:1] = [text(2, 3)]
old, new = values(s.find(name(0))), values(s.find(name(2)))
print('list', values(s), 'find(old name)', old, 'find(new name)', new)
sys.exit(0 if old == [] and new == ['item 3'] else 1)
