"""ReferencedSegmentationFrame.from_segmentation (three defects, one fix commit each):
 (a) named the SEGMENTATION's frame numbers as frames of the source image;
 (b) stopped at the first frame with a source image: later frame numbers were neither range-checked nor
     checked to belong to the same segment, and their source frames were ignored;
 (c) ignored segment_number when frame_number was given.
    /venv/bin/python fixes/C15-segframe-source-frames/repro.py"""
import sys
sys.path.insert(0, '/verif/harness')
import hd_env; hd_env.setup()
import highdicom as hd
from pydicom.dataset import Dataset
from pydicom.sequence import Sequence

def seg(frames):
    ds = Dataset(); ds.SOPClassUID = '1.2.840.10008.5.1.4.1.1.66.4'; ds.SOPInstanceUID = '1.2.3'
    ds.NumberOfFrames = len(frames); pf = []
    for segment, src_frame in frames:
        it = Dataset(); si = Dataset(); si.ReferencedSegmentNumber = segment
        it.SegmentIdentificationSequence = Sequence([si])
        s = Dataset(); s.ReferencedSOPClassUID = '1.2.840.10008.5.1.4.1.1.2.1'; s.ReferencedSOPInstanceUID = '1.2.4'
        s.ReferencedFrameNumber = src_frame
        d = Dataset(); d.SourceImageSequence = Sequence([s]); it.DerivationImageSequence = Sequence([d]); pf.append(it)
    ds.PerFrameFunctionalGroupsSequence = Sequence(pf)
    return ds
s = seg([(1, 17), (2, 23), (1, 5)])
bad = 0
r = hd.sr.ReferencedSegmentationFrame.from_segmentation(s, frame_number=3)
got = r[1].ReferencedSOPSequence[0].get('ReferencedFrameNumber')
print('(a) frame 3 was derived from source frame 5; named source frame:', got); bad += got != 5
for what, kw in (('(b) frame 99 of 3', dict(frame_number=[1, 99])), ('(b) frames of segments 1 and 2', dict(frame_number=[1, 2])),
                 ('(c) frame 1 (segment 1) requested as segment 2', dict(frame_number=1, segment_number=2))):
    try:
        hd.sr.ReferencedSegmentationFrame.from_segmentation(s, **kw); print(what, 'ACCEPTED'); bad += 1
    except ValueError as e:
        print(what, 'refused:', e)
sys.exit(1 if bad else 0)
