"""ImageLibraryEntryDescriptors(image, additional_descriptors=[item]) overwrote RelationshipType of the caller's content item
in place (`item.RelationshipType = 'HAS ACQ CONTEXT'` on the argument).  Found by the alias-flow theorem
`constructors_never_write_arguments`: the extracted program of the constructor writes a view of argument 1.  Fixed by
altering a copy of the item."""
import sys
sys.path.insert(0, '/verif/harness')
import hd_env
hd_env.setup()
import highdicom as hd
from highdicom import sr
from pydicom.sr.codedict import codes
from gen import sources
img = sources.ct_series(1, 3, 3)[0]
item = sr.TextContentItem(name=codes.DCM.AcquisitionProtocol, value='protocol', relationship_type=sr.RelationshipTypeValues.CONTAINS)
before = item.RelationshipType
sr.ImageLibraryEntryDescriptors(img, additional_descriptors=[item])
print('before', before, 'after', item.RelationshipType)
if item.RelationshipType != before:
    print('DEFECT: the caller\'s content item was altered')
    sys.exit(1)
print('ok: argument untouched')
