"""C18: a corrupted LongPrimitivePointIndexList was not refused when a parsed annotation group was read.

The index list must hold the one-based, strictly increasing positions of the first coordinate of each annotation.
With an entry of 0 (or a decreasing / off-boundary / out-of-range entry) `get_graphic_data` computed a negative or
misplaced cut position and `numpy.split` silently returned wrongly divided annotations (negative positions wrap
around).  After the fix such a list raises ValueError.  Exit status 1 = defect present."""
import sys
sys.path.insert(0, '/verif/fixes')
from _c18_common import *

g = group(3, None)                       # three triangles, 2-D: index list [1, 7, 13]
bad = 0
for il in ([1, 0, 13], [1, 13, 7], [1, 8, 13], [3, 7, 13], [1, 7, 19], [1, 7, 7]):
    d = AnnotationGroup.from_dataset(g, copy=True)
    d.LongPrimitivePointIndexList = np.array(il, np.int32).tobytes()
    d._graphic_data = {}
    try:
        out = d.get_graphic_data('2D')
        print(il, 'accepted ->', [len(a) for a in out], 'points per annotation')
        bad += 1
    except ValueError as e:
        print(il, 'refused:', str(e)[:60])
sys.exit(1 if bad else 0)
