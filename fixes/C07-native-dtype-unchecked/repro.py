"""C07: native encode_frame accepts arrays whose dtype does not match bits_allocated / pixel_representation
and returns bytes that decode to something else (or not at all).
Run: /venv/bin/python fixes/C07-native-dtype-unchecked/repro.py   (exit 1 = defect present)"""
import sys, warnings
sys.path.insert(0, '/verif/harness')
import hd_env; hd_env.setup()
import numpy as np
from highdicom.frame import encode_frame, decode_frame
from pydicom.uid import ExplicitVRLittleEndian as TS
warnings.simplefilter('ignore')
bad = 0
cases = [
    (np.array([[1, 258, 3, 4]], dtype=np.uint16), 8, 8, 0),      # 2 bytes per pixel declared as 8 bit
    (np.array([[1, 200, 3, 255]], dtype=np.uint8), 8, 8, 1),     # unsigned content declared signed
    (np.array([[1, -2, 3, 4]], dtype=np.int16), 16, 16, 0),      # signed content declared unsigned
    (np.array([[1, 2, 3, 4]], dtype=np.uint8), 16, 16, 0),       # 1 byte per pixel declared as 16 bit
]
for a, ba, bs, pr in cases:
    try:
        b = encode_frame(a, TS, ba, bs, 'MONOCHROME2', pr)
    except ValueError as e:
        print('refused:', a.dtype, ba, pr, '-', e)
        continue
    try:
        d = decode_frame(b, TS, a.shape[0], a.shape[1], 1, ba, bs, 'MONOCHROME2', pr)
        same = d.shape == a.shape and np.array_equal(d.astype(np.int64), a.astype(np.int64))
        print('accepted:', a.dtype, ba, pr, 'decodes to', d.tolist(), 'input', a.tolist(), 'OK' if same else 'DIFFERENT')
        bad += not same
    except Exception as e:  # noqa: BLE001
        print('accepted:', a.dtype, ba, pr, 'but decoding fails:', str(e)[:80])
        bad += 1
sys.exit(1 if bad else 0)
