"""C11 defect C11-gaps-planes-share-index (fixed in /repo dc67aef; second audit, docs/AUDIT2_C.md C11 M1 / M2):
get_volume_positions(allow_missing_positions=True) rounds the multiple of the spacing of every (distinct) position to its volume
index; two DIFFERENT positions could get one index and the stack was still called regular:
  1. with a spacing hint, a position displaced within its plane at the distance of another position (the zero-gap test sat only in
     the branch without a hint): [0,0,0],[0,0,-1],[7,3,-1],[0,0,-3], hint 1 -> (1.0, [0,1,1,3]), duplicates allowed or not;
  2. two positions closer together than the tolerance: [0,0,0],[0,0,-0.005],[0,0,-1],[0,0,-3], hint 1 -> [0,0,1,3]; the origin of the
     volume assembled from such frames (`volume_positions.index(0)`) then depended on the order of the frames.
Both must be refused; exact duplicates (when allowed) still share an index.
Run: /venv/bin/python fixes/C11-gaps-planes-share-index/repro.py   (exit 1 while the defect is present)
"""
import sys
sys.path.insert(0, '/verif/harness')
import hd_env; hd_env.setup()
from highdicom.spatial import get_volume_positions

ORI = [1.0, 0.0, 0.0, 0.0, 1.0, 0.0]
bad = 0
for name, rows, kw, refuse in [
        ('in-plane twin, hint', [[0, 0, 0], [0, 0, -1], [7, 3, -1], [0, 0, -3]], {'spacing_hint': 1.0}, True),
        ('in-plane twin, hint, duplicates allowed', [[0, 0, 0], [0, 0, -1], [7, 3, -1], [0, 0, -3]],
         {'spacing_hint': 1.0, 'allow_duplicate_positions': True}, True),
        ('planes 0.005 apart, hint', [[0, 0, 0], [0, 0, -0.005], [0, 0, -1], [0, 0, -3]],
         {'spacing_hint': 1.0, 'allow_duplicate_positions': True}, True),
        ('same, first two swapped', [[0, 0, -0.005], [0, 0, 0], [0, 0, -1], [0, 0, -3]],
         {'spacing_hint': 1.0, 'allow_duplicate_positions': True}, True),
        ('exact duplicate, declared', [[0, 0, 0], [0, 0, 0], [0, 0, -1], [0, 0, -3]],
         {'spacing_hint': 1.0, 'allow_duplicate_positions': True}, False)]:
    sp, vp = get_volume_positions([[float(x) for x in r] for r in rows], ORI, allow_missing_positions=True, **kw)
    ok = (sp is None) == refuse
    print(f'{name}: {sp}, {vp} -> {"ok" if ok else "DEFECT"}')
    bad |= not ok
sys.exit(1 if bad else 0)
