"""C18: a Measurements object with ONE value was accepted for a group of several annotations.

`Measurements.get_values(n)` assigns the stored values with `values[indices] = stored`; numpy broadcasts a
single stored value over all n annotations, so the count check of AnnotationGroup.__init__ never fired and
every annotation silently received that value.  Exit status 1 = defect present."""
import sys
sys.path.insert(0, '/verif/fixes')
from _c18_common import *
try:
    g = group(3, [measurements([5.0])])
    print('accepted; measurements read back as', g.get_measurements()[1].ravel().tolist())
    sys.exit(1)
except ValueError as e:
    print('rejected:', e)
    sys.exit(0)
