"""C07: the 1-bit JPEG 2000 lossless route lets int8 -1 and float32 0.5 through its 0/1 check (then casts to True).
exit 1 = defect present (judged by which exception is raised: the value check must come before the openjpeg import)"""
import sys, warnings
sys.path.insert(0, "/verif/harness")
import hd_env; hd_env.setup()
import numpy as np
from highdicom.frame import encode_frame, decode_frame
from pydicom.uid import ExplicitVRLittleEndian as TS, JPEG2000Lossless
warnings.simplefilter("ignore")

bad = 0
for a in (np.full((32, 32), -1, np.int8), np.full((32, 32), 0.5, np.float32), np.full((32, 32), 2, np.uint8)):
    try:
        encode_frame(a, JPEG2000Lossless, 1, 1, 'MONOCHROME2', 0); print('encoded', a.dtype, a.flat[0]); bad += 1
    except ValueError as e:
        print('refused', a.dtype, a.flat[0], '-', e)
    except ModuleNotFoundError:
        print('passed the value check (reached the openjpeg import):', a.dtype, a.flat[0]); bad += 1
sys.exit(1 if bad else 0)
