"""number_of_segments of a label map is one too small: segment_numbers already excludes the background."""
import sys
sys.path.insert(0, '/verif/fixes')
from _c02_common import *
m = np.zeros((3, 3, 4), np.uint8)
m[0, 0, :3] = [1, 2, 3]
seg = mk(m, 'LABELMAP', [1, 2, 3])
print('segment_numbers', seg.segment_numbers, 'number_of_segments', seg.number_of_segments, '(expected 3)')
sys.exit(0 if seg.number_of_segments == 3 else 1)
