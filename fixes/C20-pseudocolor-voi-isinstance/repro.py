"""PseudoColorSoftcopyPresentationState(voi_lut_transformations=[SoftcopyVOILUTTransformation(...)]) raised
TypeError('isinstance() arg 2 must be a type ...'): the constructor tested isinstance(v, voi_lut_transformations).
Found by the C20 object generator (constructor refused valid arguments)."""
import sys
sys.path.insert(0, '/verif/harness')
import hd_env
hd_env.setup()
import random
import numpy as np
from gen import objects
for i in range(200):
    s = objects.subject_pr(random.Random(i), np.random.default_rng(i))
    if s['variant'][0] == 'pseudo' and 'voi_lut_transformations' in s['variant'][1]:
        s['call'](**s['inputs'])
        print('ok: constructed', s['variant'])
        break
