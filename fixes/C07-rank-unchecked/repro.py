"""C07: encode_frame accepts a 4-D array natively; decode_frame returns a different array.  exit 1 = defect present"""
import sys, warnings
sys.path.insert(0, "/verif/harness")
import hd_env; hd_env.setup()
import numpy as np
from highdicom.frame import encode_frame, decode_frame
from pydicom.uid import ExplicitVRLittleEndian as TS, JPEG2000Lossless
warnings.simplefilter("ignore")

a = np.arange(36, dtype=np.uint8).reshape(2, 3, 3, 2)
try:
    b = encode_frame(a, TS, 8, 8, 'RGB', 0, 0)
except (ValueError, IndexError) as e:
    print('refused:', e); sys.exit(0)
d = decode_frame(b, TS, 2, 3, 3, 8, 8, 'RGB', 0, 0)
print('accepted', len(b), 'bytes; decoded shape', d.shape, 'equal' if d.shape == a.shape and np.array_equal(d, a) else 'DIFFERENT')
sys.exit(1)
