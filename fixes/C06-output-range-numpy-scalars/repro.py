"""C06 defect: `apply_voi_window` casts window centre / width to the requested dtype but not the output range.
With `voi_output_range` given as numpy float64 scalars (e.g. `(arr.min(), arr.max())` or an ndarray - np.float64
*is* a float) and dtype float32 the result is promoted to float64, and the Modality-LUT + window path of
`_CombinedPixelTransform` (which casts its effective table with casting='safe') refuses the read with
"Cannot cast array data from dtype('float64') to dtype('float32')".  The same call with Python floats works.
Run: /venv/bin/python fixes/C06-output-range-numpy-scalars/repro.py   (exit 1 while the defect is present)
"""
import sys
sys.path.insert(0, '/verif/fixes')
import numpy as np
from _c06_common import image, report
from highdicom.pixels import apply_voi_window

P = {'bits': 8, 'photometric': 'MONOCHROME2', 'frames': [[[0, 19, 20]]],
     'T': {'mod_lut': {'first': 19, 'bits': 8, 'data': [63, 27]},
           'window': [{'place': 'image', 'vals': [{'c': ['45'], 'w': ['64'], 'fn': 'LINEAR_EXACT'}]}]}}
im = image(P)
want = im.get_frame(1, apply_voi_transform=True, dtype=np.float32, voi_output_range=(22.0, 26.0))
bad = 0
for rng in ((np.float64(22.0), np.float64(26.0)), np.array([22.0, 26.0])):
    try:
        got = im.get_frame(1, apply_voi_transform=True, dtype=np.float32, voi_output_range=rng)
        report(got, want)
        bad |= not np.array_equal(got, want)
    except Exception as e:  # noqa: BLE001
        report(f'{type(e).__name__}: {e}', want)
        bad = 1
out = apply_voi_window(np.array([1, 2], dtype=np.uint8), 2.0, 4.0, output_range=(np.float64(0), np.float64(1)), dtype=np.float32)
print('apply_voi_window dtype:', out.dtype)
bad |= out.dtype != np.float32
sys.exit(bad)
