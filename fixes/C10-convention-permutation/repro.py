"""_transform_affine_to_convention / Volume.get_affine(output_convention=...) raised
ValueError('tuple.index(x): x not in tuple') for 24 of the 48 target conventions (e.g. 'FLP', 'HAR'):
the flip flags are indexed by the axes of the *source* convention but were zipped with the letters of the
*target* convention.  Expected: row i of the result is the coordinate along target letter i."""
import sys, itertools
sys.path.insert(0, '/verif/harness')
import hd_env; hd_env.setup()
import numpy as np
from highdicom.spatial import _transform_affine_to_convention, rotation_for_patient_orientation
A = np.array([[2., 0, 0, 1], [0, 3., 0, 2], [0, 0, 4., 3], [0, 0, 0, 1]])
bad = []
for perm in itertools.permutations([('L', 'R'), ('P', 'A'), ('H', 'F')]):
    for pick in itertools.product((0, 1), repeat=3):
        to = ''.join(p[k] for p, k in zip(perm, pick))
        try:
            out = _transform_affine_to_convention(A, (3, 4, 5), 'LPH', to)
        except Exception as e:
            bad.append((to, repr(e)))
            continue
        want = np.eye(4)
        want[:3, :] = rotation_for_patient_orientation(to).T @ A[:3, :]
        if not np.array_equal(out, want):
            bad.append((to, 'wrong'))
print(len(bad), 'of 48 target conventions fail', bad[:4])
assert not bad
