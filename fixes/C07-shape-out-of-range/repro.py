"""C07: encode_frame accepts frames with 0 or more than 65535 rows / columns; decode_frame refuses them.  exit 1 = defect present"""
import sys, warnings
sys.path.insert(0, "/verif/harness")
import hd_env; hd_env.setup()
import numpy as np
from highdicom.frame import encode_frame, decode_frame
from pydicom.uid import ExplicitVRLittleEndian as TS, JPEG2000Lossless
warnings.simplefilter("ignore")

bad = 0
for a in (np.ones((70000, 1), np.uint8), np.ones((0, 3), np.uint8), np.ones((1, 65536), np.uint8)):
    try:
        b = encode_frame(a, TS, 8, 8, 'MONOCHROME2', 0)
    except ValueError as e:
        print('refused', a.shape, '-', e); continue
    try:
        decode_frame(b, TS, a.shape[0], a.shape[1], 1, 8, 8, 'MONOCHROME2', 0); print('accepted and decoded', a.shape)
    except Exception as e:  # noqa: BLE001
        print('accepted', a.shape, len(b), 'bytes, but decode_frame:', str(e)[:90]); bad += 1
ok = encode_frame(np.ones((65535, 1), np.uint8), TS, 8, 8, 'MONOCHROME2', 0)
print('65535 x 1 still accepted:', len(ok), 'bytes')
sys.exit(1 if bad else 0)
