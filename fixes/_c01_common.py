"""Shared by the C01 repro scripts: environment + tiny helpers."""
import os
import sys
import warnings
sys.path.insert(0, os.path.join(os.path.dirname(os.path.abspath(__file__)), '..', 'harness'))
import hd_env  # noqa: E402
hd_env.setup()
warnings.simplefilter('ignore')
import highdicom as hd  # noqa: E402
from gen.sources import ct_series, seg_description  # noqa: E402


def make(src, mask, typ, segs, **kw):
    return hd.seg.Segmentation(src, mask, typ, [seg_description(s) for s in segs], hd.UID(), 1, hd.UID(), 1,
                               'm', 'mm', '1', 'sn', **kw)
