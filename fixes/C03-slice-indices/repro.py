"""C03 defect (a): Image._standardize_slice_indices
  1. 1-based request slice_start=1 together with any slice_end raises ValueError() (tests `slice_start == 0`
     after slice_start was already made zero-based; `slice_end == 0` is meant);
  2. a negative start below -n is not refused: (-6, None, n=5, as_indices=True) returns (-1, 5), which
     get_volume then uses as a Python slice -> last slice only, at the wrong origin / IndexError.
Run: /venv/bin/python fixes/C03-slice-indices/repro.py   (exit 1 while the defect is present)
"""
import sys
sys.path.insert(0, '/verif/harness')
import hd_env; hd_env.setup()
import numpy as np
import highdicom as hd
from gen.sources import enhanced_multiframe

bad = 0
f = hd.Image._standardize_slice_indices
try:
    r = f(1, 3, 5, False)
    print('(1,3,n=5,1-based) ->', r, '(expected (0, 2))')
    bad |= r != (0, 2)
except Exception as e:  # noqa: BLE001
    print('(1,3,n=5,1-based) raised', repr(e), ' expected (0, 2)')
    bad = 1
try:
    r = f(-6, None, 5, True)
    print('(-6,None,n=5,as_indices) ->', r, ' expected refusal')
    bad = 1
except Exception as e:  # noqa: BLE001
    print('(-6,None,n=5,as_indices) refused', type(e).__name__)
try:
    r = f(2, 0, 5, False)
    print('(2,0,n=5,1-based) ->', r, ' expected refusal (0 is no 1-based number)')
except Exception as e:  # noqa: BLE001
    print('(2,0,n=5,1-based) refused', type(e).__name__)
# through the public API
ds = enhanced_multiframe(5, 2, 4, slice_spacing=2.0)
im = hd.Image.from_dataset(ds, copy=False)
full = im.get_volume(apply_modality_transform=False)
try:
    v = im.get_volume(slice_start=1, slice_end=3, apply_modality_transform=False)
    ok = np.array_equal(v.array, full.array[0:2]) and np.allclose(v.affine, full[0:2].affine)
    print('Image.get_volume(slice_start=1, slice_end=3):', 'ok' if ok else 'WRONG')
    bad |= not ok
except Exception as e:  # noqa: BLE001
    print('Image.get_volume(slice_start=1, slice_end=3) raised', repr(e))
    bad = 1
try:
    v = im.get_volume(slice_start=-6, as_indices=True, apply_modality_transform=False)
    print('Image.get_volume(slice_start=-6, as_indices=True) accepted: shape', v.array.shape, 'origin', v.affine[:3, 3])
    bad = 1
except Exception as e:  # noqa: BLE001
    print('Image.get_volume(slice_start=-6, as_indices=True) refused:', type(e).__name__)
sys.exit(bad)
