"""C06 defect: when no transform applies (none present / all switched off / rescale 1, 0) the stored values are
cast to the requested integer output type without the capacity check every rescale gets
(`_check_rescale_dtype`): get_frame(dtype=uint8) on stored 300 returns 44, dtype=int16 on 65535 returns -1.
Expected: a refusal when a value does not fit (values that fit are returned unchanged).
Run: /venv/bin/python fixes/C06-identity-narrowing-wrap/repro.py   (exit 1 while the defect is present)
"""
import sys
sys.path.insert(0, '/verif/fixes')
import numpy as np
from _c06_common import image, report

bad = 0
P = {'bits': 16, 'photometric': 'MONOCHROME2', 'frames': [[[300, 31171]], [[7, 255]]], 'T': {}}
im = image(P)
for dt in (np.uint8, np.int16):
    try:
        got = im.get_frame(1, dtype=dt, apply_modality_transform=False)
        report(got, f'ValueError ({np.dtype(dt)} cannot hold 300 / 31171)') if dt is np.uint8 else report(got, [[300, 31171]])
        bad |= not np.array_equal(got, [[300, 31171]])
    except ValueError as e:
        print(np.dtype(dt), 'refused:', e)
got = im.get_frame(2, dtype=np.uint8)
report(got, [[7, 255]])
bad |= not np.array_equal(got, [[7, 255]])
P2 = dict(P, T={'rescale': [{'place': 'image', 'vals': [['1', '0']]}]}, frames=[[[65535, 5]]])
try:
    got = image(P2).get_frame(1, dtype=np.int16)
    report(got, 'ValueError (int16 cannot hold 65535)')
    bad = 1
except ValueError as e:
    print('rescale 1/0 into int16 refused:', e)
sys.exit(bad)
