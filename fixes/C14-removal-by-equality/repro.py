"""Deleting an item removed the first EQUAL entry from the look-up table: with [a, deepcopy(a)], after del s[1] find()
returns the copy - an object that is no longer in the sequence.  Exit 1 while the defect is present."""
import os
import sys
sys.path.insert(0, os.path.join(os.path.dirname(os.path.abspath(__file__)), ".."))
from _c14_common import *  # noqa: E402,F401,F403

import copy
a = text(0, 1)
a2 = copy.deepcopy(a)
s = ContentSequence([a, a2])
del s[1]
found = s.find(name(0))
print('s[0] is a:', s[0] is a, ' find(name)[0] is a:', found[0] is a, ' is the deleted copy:', found[0] is a2)
sys.exit(0 if found[0] is a else 1)
