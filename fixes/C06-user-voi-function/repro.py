"""C06 defect: a user-supplied `VOILUTTransformation` passed as `voi_transform_selector` is applied with the
LINEAR function whatever its own VOILUTFunction says (`voi_function` is only read from the image's datasets).
Input: stored 0..5 (no modality transform), VOILUTTransformation(center 2, width 4, LINEAR_EXACT):
expected (x - 2) / 4 + 0.5 clipped = 0, .25, .5, .75, 1, 1; LINEAR gives (x - 1.5) / 3 + 0.5.
Run: /venv/bin/python fixes/C06-user-voi-function/repro.py   (exit 1 while the defect is present)
"""
import sys
sys.path.insert(0, '/verif/fixes')
import numpy as np
import highdicom as hd
from _c06_common import image, report

P = {'bits': 8, 'photometric': 'MONOCHROME2', 'frames': [[[0, 1, 2], [3, 4, 5]]], 'T': {}}
tr = hd.VOILUTTransformation(window_center=2.0, window_width=4.0, voi_lut_function='LINEAR_EXACT')
got = image(P).get_frame(1, apply_voi_transform=True, voi_transform_selector=tr)
want = np.clip((np.array(P['frames'][0], dtype=float) - 2) / 4 + 0.5, 0, 1)
report(got, want)
ok = np.array_equal(got, want)
# the standalone object agrees with the expectation
assert np.array_equal(tr.apply(np.array(P['frames'][0], dtype=np.uint8)), want)
sys.exit(0 if ok else 1)
