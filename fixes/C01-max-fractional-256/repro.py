"""max_fractional_value = 256 passes the check `> 2**8` although stored values are 8-bit: 1.0 is stored as
256 mod 256 = 0 and MaximumFractionalValue = 256 is written.  Exit 1 while the defect is present."""
import os
import sys
sys.path.insert(0, os.path.join(os.path.dirname(os.path.abspath(__file__)), '..'))
from _c01_common import ct_series, make  # noqa: E402
import numpy as np  # noqa: E402

src = ct_series(1, 2, 2)
mask = np.array([[[1.0, 0.5], [0.0, 1.0]]])
try:
    seg = make(src, mask, 'FRACTIONAL', [1], max_fractional_value=256)
except ValueError as e:
    print('refused:', e)
    sys.exit(0)
out = seg.get_pixels_by_source_instance([src[0].SOPInstanceUID])[..., 0]
print('accepted; read back', out.tolist(), 'for input', mask.tolist())
sys.exit(0 if np.allclose(out, mask) else 1)
