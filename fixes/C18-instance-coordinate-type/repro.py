"""C18-instance-coordinate-type: MicroscopyBulkSimpleAnnotations accepted groups whose coordinates have another
dimensionality than annotation_coordinate_type; the written file then read back coordinates that were never stored.

Before the fix: three 2-D POINTs in a '3D' instance -> accepted; annread(...).get_graphic_data('3D') -> [[1,2,3]], [[4,5,6]];
two 3-D points (varying z) in a '2D' instance -> accepted; read back as three 2-D points.
After the fix (/repo d17b77f): both constructions raise ValueError.

Run: HD_REPO=<repo> /venv/bin/python fixes/C18-instance-coordinate-type/repro.py   (exit 1 = defect present)
"""
import os
import sys

sys.path.insert(0, os.path.join(os.path.dirname(os.path.abspath(__file__)), '..', '..', 'harness'))
import hd_env  # noqa: E402

hd_env.setup()
import numpy as np  # noqa: E402
sys.path.insert(0, os.path.join(os.path.dirname(os.path.abspath(__file__)), '..', '..', 'harness', 'corr'))
import C18  # noqa: E402

base = {'number': 1, 'uid': '1.2.826.0.1.3680043.10.511.4.1', 'label': 'w', 'gtype': 'POINT', 'meas': [], 'alg': None,
        'category': 0, 'ptype': 2, 'algorithm_type': 'MANUAL', 'description': None, 'dtype': 'f4'}
two_d = dict(base, dim=2, zclass='-', counts=[1, 1, 1],
             coords=[np.array([[1.0, 2.0]], np.float32), np.array([[3.0, 4.0]], np.float32), np.array([[5.0, 6.0]], np.float32)])
three_d = dict(base, dim=3, zclass='vary', counts=[1, 1],
               coords=[np.array([[1.0, 2.0, 3.0]], np.float32), np.array([[4.0, 5.0, 6.0]], np.float32)])
bad = 0
for spec, ct in ((two_d, '3D'), (three_d, '2D')):
    try:
        C18._build_sop([C18._build_group(spec)], ct)
        print(f"{spec['dim']}-D group accepted in a {ct} instance")
        bad = 1
    except ValueError as e:
        print(f"{spec['dim']}-D group refused in a {ct} instance: {e}")
sys.exit(bad)
