"""OPEN.  No highdicom constructor sets SpecificCharacterSet, and the string guards accept any non-control character.  A text
argument outside ISO 8859-1 (e.g. series_description='中文' or 'Ωμέγα') therefore yields an object that pydicom cannot write
(under writing_validation_mode = RAISE the encoder raises; otherwise the characters are replaced and the file does not read
back equal).  Latin-1 text ('Größe') is written and read back correctly with pydicom's default character set.
Not repaired here: the repair (declare ISO_IR 192 on every object, or refuse such text in the guards) changes the output or
the accepted inputs of every constructor - a decision for the maintainers."""
import sys
sys.path.insert(0, '/verif/harness')
sys.path.insert(0, '/verif')
import hd_env
hd_env.setup()
import logging
import numpy as np
import highdicom as hd
from gen import sources
from corr import C20
logging.disable(logging.CRITICAL)
src = sources.ct_series(2, 4, 4)
seg = hd.seg.Segmentation(src, np.ones((2, 4, 4), np.uint8), 'BINARY', [sources.seg_description(1)],
                          series_instance_uid=hd.UID(), series_number=1, sop_instance_uid=hd.UID(), instance_number=1,
                          manufacturer='m', manufacturer_model_name='mm', software_versions='1', device_serial_number='1',
                          series_description='中文')
msg, _ = C20.file_clause(seg)
print('KNOWN DEFECT:' if msg else 'ok', msg)
sys.exit(1 if msg else 0)
