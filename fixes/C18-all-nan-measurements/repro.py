"""C18: a measurement vector that is absent (NaN) for EVERY annotation could be stored but not read back.

Measurements(values=[nan, nan]) stores zero-length FloatingPointValues / AnnotationIndexList; pydicom reads a
zero-length binary element back as None and `Measurements.get_values` handed None to numpy.frombuffer
(TypeError), so `get_measurements()` of the parsed group failed.  Exit status 1 = defect present."""
import sys
sys.path.insert(0, '/verif/fixes')
from _c18_common import *
g = group(2, [measurements([np.nan, np.nan])])
print('fresh :', g.get_measurements()[1].tolist())
g2 = written_and_read(g)
try:
    v = g2.get_measurements()[1]
    print('parsed:', v.tolist())
    sys.exit(0 if v.shape == (2, 1) and np.isnan(v).all() else 1)
except Exception as e:
    print('parsed: get_measurements raised', type(e).__name__, e)
    sys.exit(1)
