"""C06 defect: the guard in front of the "rescale folded into a VOI LUT" branch of `_CombinedPixelTransform`
reads `not intercept.is_integer() and slope.is_integer()`, i.e. (not a) and b.  A non-integer slope with an
integer intercept passes, is truncated by int(slope) and the table is applied as if the slope were 1.
Input: RescaleSlope 1.5, RescaleIntercept 0, VOI LUT first 0, data [0, 10, 20, 30, 40, 50, 60, 64], stored 0..5:
modality values 0, 1.5, 3, 4.5, ... are not table positions (the message of the guard says so); the library
returned the table looked up at the stored values.
Run: /venv/bin/python fixes/C06-voilut-rescale-guard/repro.py   (exit 1 while the defect is present)
"""
import sys
sys.path.insert(0, '/verif/fixes')
from _c06_common import image, report

P = {'bits': 8, 'photometric': 'MONOCHROME2', 'frames': [[[0, 1, 2], [3, 4, 5]]],
     'T': {'rescale': [{'place': 'image', 'vals': [['3/2', '0']]}],
           'voi_luts': [{'first': 0, 'bits': 8, 'data': [0, 10, 20, 30, 40, 50, 60, 64]}]}}
try:
    got = image(P).get_frame(1, apply_voi_transform=True)
    report(got, 'ValueError (non-integer rescale cannot be folded into a table)')
    sys.exit(1)
except ValueError as e:
    print('refused:', e)
    sys.exit(0)
