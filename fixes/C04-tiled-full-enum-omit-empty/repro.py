"""C04 defect: Segmentation(tile_pixel_array=True, dimension_organization_type=<enum TILED_FULL>, omit_empty_frames=True)
crashes with "TypeError: 'NoneType' object is not subscriptable".

The constructor skips building the plane positions when the *enum member* TILED_FULL is passed (the string 'TILED_FULL'
does not compare equal to the member at that point, so with the string they are built), but `_get_nonempty_tile_indices`
needs them when omit_empty_frames is set.  So the two spellings of one option behave differently:
  string + all-empty mask  -> accepted (omit_empty_frames is switched off for an empty mask), reads back as zeros
  enum   + all-empty mask  -> TypeError
  string + non-empty mask  -> ValueError 'Parameter "omit_empty_frames" should be False ...' (designed refusal)
  enum   + non-empty mask  -> TypeError
Run:  /venv/bin/python fixes/C04-tiled-full-enum-omit-empty/repro.py     (exit 1 while the defect is present)
"""
import os
import sys
sys.path.insert(0, os.path.join(os.path.dirname(os.path.abspath(__file__)), '..', '..', 'harness'))
import hd_env
hd_env.setup()
import numpy as np
import highdicom as hd
from gen.sources import seg_description, slide_image

src, _ = slide_image(7, 1, 4, 1, tiled_full=True)
out = {}
for name, mask in [('all-empty', np.zeros((1, 7, 1), dtype=np.uint8)), ('non-empty', np.array([0, 1, 0, 0, 0, 0, 1], dtype=np.uint8).reshape(1, 7, 1))]:
    for spelling, org in [('string', 'TILED_FULL'), ('enum', hd.DimensionOrganizationTypeValues.TILED_FULL)]:
        try:
            seg = hd.seg.Segmentation([src], mask, 'LABELMAP', [seg_description(1)], hd.UID(), 1, hd.UID(), 1, 'm', 'mm', '1', 'dev',
                                      tile_pixel_array=True, dimension_organization_type=org, omit_empty_frames=True)
            back = seg.get_total_pixel_matrix(combine_segments=True)
            out[name, spelling] = 'accepted, reads back equal: ' + str(np.array_equal(back, mask[0]))
        except Exception as e:  # noqa: BLE001
            out[name, spelling] = type(e).__name__
        print(name, spelling, '->', out[name, spelling])
bad = any(out[n, 'string'] != out[n, 'enum'] for n in ('all-empty', 'non-empty'))
sys.exit(1 if bad else 0)
