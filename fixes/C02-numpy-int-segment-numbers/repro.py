"""segment_numbers given as numpy integers (e.g. taken from np.unique / seg.segment_numbers arrays): with
combine_segments=True (no relabel) the values go into the channel table as remapped output channel indices; sqlite3
stores numpy integers as blobs, and the read fails with `ValueError: invalid literal for int()`; plain ints work."""
import sys
sys.path.insert(0, '/verif/fixes')
from _c02_common import *
m = np.zeros((3, 3, 4, 3), np.uint8)
m[0, 0, 0, 0] = 1
m[0, 0, 1, 1] = 1
m[0, 0, 2, 2] = 1
seg = mk(m, 'BINARY', [1, 2, 3])
want = seg.get_pixels_by_source_instance(UIDS, segment_numbers=[3, 1], combine_segments=True)[0, 0].tolist()
bad = 0
for name, nums in (('np.int64', [np.int64(3), np.int64(1)]), ('np.uint16', [np.uint16(3), np.uint16(1)]),
                   ('ndarray', np.array([3, 1])), ('np.int64 stacked', [np.int64(3), np.int64(1)])):
    kw = {} if 'stacked' in name else {'combine_segments': True}
    try:
        out = seg.get_pixels_by_source_instance(UIDS, segment_numbers=nums, **kw)
        ok = out[0, 0].tolist() == want if kw else out.shape[-1] == 2 and out[0, 0, 2, 0] == 1 and out[0, 0, 0, 1] == 1
        print(name, '->', 'ok' if ok else 'WRONG', out[0, 0].tolist() if kw else '')
        bad += not ok
    except Exception as e:  # noqa: BLE001
        print(name, '->', type(e).__name__, str(e)[:80])
        bad += 1
print('plain ints ->', want)
sys.exit(1 if bad else 0)
