"""get_volume(segment_numbers=<ndarray or list of numpy integers>) without combining: the channel descriptor of the returned
Volume demands Python ints and the read fails with TypeError; plain ints work."""
import sys
sys.path.insert(0, '/verif/fixes')
from _c02_common import *
m = np.zeros((3, 3, 4, 3), np.uint8)
m[:, 0, 0, 0] = 1
m[:, 0, 2, 2] = 1
seg = mk(m, 'BINARY', [1, 2, 3])
want = seg.get_volume(segment_numbers=[3, 1]).array
bad = 0
for name, nums in (('ndarray', np.array([3, 1])), ('np.int64', [np.int64(3), np.int64(1)]), ('np.uint16', [np.uint16(3), np.uint16(1)])):
    try:
        v = seg.get_volume(segment_numbers=nums)
        ok = np.array_equal(v.array, want)
        print(name, '->', 'ok' if ok else 'WRONG')
        bad += not ok
    except Exception as e:  # noqa: BLE001
        print(name, '->', type(e).__name__, str(e)[:90])
        bad += 1
sys.exit(1 if bad else 0)
