"""`_check_code_string` accepted a value with a trailing newline ('ABC\\n'): its first regular expression ended in `$`,
which in Python also matches just before a final newline.  Such a value is not a valid CS (PS3.5 6.2: uppercase
letters, digits, space, underscore only).  Fixed by anchoring with `\\Z`."""
import sys
sys.path.insert(0, '/verif/harness')
import hd_env
hd_env.setup()
from highdicom.valuerep import _check_code_string
try:
    _check_code_string('ABC\n')
    print('DEFECT: "ABC\\n" accepted as a code string')
    sys.exit(1)
except ValueError:
    print('ok: rejected')
