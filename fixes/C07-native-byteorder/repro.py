"""C07/C19: native encoding writes the array's in-memory bytes; an array with big-endian dtype ('>u2', '>f4') is
stored byte-swapped although the transfer syntax is little endian.  exit 1 = defect present"""
import sys, warnings
sys.path.insert(0, '/verif/harness')
import hd_env; hd_env.setup()
import numpy as np
from highdicom.frame import encode_frame, decode_frame
from pydicom.uid import ExplicitVRLittleEndian as TS
warnings.simplefilter('ignore')
a = np.array([[1, 2, 3, 4]], dtype='>u2')
b = encode_frame(a, TS, 16, 16, 'MONOCHROME2', 0)
d = decode_frame(b, TS, 1, 4, 1, 16, 16, 'MONOCHROME2', 0)
print('input', a.tolist(), 'decoded', d.tolist())
sys.exit(0 if np.array_equal(d, a) else 1)
