"""Open finding C02-segment-number-not-a-dimension: a BINARY segmentation that carries the Segment Identification macro only in
the shared functional groups (single segment; ReferencedSegmentNumber not a dimension index) cannot be read by segment."""
import sys; sys.path.insert(0, '/verif/harness')
import hd_env; hd_env.setup()
import copy, io
import numpy as np, highdicom as hd, pydicom
from gen.sources import ct_series
from pydicom.sr.coding import Code

src = ct_series(2, 3, 3)
desc = hd.seg.SegmentDescription(segment_number=1, segment_label='s', segmented_property_category=Code('T-1', '99V', 'a'),
                                 segmented_property_type=Code('T-2', '99V', 'b'), algorithm_type='MANUAL')
mask = np.zeros((2, 3, 3), np.uint8); mask[0, 1, 1] = 1; mask[1, 0, 2] = 1
seg = hd.seg.Segmentation(source_images=src, pixel_array=mask, segmentation_type='BINARY', segment_descriptions=[desc],
                          series_instance_uid=hd.UID(), series_number=2, sop_instance_uid=hd.UID(), instance_number=1,
                          manufacturer='v', manufacturer_model_name='v', software_versions='1', device_serial_number='1')
ds = copy.deepcopy(seg)
sis = copy.deepcopy(ds.PerFrameFunctionalGroupsSequence[0].SegmentIdentificationSequence)
for it in ds.PerFrameFunctionalGroupsSequence:
    del it.SegmentIdentificationSequence
    it.FrameContentSequence[0].DimensionIndexValues = list(it.FrameContentSequence[0].DimensionIndexValues)[1:]
ds.SharedFunctionalGroupsSequence[0].SegmentIdentificationSequence = sis
ds.DimensionIndexSequence = pydicom.Sequence(list(ds.DimensionIndexSequence)[1:])
b = io.BytesIO(); ds.save_as(b)
s2 = hd.seg.Segmentation.from_dataset(pydicom.dcmread(io.BytesIO(b.getvalue())), copy=False)
uids = [s.SOPInstanceUID for s in src]
try:
    print(s2.get_pixels_by_source_instance(uids, combine_segments=True))
    print('read accepted')
    sys.exit(0)
except Exception as e:  # noqa: BLE001
    print('refused:', type(e).__name__, e)
    sys.exit(1)
