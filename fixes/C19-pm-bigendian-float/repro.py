"""C19: ParametricMap writes the in-memory bytes of the array: a float32 / float64 array with big-endian dtype is
accepted (dtype.name == 'float32') and stored byte-swapped.  exit 1 = defect present"""
import sys; sys.path.insert(0, '/verif/fixes')
from _c19_common import *
src = ct_series(2, 3, 4)
bad = 0
for dt in ('>f4', '>f8'):
    arr = np.arange(24).reshape(2, 3, 4).astype(dt)
    try:
        pm = pmap(arr, [lin('a', 1.0, 0.0, (-1e9, 1e9))], src)
    except Exception as e:  # noqa: BLE001
        print(dt, 'refused:', e); continue
    back = pydicom.dcmread(io.BytesIO(written(pm))).pixel_array
    same = np.array_equal(back, arr)
    print(dt, 'stored ->', back.reshape(-1)[:4].tolist(), 'OK' if same else 'DIFFERENT from input %s' % arr.reshape(-1)[:4].tolist())
    bad += not same
sys.exit(1 if bad else 0)
