"""SCOORD / SCOORD3D content items, presentation-state GraphicObject / TextObject / BlendingDisplay stored Python doubles in
elements of VR FL (GraphicData, BoundingBox*, AnchorPoint, RelativeOpacity).  Written strictly and read back, the element no
longer equals the in-memory one (1/3 -> 0.3333333432674408): "reads back element for element equal" failed for every
coordinate that is not a 32-bit float.  Fixed by storing the float32-representable value."""
import sys
sys.path.insert(0, '/verif/harness')
import hd_env
hd_env.setup()
import numpy as np
import highdicom as hd
from highdicom import sr
from pydicom.sr.codedict import codes
item = sr.Scoord3DContentItem(name=codes.DCM.ImageRegion, graphic_type=sr.GraphicTypeValues3D.POINT,
                              graphic_data=np.array([[1 / 3, 2 / 3, 1e-9]]), frame_of_reference_uid=hd.UID(),
                              relationship_type=sr.RelationshipTypeValues.CONTAINS)
vals = list(item.GraphicData)
ok = all(float(np.float32(v)) == float(v) for v in vals)
print(vals, 'encodable' if ok else 'DEFECT: not representable in the FL element they are stored in')
sys.exit(0 if ok else 1)
