"""16-bit LABELMAP (segment numbers above 255): every read that remaps casts the stored frames to uint8 first
(intermediate dtype from _get_unsigned_dtype(BitsStored) with BitsStored = 16 -> uint8)."""
import sys
sys.path.insert(0, '/verif/fixes')
from _c02_common import *
m = np.zeros((3, 3, 4), np.uint16)
m[0, 0] = [3, 300, 700, 256]
seg = mk(m, 'LABELMAP', [3, 256, 300, 700])
a = seg.get_pixels_by_source_instance(UIDS, segment_numbers=[300, 3], combine_segments=True)[0, 0].tolist()
b = seg.get_pixels_by_source_instance(UIDS, segment_numbers=[300, 3], combine_segments=True, relabel=True)[0, 0].tolist()
c = seg.get_pixels_by_source_instance(UIDS, segment_numbers=[300, 3])[0, 0].tolist()
print('combine          :', a, '(expected [3, 300, 0, 0])')
print('combine + relabel:', b, '(expected [2, 1, 0, 0])')
print('stacked          :', c, '(expected [[0, 1], [1, 0], [0, 0], [0, 0]])')
ok = a == [3, 300, 0, 0] and b == [2, 1, 0, 0] and c == [[0, 1], [1, 0], [0, 0], [0, 0]]
sys.exit(0 if ok else 1)
