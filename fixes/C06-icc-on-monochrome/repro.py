"""C06 defect: a MONOCHROME image that carries an ICC profile cannot be read with the default flags:
`apply_icc_profile=None` means "apply when present", the constructor refuses `True` for monochrome images
("not a color or palette color image") but for `None` still builds the colour manager, whose
`transform_frame` then rejects the 2-D frame ("Array has incorrect dimensions for a color image frame").
Run: /venv/bin/python fixes/C06-icc-on-monochrome/repro.py   (exit 1 while the defect is present)
"""
import sys
sys.path.insert(0, '/verif/fixes')
import numpy as np
from _c06_common import image, report

P = {'bits': 8, 'photometric': 'MONOCHROME2', 'frames': [[[3, 9]]], 'T': {'icc': True}}
try:
    got = image(P).get_frame(1)
except Exception as e:  # noqa: BLE001
    report(f'{type(e).__name__}: {e}', [[3.0, 9.0]])
    sys.exit(1)
report(got, [[3.0, 9.0]])
sys.exit(0 if np.array_equal(got, [[3.0, 9.0]]) else 1)
