"""VolumeToVolumeTransformer.__call__ cast its results back to the dtype of the index array without asking whether that
type can hold them: unsigned inputs were not recognised as integers (float results cast to uint8: [0,0,0] one voxel before
the target origin -> [255,0,0]; [1,3,5] at twice the spacing -> [0,1,2] instead of [.5,1.5,2.5]); rounded results were
cast to a narrow signed input type (int8 index 100 at half the spacing -> -56, and check_bounds=True raised for a point
inside the 300^3 target).  Found by the independent audit (docs/AUDIT_B.md).  Exit 1 = defect present."""
import sys, os
sys.path.insert(0, os.path.join(os.path.dirname(os.path.abspath(__file__)), "..", "..", "harness"))
import hd_env; hd_env.setup()
import numpy as np
from highdicom.volume import VolumeGeometry, VolumeToVolumeTransformer
def G(shape, spacing, pos):
    return VolumeGeometry.from_components(spatial_shape=shape, spacing=spacing, position=pos, direction=np.eye(3),
                                          coordinate_system="PATIENT")
a = G((4, 4, 4), [1., 1., 1.], [0., 0., 0.])
bad = []
r = VolumeToVolumeTransformer(a, G((4, 4, 4), [1., 1., 1.], [1., 0., 0.]))(np.array([[0, 0, 0]], dtype=np.uint8))
print("uint8 [0,0,0], target origin one voxel later ->", r.tolist(), r.dtype); bad.append(r.tolist() != [[-1, 0, 0]])
r = VolumeToVolumeTransformer(a, G((4, 4, 4), [2., 2., 2.], [0., 0., 0.]))(np.array([[1, 3, 5]], dtype=np.uint8))
print("uint8 [1,3,5], target spacing 2 ->", r.tolist(), r.dtype); bad.append(r.tolist() != [[.5, 1.5, 2.5]])
t = VolumeToVolumeTransformer(a, G((300, 300, 300), [.5, .5, .5], [0., 0., 0.]), round_output=True, check_bounds=True)
try:
    r = t(np.array([[100, 0, 0]], dtype=np.int8)); print("int8 [100,0,0], target spacing 1/2 ->", r.tolist(), r.dtype)
    bad.append(r.tolist() != [[200, 0, 0]])
except ValueError as e:
    print("int8 [100,0,0], target spacing 1/2 -> ValueError", e); bad.append(True)
sys.exit(1 if any(bad) else 0)
