"""C06-float-narrowing-wrap: floating-point stored values (parametric map, BitsAllocated 32 / 64) read with an INTEGER output
type and no transform were cast without any range check: 300.7 -> uint8 44, -1.5 -> 255, 1e10 -> 0 (wrapped), although the
same read of integer stored values is refused since 26b662d.  `_check_output_range` required an integer input type."""
import os
import sys

sys.path.insert(0, os.path.join(os.path.dirname(os.path.abspath(__file__)), '..', '..', 'harness'))
import hd_env
hd_env.setup()
import numpy as np
import highdicom as hd
from pydicom.uid import ParametricMapStorage
from gen.pixeltransforms import make_image

P = {'bits': 16, 'signed': False, 'bits_stored': 16, 'photometric': 'MONOCHROME2', 'frames': [[[300, 7, 65535]], [[1, 2, 255]]], 'T': {}}
ds = make_image(P)
ds.SOPClassUID = ParametricMapStorage
ds.file_meta.MediaStorageSOPClassUID = ParametricMapStorage
ds.BitsAllocated = 32
for k in ('BitsStored', 'HighBit', 'PixelData'):
    if k in ds:
        del ds[k]
arr = np.array([[[300.7, -1.5, 7.0]], [[3.0, 2.5, 255.0]]], dtype=np.float32)
ds.FloatPixelData = arr.tobytes()
ds.PixelRepresentation = 0
im = hd.Image.from_dataset(ds)
im.pixel_array      # frame-wise reads of float pixel data only work once the whole array is cached (open finding C05-float-pixel-data-frames)
bad = []
for dt in (np.uint8, np.int16, np.float64):
    for f in (1, 2):
        info = np.iinfo(dt) if np.dtype(dt).kind in 'ui' else None
        fits = info is None or (arr[f - 1].min() >= info.min and arr[f - 1].max() <= info.max)
        try:
            out = im.get_frame(f, dtype=dt, apply_real_world_transform=False)
            ok = fits and np.array_equal(out, arr[f - 1].astype(dt))
            print(dt.__name__, 'frame', f, out.tolist(), 'ok' if ok else 'WRAPPED')
        except ValueError as e:
            ok = not fits
            print(dt.__name__, 'frame', f, 'refused:', str(e)[:60], 'ok' if ok else 'REFUSED ALTHOUGH IT FITS')
        if not ok:
            bad.append((dt.__name__, f))
sys.exit(1 if bad else 0)
