"""Segmentation(...) wrote SpacingBetweenSlices into objects owned by the caller: (a) into the `pixel_measures` argument when it
lacked that attribute, (b) into the *source image* itself (SharedFunctionalGroupsSequence[0].PixelMeasuresSequence[0]) when the
source is a multi-frame image without SpacingBetweenSlices and no pixel_measures is passed.  Found by the alias-flow theorem
`constructors_never_write_arguments` (the extracted program of Segmentation.__init__ writes argument `pixel_measures`; case (b)
is the same statement reached through `pixel_measures = source_pixel_measures`).  Fixed by writing into a copy."""
import sys
sys.path.insert(0, '/verif/harness')
import hd_env
hd_env.setup()
import numpy as np
import highdicom as hd
from gen import sources
bad = 0
ids = dict(series_instance_uid=hd.UID(), series_number=1, sop_instance_uid=hd.UID(), instance_number=1, manufacturer='m',
           manufacturer_model_name='mm', software_versions='1', device_serial_number='1')
mask = np.ones((3, 4, 4), np.uint8)
# (a) caller's pixel_measures
src = sources.ct_series(3, 4, 4)
pm = hd.PixelMeasuresSequence(pixel_spacing=(1.0, 1.0), slice_thickness=1.0)
hd.seg.Segmentation(src, mask, 'BINARY', [sources.seg_description(1)], pixel_measures=pm, **ids)
if 'SpacingBetweenSlices' in pm[0]:
    print('DEFECT (a): the pixel_measures argument now has SpacingBetweenSlices =', pm[0].SpacingBetweenSlices)
    bad = 1
# (b) multi-frame source image
ds = sources.enhanced_multiframe(3, 4, 4)
item = ds.SharedFunctionalGroupsSequence[0].PixelMeasuresSequence[0]
del item.SpacingBetweenSlices
hd.seg.Segmentation([ds], mask, 'BINARY', [sources.seg_description(1)], **ids)
if 'SpacingBetweenSlices' in item:
    print('DEFECT (b): the source image now has SpacingBetweenSlices =', item.SpacingBetweenSlices)
    bad = 1
print('ok' if not bad else 'arguments were altered')
sys.exit(bad)
