"""ContentSequence.find built its result as a non-root sequence through the constructor: on a root sequence
(items without relationship type) and on a non-SR sequence holding an appended item with relationship type it
raised AttributeError instead of returning the items.  Exit 1 while the defect is present."""
import os
import sys
sys.path.insert(0, os.path.join(os.path.dirname(os.path.abspath(__file__)), ".."))
from _c14_common import *  # noqa: E402,F401,F403

root = ContentSequence([container(0)], is_root=True)
r1 = attempt(lambda: len(root.find(name(0))))
ns = ContentSequence(is_sr=False)
ns.append(text(0, 1, 'CONTAINS'))
r2 = attempt(lambda: len(ns.find(name(0))))
print('root.find:', r1, ' non-SR find of an appended item with relationship type:', r2)
sys.exit(0 if r1 == ('ok', 1) and r2 == ('ok', 1) else 1)
