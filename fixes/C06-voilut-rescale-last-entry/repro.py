"""C06 defect: a VOI LUT behind an integer rescale slope m > 1 is folded to `table[::m]`.  Stored values whose
modality value lies above the table must map to the table's LAST entry (PS3.3 C.11.2.1.1), but the strided
table ends at entry m * ((n - 1) // m), so unless m divides n - 1 they get an earlier entry.
Input: slope 3, intercept 0, table first 0, data [0, 8, 16, 24, 32, 40, 48, 64] (n = 8, (n-1) % 3 = 1),
stored 0..5: modality 0, 3, 6, 9, 12, 15 -> entries 0, 3, 6, 7, 7, 7 -> 0, 24, 48, 64, 64, 64 (scaled /64);
the library returned 48/64 for the last three.
Run: /venv/bin/python fixes/C06-voilut-rescale-last-entry/repro.py   (exit 1 while the defect is present)
"""
import sys
sys.path.insert(0, '/verif/fixes')
import numpy as np
from _c06_common import image, report, voilut_ref

data = [0, 8, 16, 24, 32, 40, 48, 64]
stored = [[0, 1, 2], [3, 4, 5]]
P = {'bits': 8, 'photometric': 'MONOCHROME2', 'frames': [stored],
     'T': {'rescale': [{'place': 'image', 'vals': [['3', '0']]}], 'voi_luts': [{'first': 0, 'bits': 8, 'data': data}]}}
got = image(P).get_frame(1, apply_voi_transform=True)
want = voilut_ref(stored, 3, 0, 0, data)
report(got, want)
sys.exit(0 if np.array_equal(got, want) else 1)
