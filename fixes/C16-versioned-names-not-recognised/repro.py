"""C16-versioned-names-not-recognised: a measurement report whose concept names state the version of their coding scheme
(CodingSchemeVersion, type 1C - e.g. (111030, DCM, version "01", "Image Region"); valid, written by several third-party
tools) is only half understood.

`find_content_items` matches a name without version against the code in any version (fix 8ce703a), so the finding / site /
tracking filters work.  But the kind classification of a container without template identification (`_count_roi_items`),
the ROI reference search (`_get_roi_reference_items`, behind every reference-type / graphic-type / referenced-UID filter),
the `reference_type` accessor of both ROI group classes and the exclusion list of `get_qualitative_evaluations` compare
`item.name == <code without version>` with pydicom's equality, which compares the version: a group without template
identification is no longer returned by the query of its kind, a reference-type filter raises RuntimeError ("No content
item representing a valid ROI reference was found"), `reference_type` raises, and the finding / site / method items show up
as qualitative evaluations.
Run: HD_REPO=<repo> /venv/bin/python fixes/C16-versioned-names-not-recognised/repro.py    (exit 1 = defect present)
"""
import os
import random
import sys
sys.path.insert(0, os.path.join(os.path.dirname(os.path.abspath(__file__)), '..', '..', 'harness'))
import hd_env  # noqa: E402
hd_env.setup()
import highdicom as hd  # noqa: E402
from gen import srreports  # noqa: E402


def answers(rep):
    out = {}
    for m, kw in (('get_planar_roi_measurement_groups', {}),
                  ('get_planar_roi_measurement_groups', {'reference_type': hd.sr.CodedConcept('111030', 'DCM', 'Image Region')}),
                  ('get_planar_roi_measurement_groups', {'reference_type': hd.sr.CodedConcept('130488', 'DCM', 'Region in Space')})):
        try:
            out[(m, tuple(kw))] = [str(s.tracking_uid) for s in getattr(rep, m)(**kw)]
        except Exception as e:  # noqa: BLE001
            out[(m, tuple(kw))] = f'{type(e).__name__}: {e}'
    try:
        g = rep.get_planar_roi_measurement_groups()[0]
        out['accessors'] = (str(g.reference_type.value), [str(e.name.value) for e in g.get_qualitative_evaluations()])
    except Exception as e:  # noqa: BLE001
        out['accessors'] = f'{type(e).__name__}: {e}'
    return out


r = random.Random(5)
rep, groups, pool = srreports.report(r, 3, ('planar', 'volumetric'))
print('groups:', [(g['kind'], 'template id' if g['template'] else 'no template id', g['ref']['type']) for g in groups])
before = answers(rep)
root = rep[0]
for cont in [g for it in root.ContentSequence if it.ConceptNameCodeSequence[0].CodeValue == '126010' for g in it.ContentSequence]:
    for it in cont.ContentSequence:
        it.ConceptNameCodeSequence[0].CodingSchemeVersion = '01'
after = answers(rep)
bad = 0
for k in before:
    same = before[k] == after[k]
    print(k, '\n   as constructed      :', before[k], '\n   names with version  :', after[k], '' if same else '   <-- DIFFERS')
    bad += not same

# ---- part 2 (third review): the version on EVERY concept name of the tree (root, contexts, containers, groups, children), the
# report inside a Comprehensive 3D SR document, written and read with srread
import io  # noqa: E402
import pydicom  # noqa: E402
from gen import srdocs  # noqa: E402


def version_all(ds):
    if 'ConceptNameCodeSequence' in ds:
        ds.ConceptNameCodeSequence[0].CodingSchemeVersion = '01'
    for x in ds.get('ContentSequence', []):
        version_all(x)


def document(rep_, groups_, pool_, versioned):
    refs = []
    for g in groups_:
        for x in srreports.all_references(g):
            if x not in refs:
                refs.append(x)
    base = pool_['base']
    evidence = [srdocs.evidence_dataset(base + '.0', base + '.0.1', i, cls, image=True) for cls, i in refs] + list(pool_.get('library', []))
    doc = hd.sr.Comprehensive3DSR(evidence=evidence, content=rep_[0], series_instance_uid=base + '.5', series_number=5,
                                  sop_instance_uid=base + '.5.1', instance_number=1, manufacturer='verif')
    bio = io.BytesIO()
    doc.save_as(bio)
    ds = pydicom.dcmread(io.BytesIO(bio.getvalue()))
    if versioned:
        version_all(ds)
    out = io.BytesIO()
    ds.save_as(out)
    return hd.sr.srread(io.BytesIO(out.getvalue())).content


def answers2(content):
    out = {}
    for m in ('get_planar_roi_measurement_groups', 'get_volumetric_roi_measurement_groups', 'get_image_measurement_groups'):
        try:
            out[m] = [str(s.tracking_uid) for s in getattr(content, m)()]
        except Exception as e:  # noqa: BLE001
            out[m] = f'{type(e).__name__}: {e}'[:120]
    try:
        out['observer contexts'] = len(content.get_observer_contexts())
        out['subject contexts'] = len(content.get_subject_contexts())
    except Exception as e:  # noqa: BLE001
        out['contexts'] = f'{type(e).__name__}: {e}'[:120]
    return out


r = random.Random(5)
rep, groups, pool = srreports.report(r, 3, ('planar', 'volumetric'))
plain, versioned = answers2(document(rep, groups, pool, False)), answers2(document(rep, groups, pool, True))
for k in plain:
    same = plain[k] == versioned.get(k)
    print(k, '\n   plain document             :', plain[k], '\n   every name with version 01 :', versioned.get(k), '' if same else '   <-- DIFFERS')
    bad += not same
sys.exit(1 if bad else 0)
