"""ContentSequence.extend put every item twice into the name look-up table (once itself, once through append):
find() returns each extended item twice.  Exit 1 while the defect is present."""
import os
import sys
sys.path.insert(0, os.path.join(os.path.dirname(os.path.abspath(__file__)), ".."))
from _c14_common import *  # noqa: E402,F401,F403

a, b, c = text(0, 1), text(0, 2), text(1, 3)
s = ContentSequence([a])
s.extend([b, c])
found = values(s.find(name(0)))
print('list', values(s), 'find(name 0)', found)
sys.exit(0 if found == ['item 1', 'item 2'] else 1)
