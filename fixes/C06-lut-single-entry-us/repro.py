"""C06 defect: `LUT.lut_data` of a table with a single entry whose LUTData has VR US (what pydicom makes of
the ambiguous "US or OW" element when a dataset is written / read with explicit VR): pydicom returns a bare
int for a single value, `np.array(int)` is 0-dimensional and `len(array)` raises TypeError - for the
accessor, `apply`, and every image read that uses the table.
Run: /venv/bin/python fixes/C06-lut-single-entry-us/repro.py   (exit 1 while the defect is present)
"""
import sys
sys.path.insert(0, '/verif/fixes')
import numpy as np
import highdicom as hd
import _c06_common  # noqa: F401
from pydicom.dataset import Dataset

it = Dataset()
it.LUTDescriptor = [1, 0, 16]
it.add_new('LUTData', 'US', 1940)
lut = hd.LUT.from_dataset(it)
try:
    d = lut.lut_data
    out = lut.apply(np.array([0, 5], dtype=np.uint16))
except Exception as e:  # noqa: BLE001
    print('raised', type(e).__name__, e)
    sys.exit(1)
print('lut_data', d.tolist(), 'apply', out.tolist())
sys.exit(0 if d.tolist() == [1940] and out.tolist() == [1940, 1940] else 1)
