"""ReferenceToPixelTransformer(..., drop_slice_index=True) and ReferenceToImageTransformer(..., drop_slice_coord=True) raised
ValueError('zero-size array to reduction operation maximum') for an empty batch of points (shape (0, 3)), while without the
flag an empty (0, 3) result is returned.  Expected: an empty (0, 2) result."""
import sys
sys.path.insert(0, '/verif/harness')
import hd_env; hd_env.setup()
import numpy as np
from highdicom.spatial import ReferenceToPixelTransformer, ReferenceToImageTransformer
a = dict(image_position=[1., 2., 3.], image_orientation=[1., 0., 0., 0., 1., 0.], pixel_spacing=[.5, .5])
e = np.zeros((0, 3))
assert ReferenceToPixelTransformer(**a)(e).shape == (0, 3)
r1 = ReferenceToPixelTransformer(drop_slice_index=True, **a)(e)
r2 = ReferenceToImageTransformer(drop_slice_coord=True, **a)(e)
print(r1.shape, r2.shape)
assert r1.shape == (0, 2) and r2.shape == (0, 2)
print('ok')
