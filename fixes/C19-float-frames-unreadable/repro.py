"""C19 (open): frames of a float parametric map cannot be read through the image interface: get_stored_frame(s)
raises AttributeError (PixelData / PixelRepresentation) for eager and lazy images; only pixel_array (pydicom) works.
exit 1 = defect present"""
import sys; sys.path.insert(0, '/verif/fixes')
from _c19_common import *
src = ct_series(2, 3, 4)
arr = np.linspace(-1, 1, 24, dtype=np.float32).reshape(2, 3, 4)
blob = written(pmap(arr, [lin('a', 2.0, 1.0, (-10.0, 10.0))], src))
bad = 0
for lazy in (False, True):
    im = hd.imread(io.BytesIO(blob), lazy_frame_retrieval=lazy)
    for name, f in (('get_stored_frame', lambda: im.get_stored_frame(2)), ('get_stored_frames', lambda: im.get_stored_frames()),
                    ('get_frame rwvm', lambda: im.get_frame(2, apply_real_world_transform=True))):
        try:
            v = f(); print('lazy' if lazy else 'eager', name, 'ok', np.asarray(v).dtype)
        except Exception as e:  # noqa: BLE001
            print('lazy' if lazy else 'eager', name, 'FAILS', type(e).__name__, str(e)[:70]); bad += 1
sys.exit(1 if bad else 0)
