"""C17: a URN written with an upper-case scheme name ('URN:oid:1.2.840', valid per RFC 8141: the leading "urn" is
case-insensitive) was not recognised as a URN and stored in CodeValue / LongCodeValue instead of URNCodeValue.
Exit status 1 = defect present."""
import sys
sys.path.insert(0, '/verif/harness')
import hd_env
hd_env.setup()
from highdicom.sr.coding import CodedConcept

bad = 0
for v in ['URN:oid:1.2.840', 'Urn:lex:eu:council:directive:2010-03-09', 'urn:oid:1.2']:
    c = CodedConcept(v, '99X', 'm')
    kws = [k for k in ('CodeValue', 'LongCodeValue', 'URNCodeValue') if k in c]
    print(v, '->', kws)
    bad += kws != ['URNCodeValue']
sys.exit(1 if bad else 0)
