"""FRACTIONAL read with rescale_fractional=False returns the raw stored integers (0..MaximumFractionalValue), but the
capacity check uses 1 as the largest output value: dtype=int8 wraps 200 to -56, dtype=bool collapses everything to True."""
import sys
sys.path.insert(0, '/verif/fixes')
from _c02_common import *
m = np.zeros((3, 3, 4, 1), np.float64)
m[0, 0, 0, 0] = 200 / 255
seg = mk(m, 'FRACTIONAL', [1])
bad = []
for dt in (np.int8, np.bool_):
    try:
        v = seg.get_pixels_by_source_instance(UIDS, rescale_fractional=False, dtype=dt)[0, 0, 0, 0]
        print(dt.__name__, '-> accepted, stored 200 read as', v)
        bad.append(dt)
    except ValueError as e:
        print(dt.__name__, '-> refused:', str(e)[:70])
v = seg.get_pixels_by_source_instance(UIDS, rescale_fractional=False, dtype=np.uint8)[0, 0, 0, 0]
print('uint8 ->', v)
sys.exit(1 if bad or v != 200 else 0)
