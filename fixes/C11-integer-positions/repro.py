"""get_volume_positions raised numpy UFuncTypeError for integer-valued positions (a regular stack such as
[[0, 0, 0], [0, 0, 1], [0, 0, 2]]): `span /= np.linalg.norm(span)` divides an integer array in place.
Expected: the same answer as for the float-valued stack."""
import sys
sys.path.insert(0, '/verif/harness')
import hd_env; hd_env.setup()
from highdicom.spatial import get_volume_positions
ori = [1, 0, 0, 0, 1, 0]
a = get_volume_positions([[0, 0, 2], [0, 0, 0], [0, 0, 1]], ori)
b = get_volume_positions([[0., 0., 2.], [0., 0., 0.], [0., 0., 1.]], ori)
print(a, b)
assert a == b == (1.0, [0, 2, 1])
print('ok')
