"""s.extend(s) / s += s iterate the live sequence while appending to it: they never terminate.  Exit 1 while present."""
import os
import sys
sys.path.insert(0, os.path.join(os.path.dirname(os.path.abspath(__file__)), ".."))
from _c14_common import *  # noqa: E402,F401,F403

import signal
s = ContentSequence([text(0, 1), text(1, 2)])


def stop(*a):
    raise RuntimeError('no termination within 2 s')


signal.signal(signal.SIGALRM, stop)
signal.setitimer(signal.ITIMER_REAL, 2.0)
r = attempt(lambda: s.extend(s))
signal.setitimer(signal.ITIMER_REAL, 0)
print('s.extend(s):', r, ' length now', len(s))
sys.exit(0 if r[0] == 'ok' and len(s) == 4 else 1)
