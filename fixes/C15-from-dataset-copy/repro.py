"""_SR.from_dataset(copy=True) converted the content items of the data set it was GIVEN (in place) and its
.content aliased the caller's items instead of the copy's.  Run with the fix commit reverted to see it.
    /venv/bin/python fixes/C15-from-dataset-copy/repro.py"""
import io, sys
sys.path.insert(0, '/verif/harness')
import hd_env; hd_env.setup()
import pydicom
import highdicom as hd
from pydicom.sr.codedict import codes
from gen import srdocs
ds = srdocs.evidence_dataset('1.2.3', '1.2.3.1', '1.2.3.1.1', '1.2.840.10008.5.1.4.1.1.2')
root = hd.sr.ContainerContentItem(name=codes.DCM.ImagingMeasurementReport)
root.ContentSequence = hd.sr.ContentSequence([hd.sr.ImageContentItem(
    name=codes.DCM.SourceImageForSegmentation, referenced_sop_class_uid=ds.SOPClassUID,
    referenced_sop_instance_uid=ds.SOPInstanceUID, relationship_type='CONTAINS')])
doc = hd.sr.Comprehensive3DSR(evidence=[ds], content=root, series_instance_uid='1.9', series_number=1,
                              sop_instance_uid='1.9.1', instance_number=1, manufacturer='m')
bio = io.BytesIO(); doc.save_as(bio)
raw = pydicom.dcmread(io.BytesIO(bio.getvalue()))
before = [type(x).__name__ for x in raw.ContentSequence]
parsed = hd.sr.Comprehensive3DSR.from_dataset(raw, copy=True)
after = [type(x).__name__ for x in raw.ContentSequence]
print('original item types before/after:', before, after)
print('parsed.content shares items with the original:', parsed.content[0].ContentSequence[0] is raw.ContentSequence[0])
print('parsed.content is the parsed document\'s own content:', parsed.content[0].ContentSequence[0] is parsed.ContentSequence[0])
sys.exit(0 if before == after else 1)
