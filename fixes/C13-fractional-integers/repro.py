"""Integer-valued multi-valued arguments took numbers with a fractional part and altered them silently:
ImageContentItem(..., referenced_frame_numbers=1.5) stored 1.5 under ReferencedFrameNumber (VR IS) and reported [1];
[1.5, 2.9] -> [1, 2]; the same for referenced_segment_numbers; TcoordContentItem(..., referenced_sample_positions=[5.7])
stored and reported [5]; WaveformContentItem(..., referenced_waveform_channels=[(1.5, 2)]) reported [(1, 2)].
Exit 1 while the defect is present."""
import os
import sys
sys.path.insert(0, os.path.join(os.path.dirname(os.path.abspath(__file__)), ".."))
from _c13_common import *  # noqa: E402,F401,F403
bad = 0


def probe(label, build, read):
    global bad
    try:
        it = build()
    except ValueError as e:
        print(label, 'refused:', e)
        return
    bad += 1
    print(label, 'ACCEPTED; reports', read(it))


for arg in ('referenced_frame_numbers', 'referenced_segment_numbers'):
    for v in (1.5, [1.5, 2.9]):
        probe(f'IMAGE {arg}={v}', lambda: ImageContentItem(NAME, '1.2.840.10008.5.1.4.1.1.2', '1.2.3', relationship_type='CONTAINS',
                                                            **{arg: v}), lambda it: getattr(it, arg))
probe('TCOORD referenced_sample_positions=[5.7]',
      lambda: TcoordContentItem(NAME, 'POINT', referenced_sample_positions=[5.7], relationship_type='CONTAINS'), lambda it: it.value)
probe('WAVEFORM referenced_waveform_channels=[(1.5, 2)]',
      lambda: WaveformContentItem(NAME, '1.2.840.10008.5.1.4.1.1.9.1.1', '1.2.3', referenced_waveform_channels=[(1.5, 2)],
                                  relationship_type='CONTAINS'), lambda it: it.referenced_waveform_channels)
# whole numbers in any spelling are still taken
ok = ImageContentItem(NAME, '1.2.840.10008.5.1.4.1.1.2', '1.2.3', referenced_frame_numbers=[3.0, 4]).referenced_frame_numbers == [3, 4]
print('whole numbers [3.0, 4] ->', 'taken' if ok else 'NOT taken')
sys.exit(1 if bad or not ok else 0)
