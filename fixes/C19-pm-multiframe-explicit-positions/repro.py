"""C19: ParametricMap(multi-frame source image, plane_positions=[...]) raises TypeError: the source's plane positions are
returned as plain pydicom sequences and compared with highdicom PlanePositionSequence items.  exit 1 = defect present"""
import sys; sys.path.insert(0, '/verif/fixes')
from _c19_common import *
from gen.sources import enhanced_multiframe
mf = enhanced_multiframe(2, 3, 4)
arr = np.arange(24, dtype=np.uint16).reshape(2, 3, 4)
pp = [hd.PlanePositionSequence('PATIENT', [0.0, 0.0, float(z)]) for z in (7, 3)]
try:
    pm = pmap(arr, [lin('a', 1.0, 0.0)], [mf], plane_positions=pp)
    got = [float(p.PlanePositionSequence[0].ImagePositionPatient[2]) for p in pm.PerFrameFunctionalGroupsSequence]
    print('constructed, positions', got); sys.exit(0 if got == [7.0, 3.0] else 1)
except TypeError as e:
    print('TypeError:', e); sys.exit(1)
