"""A 3-D float mask of fractions (one segment by the docstring; a 4-D array is required for several fractional
segments) passed to a FRACTIONAL segmentation with two descriptions is stored once per described segment: one 0.5 pixel
reads back as 128 for segment 1 AND for segment 2.  Exit 1 while the defect is present."""
import os
import sys
sys.path.insert(0, os.path.join(os.path.dirname(os.path.abspath(__file__)), '..'))
from _c01_common import ct_series, make  # noqa: E402
import numpy as np  # noqa: E402

src = ct_series(2, 2, 3)
mask = np.zeros((2, 2, 3), dtype=np.float32)
mask[0, 0, 0] = 0.5
try:
    seg = make(src, mask, 'FRACTIONAL', [1, 2], omit_empty_frames=False)
except ValueError as e:
    print('refused:', e)
    sys.exit(0)
out = seg.get_pixels_by_source_instance([s.SOPInstanceUID for s in src], rescale_fractional=False)
print('accepted; pixel (0, 0, 0) reads back as', out[0, 0, 0].tolist(), 'for segments [1, 2]')
sys.exit(1)
