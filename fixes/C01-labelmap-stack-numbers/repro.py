"""LABELMAP segmentation from a stacked (4-D) mask whose described segment numbers are not 1..n (allowed for
LABELMAP, and what a Volume with a SegmentNumber channel provides): `_combine_segments` labels channel i with
i + 1 instead of the i-th described segment number, so the stored label map contains undescribed labels and
every requested segment reads back empty.  Exit 1 while the defect is present."""
import os
import sys
sys.path.insert(0, os.path.join(os.path.dirname(os.path.abspath(__file__)), '..'))
from _c01_common import ct_series, make  # noqa: E402
import numpy as np  # noqa: E402

src = ct_series(2, 2, 3)
mask = np.zeros((2, 2, 3, 2), dtype=np.uint8)
mask[0, 0, 0, 0] = 1
mask[0, 1, 1, 1] = 1
mask[1, :, :, 1] = 1
seg = make(src, mask, 'LABELMAP', [3, 7])
out = seg.get_pixels_by_source_instance([s.SOPInstanceUID for s in src])
print('stored labels:', np.unique(seg.pixel_array).tolist(), 'described:', seg.segment_numbers)
print('read back equals input:', np.array_equal(out, mask))
sys.exit(0 if np.array_equal(out, mask) else 1)
