"""Follow-up to 934b2f2: an instance that is LISTED in ReferencedSeriesSequence but from which no frame of the segmentation
derives was accepted by get_pixels_by_source_frame and answered with the real source's frames (second review of the fixes)."""
import sys
sys.path.insert(0, '/verif/harness')
import hd_env
hd_env.setup()
import numpy as np
import highdicom as hd
from copy import deepcopy
from gen.sources import enhanced_multiframe, seg_description
mf = enhanced_multiframe(3, 3, 4)
m = np.zeros((3, 3, 4, 1), np.uint8)
m[:, 0, 0, 0] = 1
seg = hd.seg.Segmentation(source_images=[mf], pixel_array=m, segmentation_type='BINARY',
                          segment_descriptions=[seg_description(1)], series_instance_uid=hd.UID(), series_number=2,
                          sop_instance_uid=hd.UID(), instance_number=1, manufacturer='m', manufacturer_model_name='mm',
                          software_versions='1', device_serial_number='1')
extra = deepcopy(seg.ReferencedSeriesSequence[0].ReferencedInstanceSequence[0])
extra.ReferencedSOPInstanceUID = '1.2.3.4.5'
seg.ReferencedSeriesSequence[0].ReferencedInstanceSequence.append(extra)
seg2 = hd.seg.Segmentation.from_dataset(seg)
bad = 0
try:
    r = seg2.get_pixels_by_source_frame('1.2.3.4.5', [1, 2])
    print('listed-but-not-source UID, no assertion -> accepted, sum', int(r.sum()), '(must be refused)')
    bad += 1
except KeyError:
    print('listed-but-not-source UID, no assertion -> KeyError')
r = seg2.get_pixels_by_source_frame('1.2.3.4.5', [1, 2], assert_missing_frames_are_empty=True)
print('listed-but-not-source UID, asserted -> sum', int(r.sum()), '(must be 0)')
bad += int(r.sum()) != 0
r = seg2.get_pixels_by_source_frame(mf.SOPInstanceUID, [1, 2])
print('real source -> sum', int(r.sum()))
sys.exit(1 if bad or r.sum() != 2 else 0)
