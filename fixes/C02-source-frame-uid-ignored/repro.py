"""get_pixels_by_source_frame(source_sop_instance_uid, ...) never looked at the UID: a UID the segmentation does not
reference returned the pixels of the real source's frames (neither refused nor empty)."""
import sys
sys.path.insert(0, '/verif/harness')
import hd_env
hd_env.setup()
import numpy as np
import highdicom as hd
from gen.sources import enhanced_multiframe, seg_description
mf = enhanced_multiframe(3, 3, 4)
m = np.zeros((3, 3, 4, 1), np.uint8)
m[:, 0, 0, 0] = 1
seg = hd.seg.Segmentation(source_images=[mf], pixel_array=m, segmentation_type='BINARY',
                          segment_descriptions=[seg_description(1)], series_instance_uid=hd.UID(), series_number=2,
                          sop_instance_uid=hd.UID(), instance_number=1, manufacturer='m', manufacturer_model_name='mm',
                          software_versions='1', device_serial_number='1')
right = seg.get_pixels_by_source_frame(mf.SOPInstanceUID, [1, 2])
bad = 0
try:
    wrong = seg.get_pixels_by_source_frame('1.2.3.4.5', [1, 2])
    print('wrong UID, no assertion -> accepted, sum', int(wrong.sum()), '(must be refused)')
    bad += 1
except Exception as e:  # noqa: BLE001
    print('wrong UID, no assertion ->', type(e).__name__)
try:
    wrong = seg.get_pixels_by_source_frame('1.2.3.4.5', [1, 2], assert_missing_frames_are_empty=True)
    print('wrong UID, asserted empty -> sum', int(wrong.sum()), '(must be 0)')
    bad += int(wrong.sum()) != 0
except Exception as e:  # noqa: BLE001
    print('wrong UID, asserted ->', type(e).__name__, e)
    bad += 1
print('right UID -> sum', int(right.sum()))
sys.exit(1 if bad or right.sum() != 2 else 0)
