"""pad with unsigned numpy integers in the nested pad_width forms: `_prepare_pad_width` negates the 'before' width
(`origin_offset = [-p[0] ...]`), which wraps for unsigned numpy scalars (-np.uint8(1) == 255): the padded object gets the
right shape but its origin is 256 voxels off, i.e. every voxel moves in physical space."""
import sys; sys.path.insert(0, '/verif/harness')
import hd_env; hd_env.setup()
import warnings; warnings.simplefilter('ignore')
import numpy as np
from highdicom.volume import Volume
v = Volume(np.arange(24).reshape(2, 3, 4), np.eye(4), 'PATIENT')
bad = False
for obj in (v.get_geometry(), v):
    for w in ([[np.uint8(1), np.uint8(0)], [np.uint8(0)] * 2, [np.uint8(0)] * 2], [[np.uint16(2)], [np.uint16(0)], [np.uint16(1)]]):
        ref = obj.pad([[int(x) for x in p] for p in w])
        try:
            got = obj.pad(w)
        except TypeError as e:
            print(type(obj).__name__, 'refuses unsigned widths:', e, '(the geometry accepts them) DEFECT'); bad = True; continue
        ok = tuple(got.position) == tuple(ref.position) and tuple(got.spatial_shape) == tuple(ref.spatial_shape)
        print(type(obj).__name__, [[int(x) for x in p] for p in w], 'position', got.position, 'expected', ref.position, 'OK' if ok else 'DEFECT')
        bad |= not ok
sys.exit(1 if bad else 0)
