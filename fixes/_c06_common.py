"""Shared helpers of the C06 repro scripts."""
import sys
sys.path.insert(0, '/verif/harness')
import hd_env; hd_env.setup()  # noqa: E702
import numpy as np
import highdicom as hd
from gen.pixeltransforms import make_image


def image(P):
    return hd.Image.from_dataset(make_image(P))


def voilut_ref(stored, slope, intercept, first, data, lo=0.0, hi=1.0):
    """modality rescale, then VOI LUT with clipping, output scaled from [min, max] of the table to [lo, hi]"""
    d = np.asarray(data, dtype=float)
    x = np.asarray(stored, dtype=float) * slope + intercept
    idx = np.clip(x - first, 0, len(d) - 1).astype(int)
    return (d[idx] - d.min()) / (d.max() - d.min()) * (hi - lo) + lo


def report(got, want):
    print('got ', np.asarray(got).tolist() if not isinstance(got, str) else got)
    print('want', np.asarray(want).tolist() if not isinstance(want, str) else want)
