"""LegacyConvertedEnhanced*Image shared the DataElement objects of the legacy data sets with the new instance (Dataset.add) and\nthen assigned attributes: a legacy data set that carries SharedFunctionalGroupsSequence / VolumetricProperties / ... was\naltered (prints ALTERED lines on the defective tree).  Fixed in /repo b9138a2 by copying the elements."""
import sys; sys.path.insert(0,'/verif/harness'); sys.path.insert(0,'/verif')
import hd_env; hd_env.setup()
import numpy as np, highdicom as hd
from gen import sources
from corr import C20
from pydicom.valuerep import DA, TM
import logging; logging.disable(logging.CRITICAL)
for which, sop, mod in [('CT','1.2.840.10008.5.1.4.1.1.2','CT'),('MR','1.2.840.10008.5.1.4.1.1.4','MR'),('PET','1.2.840.10008.5.1.4.1.1.128','PT')]:
    src=sources.ct_series(3,4,4)
    for i,d in enumerate(src):
        d.SOPClassUID=sop; d.file_meta.MediaStorageSOPClassUID=sop; d.Modality=mod
        d.RescaleIntercept=0; d.RescaleSlope=1; d.SliceThickness=1.0
        d.ImageType=['ORIGINAL','PRIMARY','AXIAL'] if i<2 else ['DERIVED','SECONDARY','AXIAL']
        d.AcquisitionNumber=1; d.KVP=120.0
        d.ContentDate='20200101'; d.ContentTime='010203'; d.AcquisitionDate=DA('20200101'); d.AcquisitionTime=TM('010203')
        d.AcquisitionDateTime='20200101010203'; d.SeriesDate='20200101'; d.SeriesTime='010203'
        d.InstanceCreationDate='20200101'; d.InstanceCreationTime='010203'; d.WindowCenter=40; d.WindowWidth=400
        d.ImageComments=f'c{i}'; d.LossyImageCompression='00'; d.BurnedInAnnotation='NO'; d.PatientPosition='HFS'
        d.BodyPartExamined='CHEST'; d.SeriesDescription='s'; d.ProtocolName='p'; d.InstanceNumber=i+1
        d.PresentationLUTShape='IDENTITY'; d.VolumetricProperties='SAMPLED' ; d.PixelPresentation='COLOR'; d.AcquisitionContextSequence=[]; d.VolumeBasedCalculationTechnique='MAX_IP'; d.SharedFunctionalGroupsSequence=[]; d.BitsAllocated=16
        d.NumberOfFrames=1 if False else None
        del d.NumberOfFrames
    before=[C20.snap(d) for d in src]
    cls=getattr(hd.legacy, f'LegacyConvertedEnhanced{which}Image')
    o=cls(legacy_datasets=src, series_instance_uid=hd.UID(), series_number=1, sop_instance_uid=hd.UID(), instance_number=7)
    for i,(b,d) in enumerate(zip(before,src)):
        df=C20.snap_diff(b, C20.snap(d), f'ds{i}')
        if df: print(which, 'ALTERED', df[:300])
    print(which, 'file:', C20.file_clause(o)[0])
