"""Shared helpers of the C13 repro scripts."""
import io
import os
import sys
sys.path.insert(0, os.path.join(os.path.dirname(os.path.abspath(__file__)), '..', 'harness'))
import hd_env  # noqa: E402
hd_env.setup()
import pydicom  # noqa: E402
from pydicom import DataElement, Dataset  # noqa: E402
from highdicom.sr import ContentSequence, ImageContentItem, TcoordContentItem  # noqa: E402,F401
from highdicom.sr.coding import CodedConcept  # noqa: E402
from highdicom.sr.value_types import WaveformContentItem  # noqa: E402,F401

NAME = CodedConcept('1234', '99HDV', 'a name')


def plain(ds):
    out = Dataset()
    for elem in ds:
        if elem.VR == 'SQ':
            out.add(DataElement(elem.tag, 'SQ', [plain(i) for i in elem.value]))
        else:
            out.add(DataElement(elem.tag, elem.VR, elem.value))
    return out


def through_bytes(ds):
    buf = io.BytesIO()
    pydicom.dcmwrite(buf, plain(ds), implicit_vr=False, little_endian=True, enforce_file_format=False)
    buf.seek(0)
    return pydicom.dcmread(buf, force=True)


def attempt(f):
    try:
        return ('ok', f())
    except Exception as e:  # noqa: BLE001
        return ('raised', type(e).__name__)
