"""C18-wrong-coordinate-type: a PARSED annotation group accepted the wrong coordinate type and then refused the right one.

Before the fix (through the instance, i.e. annread / MicroscopyBulkSimpleAnnotations.from_dataset):
    group.get_graphic_data('3D') on three 2-D points -> two reinterpreted points [[1,2,3]], [[4,5,6]] (cached)
    group.get_graphic_data('2D') afterwards          -> ValueError
After the fix: '3D' raises ValueError and leaves no trace, '2D' returns the three points.
Still open (narrowed finding): a group parsed ON ITS OWN by AnnotationGroup.from_dataset, without a shared z, has
nothing that tells its coordinate type.

Run: HD_REPO=<repo> /venv/bin/python fixes/C18-wrong-coordinate-type/repro.py   (exit 1 = defect present)
"""
import io
import os
import sys

sys.path.insert(0, os.path.join(os.path.dirname(os.path.abspath(__file__)), '..', '..', 'harness'))
import hd_env  # noqa: E402

hd_env.setup()
import numpy as np  # noqa: E402
sys.path.insert(0, os.path.join(os.path.dirname(os.path.abspath(__file__)), '..', '..', 'harness', 'corr'))
import C18  # noqa: E402

from highdicom.ann import MicroscopyBulkSimpleAnnotations, annread  # noqa: E402

spec = {'number': 1, 'uid': '1.2.826.0.1.3680043.10.511.4.1', 'label': 'w', 'gtype': 'POINT', 'dim': 2, 'zclass': '-',
        'dtype': 'f4', 'counts': [1, 1, 1], 'meas': [], 'alg': None, 'category': 0, 'ptype': 2, 'algorithm_type': 'MANUAL',
        'description': None,
        'coords': [np.array([[1.0, 2.0]], np.float32), np.array([[3.0, 4.0]], np.float32), np.array([[5.0, 6.0]], np.float32)]}
bad = 0
ann = C18._build_sop([C18._build_group(spec)], '2D')
buf = io.BytesIO()
ann.save_as(buf)
for name, parsed in (('annread', annread(io.BytesIO(buf.getvalue()))),
                     ('from_dataset', MicroscopyBulkSimpleAnnotations.from_dataset(ann, copy=True))):
    g = parsed.get_annotation_group(number=1)
    try:
        r = g.get_graphic_data('3D')
        print(name, ": '3D' on 2-D points accepted ->", [np.asarray(a).tolist() for a in r])
        bad = 1
    except ValueError:
        print(name, ": '3D' refused")
    try:
        r = g.get_graphic_data('2D')
        print(name, ": '2D' ->", [np.asarray(a).tolist() for a in r])
    except ValueError as e:
        print(name, ": '2D' refused afterwards:", e)
        bad = 1
print('group parsed on its own (still open):', C18._witness_wrong_coordinate_type())
sys.exit(bad)
