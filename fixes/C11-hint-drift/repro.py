"""OPEN finding C11-hint-drift (reported by the C03 builder, confirmed here; NOT fixed).

get_volume_positions(allow_missing_positions=True, spacing_hint=h) takes the hint as THE spacing and tests
np.allclose(multiples, multiples.round(), rtol, atol): the tolerance is relative to the multiple, i.e. it grows with
the slice number.  A hint within the library's own relative tolerance of the true spacing (1 %) is therefore accepted for
long stacks although the rounded multiples are wrong: two distinct planes get the same index, or an index is skipped.

100 planes at z = 0..99, spacing 1.0:
  hint 1.009  -> accepted, planes 56 and 57 both get index 56 (99 distinct indices, max 98)
  hint 0.9915 -> accepted, max index 100, index 59 never used
Small witness with a user tolerance: planes 0..5, hint 1.25, rtol 0.25 -> indices [0, 1, 2, 2, 3, 4].

Why not fixed: a correct repair changes how indices are derived in the gaps branch (e.g. accumulate rounded
consecutive gaps, or bound the accumulated deviation) - a design decision for the maintainers, not a one-line patch."""
import sys
sys.path.insert(0, '/verif/harness')
import hd_env; hd_env.setup()
from highdicom.spatial import get_volume_positions
ori = [1., 0., 0., 0., -1., 0.]          # normal of the volume convention = +z
pos = [[0., 0., float(k)] for k in range(100)]
for h in (1.009, 0.9915):
    sp, idx = get_volume_positions(pos, ori, allow_missing_positions=True, spacing_hint=h)
    print(h, sp, 'distinct', len(set(idx)), 'max', max(idx), 'collisions', [k for k in range(1, 100) if idx[k] == idx[k - 1]],
          'skipped', sorted(set(range(max(idx) + 1)) - set(idx)))
print(get_volume_positions([[0., 0., float(k)] for k in range(6)], ori, allow_missing_positions=True, spacing_hint=1.25, rtol=0.25))
