"""FRACTIONAL segmentation from a float mask whose only non-zero values quantise to 0 (0.2 * 2 = 0.4 -> 0) with
omit_empty_frames=True: emptiness of planes was judged on the unquantised floats, so the "all empty -> keep all
frames" fallback did not trigger, every (segment, plane) frame was then skipped individually, and the constructor
crashed with IndexError on an object with zero frames.  Exit 1 while the defect is present."""
import os
import sys
sys.path.insert(0, os.path.join(os.path.dirname(os.path.abspath(__file__)), '..'))
from _c01_common import ct_series, make  # noqa: E402
import numpy as np  # noqa: E402

src = ct_series(2, 2, 3)
mask = np.zeros((2, 2, 3), dtype=np.float32)
mask[0, 0, 0] = 0.2
try:
    seg = make(src, mask, 'FRACTIONAL', [1], max_fractional_value=2, omit_empty_frames=True)
except Exception as e:  # noqa: BLE001
    print('constructor failed:', type(e).__name__, e)
    sys.exit(1)
out = seg.get_pixels_by_source_instance([s.SOPInstanceUID for s in src], assert_missing_frames_are_empty=True,
                                        rescale_fractional=False)[..., 0]
print('frames:', seg.NumberOfFrames, 'read back all zero:', not out.any())
sys.exit(0 if not out.any() else 1)
