"""BINARY frames with fewer than 8 pixels: the frame-loop guard `(Rows*Columns) // 8 != 0` is false, every frame
is packed into its own byte, PixelData no longer is the bit-contiguous packing DICOM mandates and nothing reads
back (neither highdicom nor pydicom).  Exit 1 while the defect is present."""
import os
import sys
sys.path.insert(0, os.path.join(os.path.dirname(os.path.abspath(__file__)), '..'))
from _c01_common import ct_series, make  # noqa: E402
import numpy as np  # noqa: E402

src = ct_series(3, 2, 3)
mask = np.array([[[1, 0, 0], [0, 0, 1]], [[1, 1, 0], [0, 0, 0]], [[0, 1, 0], [1, 0, 1]]], dtype=np.uint8)
seg = make(src, mask, 'BINARY', [1], omit_empty_frames=False)
out = seg.get_pixels_by_source_instance([s.SOPInstanceUID for s in src])[..., 0]
print('PixelData bytes:', len(seg.PixelData), '(18 bits need 3, +1 pad)')
print('read back equals input:', np.array_equal(out, mask))
sys.exit(0 if np.array_equal(out, mask) else 1)
