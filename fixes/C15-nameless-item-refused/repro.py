"""C15-nameless-item-refused: a content tree that holds an IMAGE (COMPOSITE / SCOORD / SCOORD3D / TCOORD / WAVEFORM) item
WITHOUT Concept Name Code Sequence cannot be made into an SR document, and `find_content_items` raises AttributeError on it.

Concept Name Code Sequence is type 1C in the Document Content Macro (PS3.3 C.17.3): required for TEXT, NUM, CODE, DATETIME,
DATE, TIME, UIDREF, PNAME and for containers with a heading, "may be present otherwise".  The library knows this: the
parsers (`ContentItem._from_dataset_base`) accept such an item and give it the name (260753009, SCT, "Source").  But
`find_content_items.search_tree` reads `content_item.ConceptNameCodeSequence[0]` of EVERY item it visits, and `_SR.__init__`
searches the tree it was GIVEN (`collect_evidence(evidence, content)`, SCOORD3D guards), not the converted copy:

    AttributeError: 'Dataset' object has no attribute 'ConceptNameCodeSequence'

so the reference of that image is neither listed as evidence nor is the document built, although every data set of the
tree is acceptable.  Run: HD_REPO=<repo> /venv/bin/python fixes/C15-nameless-item-refused/repro.py  (exit 1 = defect present)
"""
import os
import sys
sys.path.insert(0, os.path.join(os.path.dirname(os.path.abspath(__file__)), '..', '..', 'harness'))
import hd_env  # noqa: E402
hd_env.setup()
import pydicom  # noqa: E402
import highdicom as hd  # noqa: E402
from gen import srdocs  # noqa: E402

CT = '1.2.840.10008.5.1.4.1.1.2'
root = pydicom.Dataset()
root.ValueType = 'CONTAINER'
root.ContinuityOfContent = 'SEPARATE'
n = pydicom.Dataset()
n.CodeValue, n.CodingSchemeDesignator, n.CodeMeaning = '121071', 'DCM', 'Finding'
root.ConceptNameCodeSequence = [n]
img = pydicom.Dataset()
img.ValueType = 'IMAGE'
img.RelationshipType = 'CONTAINS'
s = pydicom.Dataset()
s.ReferencedSOPClassUID, s.ReferencedSOPInstanceUID = CT, '1.2.3'
img.ReferencedSOPSequence = [s]          # no ConceptNameCodeSequence: allowed for IMAGE
root.ContentSequence = [img]
ev = [srdocs.evidence_dataset('1.2', '1.2.1', '1.2.3', CT), srdocs.evidence_dataset('1.2', '1.2.1', '1.2.4', CT)]
bad = 0
try:
    found = hd.sr.utils.find_content_items(root, value_type='IMAGE', recursive=True)
    print('find_content_items: found', len(found), 'IMAGE item(s)')
    bad += len(found) != 1
except Exception as e:  # noqa: BLE001
    print('find_content_items raised', type(e).__name__, e)
    bad += 1
try:
    doc = hd.sr.Comprehensive3DSR(evidence=ev, content=root, series_instance_uid='1.2.9', series_number=1,
                                  sop_instance_uid='1.2.9.1', instance_number=1, manufacturer='v')
    cur = [str(i.ReferencedSOPInstanceUID) for st in doc.CurrentRequestedProcedureEvidenceSequence
           for se in st.ReferencedSeriesSequence for i in se.ReferencedSOPSequence]
    oth = [str(i.ReferencedSOPInstanceUID) for st in doc.PertinentOtherEvidenceSequence
           for se in st.ReferencedSeriesSequence for i in se.ReferencedSOPSequence]
    print('document built; current evidence', cur, 'other evidence', oth, 'name of the image item:',
          doc.content[0].ContentSequence[0].ConceptNameCodeSequence[0].CodeMeaning)
    bad += (cur != ['1.2.3'] or oth != ['1.2.4'])
except Exception as e:  # noqa: BLE001
    print('document refused:', type(e).__name__, e)
    bad += 1
# a nameless item of a value type that MUST have a name is still refused
txt = pydicom.Dataset()
txt.ValueType, txt.RelationshipType, txt.TextValue = 'TEXT', 'CONTAINS', 'x'
root2 = pydicom.Dataset()
root2.ValueType, root2.ContinuityOfContent, root2.ConceptNameCodeSequence = 'CONTAINER', 'SEPARATE', [n]
root2.ContentSequence = [txt]
try:
    hd.sr.Comprehensive3DSR(evidence=ev, content=root2, series_instance_uid='1.2.9', series_number=1,
                            sop_instance_uid='1.2.9.1', instance_number=1, manufacturer='v')
    print('nameless TEXT item accepted (must be refused)')
    bad += 1
except AttributeError:
    print('nameless TEXT item refused (as it must be)')
sys.exit(1 if bad else 0)
