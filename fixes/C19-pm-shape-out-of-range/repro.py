"""C19-pm-shape-out-of-range: ParametricMap accepted arrays with 0 or more than 65535 rows / columns (native transfer syntaxes do
not go through encode_frame, whose range check -- /repo df24c41 -- therefore never ran).  Exit 1 while the defect is present.
Run: HD_REPO=<tree> /venv/bin/python fixes/C19-pm-shape-out-of-range/repro.py"""
import io
import os
import sys
import warnings

sys.path.insert(0, os.path.join(os.path.dirname(os.path.abspath(__file__)), '..', '..', 'harness'))
import hd_env  # noqa: E402
hd_env.setup()
warnings.simplefilter('ignore')
import numpy as np  # noqa: E402
import highdicom as hd  # noqa: E402
from highdicom.pm import ParametricMap, RealWorldValueMapping  # noqa: E402
from pydicom.sr.codedict import codes  # noqa: E402
from gen.sources import ct_series  # noqa: E402

m = RealWorldValueMapping('a', 'ea', codes.UCUM.NoUnits, (0, 65535), slope=2.0, intercept=1.0)
bad = 0
for shape, dt in (((2, 0, 4), 'uint16'), ((2, 3, 0), 'uint16'), ((2, 70000, 1), 'uint8')):
    src = ct_series(2, 3, 4)
    try:
        pm = ParametricMap(src, np.zeros(shape, dt), hd.UID(), 1, hd.UID(), 1, 'm', 'mm', '1', 'sn', False, [m], 0.5, 1.0)
    except ValueError as e:
        print(shape, 'refused:', str(e)[:80])
        continue
    bad += 1
    try:
        bio = io.BytesIO()
        pm.save_as(bio)
        im = hd.imread(io.BytesIO(bio.getvalue()))
        try:
            im.get_stored_frame(1)
            what = 'frame read'
        except Exception as e:  # noqa: BLE001
            what = f'written, get_stored_frame(1) raises {type(e).__name__}: {str(e)[:60]}'
    except Exception as e:  # noqa: BLE001
        what = f'accepted, save_as raises {type(e).__name__}: {str(e)[:60]}'
    print(shape, 'ACCEPTED:', what)
sys.exit(1 if bad else 0)
