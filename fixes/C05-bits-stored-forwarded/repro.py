"""Per-frame decoding passed BitsAllocated as bits_stored: for native data with junk in the unused high bits
get_stored_frame / get_stored_frames returned the raw cells while pixel_array, ImageFileReader.read_frame and pydicom
return the stored value (masked / sign-extended).  Exit 1 when the access paths disagree."""
import io
import os
import sys
sys.path.insert(0, os.path.join(os.path.dirname(os.path.abspath(__file__)), '..', '..', 'harness'))
import hd_env
hd_env.setup()
import numpy as np
import pydicom
import highdicom as hd
from gen.images import multiframe_image, to_bytes

bad = 0
cells = np.array([[[0x0FFF, 0xF001], [0x8123, 0x0005]]] * 3, dtype=np.uint16)
for signed in (False, True):
    ds = multiframe_image(cells.view(np.int16).astype(np.int64) if signed else cells.astype(np.int64), 16, signed=signed)
    ds.BitsStored, ds.HighBit = 12, 11
    blob = to_bytes(ds)
    ref = pydicom.dcmread(io.BytesIO(blob)).pixel_array
    for lazy in (False, True):
        im = hd.imread(io.BytesIO(blob), lazy_frame_retrieval=lazy)
        for what, got in (('get_stored_frame', im.get_stored_frame(1)), ('get_stored_frames', im.get_stored_frames([1])[0])):
            if not np.array_equal(got, ref[0]):
                bad += 1
                print(f'signed={signed} lazy={lazy} {what}: {got.tolist()} != pydicom {ref[0].tolist()}')
print('FAIL' if bad else 'ok')
sys.exit(1 if bad else 0)
