"""ContentSequence.__setitem__(int, item) raised TypeError for every content item: a Dataset is Iterable, so the
item was iterated as if it were a list of items.  Exit 1 while the defect is present."""
import os
import sys
sys.path.insert(0, os.path.join(os.path.dirname(os.path.abspath(__file__)), ".."))
from _c14_common import *  # noqa: E402,F401,F403

s = ContentSequence([text(0, 1), text(1, 2)])
r = attempt(lambda: s.__setitem__(0, text(2, 3)))
print('seq[0] = item:', r, values(s))
sys.exit(0 if r[0] == 'ok' and values(s)[0] == 'item 3' else 1)
