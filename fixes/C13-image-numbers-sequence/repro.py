"""ImageContentItem documents referenced_frame_numbers / referenced_segment_numbers as `int | Sequence[int]`, but only a
list was accepted: a tuple or a numpy array raised TypeError from inside pydicom (IS(tuple) / int(array)).
Exit 1 while the defect is present."""
import os
import sys
sys.path.insert(0, os.path.join(os.path.dirname(os.path.abspath(__file__)), ".."))
from _c13_common import *  # noqa: E402,F401,F403
import numpy as np  # noqa: E402
bad = 0
for what, v in (('tuple', (3, 4)), ('1-tuple', (3,)), ('array', np.array([3, 4])), ('range', range(3, 5))):
    for arg in ('referenced_frame_numbers', 'referenced_segment_numbers'):
        try:
            it = ImageContentItem(NAME, '1.2.840.10008.5.1.4.1.1.2', '1.2.3.4', relationship_type='CONTAINS', **{arg: v})
            got = getattr(it, arg)
            back = getattr(ImageContentItem.from_dataset(through_bytes(it)), arg)
            ok = got == [int(x) for x in v] and back == got
            print(arg, what, '->', got, back)
        except Exception as e:  # noqa: BLE001
            ok = False
            print(arg, what, 'refused:', type(e).__name__, str(e)[:80])
        bad += not ok
sys.exit(1 if bad else 0)
