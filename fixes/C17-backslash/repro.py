"""C17: a code value, scheme designator, meaning or scheme version containing a BACKSLASH was accepted by the
constructor but could not be read back: pydicom splits the string at the DICOM value delimiter into a MultiValue.

CodedConcept('a\\b', '99X', 'm').value was ['a', 'b'], hash() raised TypeError, equality with Code('a\\b', '99X', 'm')
was False in both directions; CodedConcept('abc', '99X', 'x\\y').meaning was ['x', 'y'].  After the fix the constructor
refuses such arguments with ValueError.  Exit status 1 = defect present."""
import sys
sys.path.insert(0, '/verif/harness')
import hd_env
hd_env.setup()
from highdicom.sr.coding import CodedConcept

bad = 0
for args in [('a\\b', '99X', 'm', None), ('abc', '99X', 'x\\y', None), ('abc', '9\\9', 'm', None), ('abc', '99X', 'm', '1\\2')]:
    try:
        c = CodedConcept(*args)
    except ValueError as e:
        print(args, 'refused:', str(e)[:60])
        continue
    back = (c.value, c.scheme_designator, c.meaning, c.scheme_version)
    print(args, 'accepted; read back', back)
    bad += back != args
sys.exit(1 if bad else 0)
