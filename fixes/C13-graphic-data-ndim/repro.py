"""ScoordContentItem(name, 'POINT', np.zeros((1, 2, 5))) was accepted: five points for a POINT.  Exit 1 while present."""
import os
import sys
sys.path.insert(0, os.path.join(os.path.dirname(os.path.abspath(__file__)), ".."))
from _c13_common import *  # noqa: E402,F401,F403

import numpy as np
from highdicom.sr import ScoordContentItem, Scoord3DContentItem
r1 = attempt(lambda: ScoordContentItem(NAME, 'POINT', np.zeros((1, 2, 5))).value.shape)
r2 = attempt(lambda: Scoord3DContentItem(NAME, 'POINT', np.zeros((1, 3, 4)), '1.2.3').value.shape)
print('SCOORD POINT with shape (1, 2, 5):', r1, ' SCOORD3D POINT with shape (1, 3, 4):', r2)
sys.exit(0 if r1[0] == 'raised' and r2[0] == 'raised' else 1)
