"""ContentSequence.get_nodes built its result with the default flags (non-root SR): it raised for root and non-SR
sequences that contain a node.  Exit 1 while the defect is present."""
import os
import sys
sys.path.insert(0, os.path.join(os.path.dirname(os.path.abspath(__file__)), ".."))
from _c14_common import *  # noqa: E402,F401,F403

c = container(0)
c.ContentSequence = [text(1, 1)]
root = ContentSequence([c], is_root=True)
r1 = attempt(lambda: len(root.get_nodes()))
t = text(0, 2, None)
t.ContentSequence = [text(1, 3)]
ns = ContentSequence([t], is_sr=False)
r2 = attempt(lambda: len(ns.get_nodes()))
print('root.get_nodes:', r1, ' non-SR get_nodes:', r2)
sys.exit(0 if r1 == ('ok', 1) and r2 == ('ok', 1) else 1)
