"""SourceImageForRegion.from_dataset(dataset, copy=False) returned a deep copy (the copy flag was ignored), so
"conversion without copying returns the same object" failed.  (The one-line repair was swept into commit f4d3419
of /repo together with another builder's change to the same file.)"""
import sys
sys.path.insert(0, '/verif/harness')
import hd_env
hd_env.setup()
import highdicom as hd
from gen import sources
from corr.C20 import plainify  # noqa: E402
sys.path.insert(0, '/verif/harness')
img = sources.ct_series(1, 3, 3)[0]
item = hd.sr.SourceImageForRegion.from_source_image(img)
plain = plainify(item)
res = hd.sr.SourceImageForRegion.from_dataset(plain, copy=False)
print('same object' if res is plain else 'DEFECT: different object returned for copy=False')
sys.exit(0 if res is plain else 1)
