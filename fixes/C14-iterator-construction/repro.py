"""ContentSequence(one-shot iterator) used the iterator up in the list constructor: no index entries and no
relationship type rule.  Exit 1 while the defect is present."""
import os
import sys
sys.path.insert(0, os.path.join(os.path.dirname(os.path.abspath(__file__)), ".."))
from _c14_common import *  # noqa: E402,F401,F403

bad = text(0, 1, None)
r = attempt(lambda: len(ContentSequence(i for i in [bad])))
good = ContentSequence(i for i in [text(0, 2)])
print('ContentSequence(iterator of an item without relationship type):', r, ' find on a good one:', values(good.find(name(0))))
sys.exit(0 if r[0] == 'raised' and values(good.find(name(0))) == ['item 2'] else 1)
