"""C06 defect: `LUT.__init__` stores an 8-bit table with an odd number of entries as an odd number of bytes in
LUTData (VR OW / US: always whole 16-bit words, PS3.3 C.11.1.1; `PaletteColorLUT` pads, `LUT.lut_data` already
strips such a padding byte).  A single-entry 8-bit table cannot be written at all (pydicom encodes one entry as
US and needs two bytes) and the failed attempt leaves the element unreadable.
Run: /venv/bin/python fixes/C06-lut-odd-8bit-padding/repro.py   (exit 1 while the defect is present)
"""
import io
import sys
sys.path.insert(0, '/verif/fixes')
import numpy as np
import highdicom as hd
import pydicom
import _c06_common  # noqa: F401
from pydicom.sequence import Sequence
from pydicom.uid import ExplicitVRLittleEndian
from gen.images import base_dataset, to_bytes, MF_SC_BYTE

bad = 0
for data in ([76], [1, 2, 3]):
    lut = hd.VOILUT(first_mapped_value=1, lut_data=np.array(data, dtype=np.uint8))
    print(len(data), 'entries ->', len(lut.LUTData), 'bytes of LUTData')
    bad |= len(lut.LUTData) % 2
    ds = base_dataset(MF_SC_BYTE, ExplicitVRLittleEndian)
    ds.VOILUTSequence = Sequence([lut])
    try:
        back = pydicom.dcmread(io.BytesIO(to_bytes(ds))).VOILUTSequence[0]
        got = hd.LUT.from_dataset(back).lut_data.tolist()
        print('  read back from file:', got)
        bad |= got != data
    except Exception as e:  # noqa: BLE001
        print('  write / read failed:', type(e).__name__, str(e)[:120])
        bad = 1
    try:
        print('  in-memory accessor afterwards:', lut.lut_data.tolist())
        bad |= lut.lut_data.tolist() != data
    except Exception as e:  # noqa: BLE001
        print('  in-memory accessor afterwards raised', type(e).__name__, str(e)[:100])
        bad = 1
sys.exit(bad)
