"""Indexing a volume with a tuple of more than three items: a 4th slice item without start/stop slips through the
bounds check and is applied to the first CHANNEL axis of the array while the channel values are carried along
unchanged (v[:, :, :, ::-1] silently reverses the channel data under the same labels); a VolumeGeometry ignores it."""
import sys; sys.path.insert(0, '/verif/harness')
import hd_env; hd_env.setup()
import numpy as np
from highdicom.volume import Volume
v = Volume(np.arange(48).reshape(2, 3, 4, 2), np.eye(4), 'PATIENT', channels={'OpticalPathIdentifier': ['a', 'b']})
bad = False
for index in [(slice(None),) * 3 + (slice(None, None, -1),), (slice(None),) * 4]:
    for obj in (v, v.get_geometry()):
        try:
            r = obj[index]
            print('DEFECT: accepted', index[3], 'on', type(obj).__name__,
                  getattr(r, 'array', np.zeros(1))[0, 0, 0] if hasattr(r, 'array') else r.shape)
            bad = True
        except (IndexError, ValueError) as e:
            print('refused:', type(e).__name__, e)
sys.exit(1 if bad else 0)
