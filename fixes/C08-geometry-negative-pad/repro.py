"""Negative pad widths in the nested forms are not rejected by _prepare_pad_width: a VolumeGeometry is silently
cropped (even to an empty or negative shape) where a Volume refuses (numpy.pad)."""
import sys; sys.path.insert(0, '/verif/harness')
import hd_env; hd_env.setup()
import numpy as np
from highdicom.volume import Volume
v = Volume(np.arange(24).reshape(2, 3, 4), np.eye(4), 'PATIENT')
g = v.get_geometry()
bad = False
for w in ([[-1, 0], [0, 0], [0, 0]], [[-3], [0], [0]], [[0, 0], [0, -1], [0, 0]]):
    res = []
    for obj in (v, g):
        try:
            res.append(('ok', obj.pad(w).spatial_shape))
        except Exception as e:
            res.append(('refused', type(e).__name__))
    print(w, res)
    bad |= res[1][0] == 'ok'
print('DEFECT' if bad else 'negative widths refused for both')
sys.exit(1 if bad else 0)
