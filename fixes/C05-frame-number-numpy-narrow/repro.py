"""Frame numbers given as narrow numpy integers (np.uint16(290), np.uint8(200)) were used as they are in
`frame_index * frame_length`: 16-bit types wrapped silently (pixels of another place in PixelData), 8-bit types raised
OverflowError for valid numbers.  Exit 1 when a valid number is refused or answered with other pixels."""
import io
import os
import sys
sys.path.insert(0, os.path.join(os.path.dirname(os.path.abspath(__file__)), '..', '..', 'harness'))
import hd_env
hd_env.setup()
import numpy as np
import highdicom as hd
from gen.images import multiframe_image, to_bytes

big = (np.arange(300 * 20 * 20).reshape(300, 20, 20) % 4000).astype(np.int64)
im = hd.imread(io.BytesIO(to_bytes(multiframe_image(big, 16))))
bad = 0
for k in (np.uint8(200), np.int8(100), np.uint16(290), np.int16(290), np.int32(290), 290):
    try:
        got = im.get_stored_frame(k)
        if not np.array_equal(got, big[int(k) - 1]):
            bad += 1
            print(type(k).__name__, int(k), 'returned other pixels')
    except Exception as e:  # noqa: BLE001
        bad += 1
        print(type(k).__name__, int(k), 'raised', type(e).__name__, e)
print('FAIL' if bad else 'ok')
sys.exit(1 if bad else 0)
