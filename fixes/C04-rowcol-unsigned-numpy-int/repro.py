"""C04 defect: row/column arguments given as unsigned numpy integers wrap around in the region arithmetic.

`_standardize_row_column_indices` keeps the caller's numpy scalar; `row_start - rp`, `row_start - th + 1` etc. are then
computed in uint16/uint8 and wrap.  Before the fix get_total_pixel_matrix(row_start=np.uint16(2)) on a TILED_FULL image
returns an array of the right shape filled with zeros (no tile is selected), on a TILED_SPARSE image it raises.
Run:  /venv/bin/python fixes/C04-rowcol-unsigned-numpy-int/repro.py     (exit 1 while the defect is present)
"""
import os
import sys
sys.path.insert(0, os.path.join(os.path.dirname(os.path.abspath(__file__)), '..', '..', 'harness'))
import hd_env
hd_env.setup()
import numpy as np
import highdicom as hd
from gen.sources import slide_image

bad = 0
for full in (True, False):
    ds, tpm = slide_image(7, 5, 3, 2, tiled_full=full)
    im = hd.Image.from_dataset(ds, copy=False)
    want = tpm[1:6, 1:4]
    ref = im.get_total_pixel_matrix(row_start=2, row_end=7, column_start=2, column_end=5)
    assert np.array_equal(ref, want)
    for typ in (np.uint8, np.uint16, np.uint32, np.int64):
        try:
            got = im.get_total_pixel_matrix(row_start=typ(2), row_end=typ(7), column_start=typ(2), column_end=typ(5))
            ok = got.shape == want.shape and np.array_equal(got, want)
            print('TILED_FULL' if full else 'TILED_SPARSE', typ.__name__, 'shape', got.shape, 'equal to the matrix region:', ok)
            bad += not ok
        except Exception as e:  # noqa: BLE001
            print('TILED_FULL' if full else 'TILED_SPARSE', typ.__name__, 'raised', type(e).__name__, str(e)[:70])
            bad += 1
sys.exit(1 if bad else 0)
