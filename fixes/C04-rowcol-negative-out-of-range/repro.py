"""C04 defect: _standardize_row_column_indices lets negative requests below -n through.

Before the fix: row_start=-10 on a 7-row matrix is mapped to the 1-based row -2; a TILED_FULL image
then returns an array with 10 rows (3 rows of zeros on top of the matrix) instead of refusing.
Run:  /venv/bin/python fixes/C04-rowcol-negative-out-of-range/repro.py     (exit 1 while the defect is present)
"""
import os
import sys
sys.path.insert(0, os.path.join(os.path.dirname(os.path.abspath(__file__)), '..', '..', 'harness'))
import hd_env
hd_env.setup()
import highdicom as hd
from highdicom.image import _Image
from gen.sources import slide_image

bad = 0
f = _Image._standardize_row_column_indices
for args, kw in [((-10, None, None, None), dict(rows=5, columns=5, as_indices=True, outputs_as_indices=True)),
                 ((None, -7, None, None), dict(rows=5, columns=5)),
                 ((None, None, -6, None), dict(rows=5, columns=5)),
                 ((None, None, None, -7), dict(rows=5, columns=5, as_indices=True))]:
    try:
        print('helper', args, kw, '->', f(*args, **kw), '   <-- accepted (defect)')
        bad += 1
    except ValueError as e:
        print('helper', args, 'refused:', str(e)[:70])
ds, tpm = slide_image(7, 5, 3, 2, tiled_full=True)
im = hd.Image.from_dataset(ds, copy=False)
try:
    out = im.get_total_pixel_matrix(row_start=-10)
    print('get_total_pixel_matrix(row_start=-10) on 7x5 returned shape', out.shape, '  <-- defect')
    bad += 1
except ValueError as e:
    print('get_total_pixel_matrix(row_start=-10) refused:', str(e)[:70])
sys.exit(1 if bad else 0)
