"""C06 defect: `apply_real_world_transform=True` together with `apply_voi_transform=None` ("apply if present
and no real-world value map takes precedence") is refused with "apply_modality_transform cannot be False"
although the caller never set it: the constructor writes `use_voi = False` for a required real-world map
*before* the VOI flag is parsed, which then overwrites it.
Input: image with a real-world value map (slope 2, intercept 1), get_frame(1, apply_real_world_transform=True,
apply_voi_transform=None) -> expected 2 * stored + 1.
Run: /venv/bin/python fixes/C06-rwvm-true-voi-none/repro.py   (exit 1 while the defect is present)
"""
import sys
sys.path.insert(0, '/verif/fixes')
import numpy as np
from _c06_common import image, report

m = {'label': 'A', 'unit': ['1', 'UCUM', 'no units'], 'first': 0, 'last': 255, 'slope': '2', 'intercept': '1'}
P = {'bits': 8, 'photometric': 'MONOCHROME2', 'frames': [[[0, 1, 2], [3, 4, 5]]],
     'T': {'rwvm': [{'place': 'image', 'vals': [[m]]}],
           'window': [{'place': 'image', 'vals': [{'c': ['2'], 'w': ['4'], 'fn': 'LINEAR'}]}]}}
want = np.array(P['frames'][0], dtype=float) * 2 + 1
try:
    got = image(P).get_frame(1, apply_real_world_transform=True, apply_voi_transform=None)
except Exception as e:  # noqa: BLE001
    report(f'{type(e).__name__}: {e}', want)
    sys.exit(1)
report(got, want)
sys.exit(0 if np.array_equal(got, want) else 1)
