"""C03 defect (e): get_volume(slice_start=<numpy integer>) fails with an IndexError from deep inside the frame
assembly: `_get_stacked_volume_geometry` puts `vol_pos - slice_start` (then a numpy integer) into the temporary SQL
table, sqlite3 stores it as a blob, and the output frame index comes back as bytes.  Row/column arguments and
slice_end accept numpy integers.
Run: /venv/bin/python fixes/C03-numpy-slice-start/repro.py   (exit 1 while the defect is present)
"""
import sys
sys.path.insert(0, '/verif/harness')
import hd_env; hd_env.setup()
import numpy as np
import highdicom as hd
from gen.sources import ct_series, seg_description, enhanced_multiframe

bad = 0
src = ct_series(3, 2, 3, slice_spacing=0.5)
arr = np.zeros((3, 2, 3), np.uint8)
arr[0, 0, 0] = 1
arr[2, 1, 1] = 1
seg = hd.seg.Segmentation(src, arr, 'LABELMAP', [seg_description(1)], series_instance_uid=hd.UID(), series_number=2,
                          sop_instance_uid=hd.UID(), instance_number=1, manufacturer='m', manufacturer_model_name='mm',
                          software_versions='1', device_serial_number='1')
im = hd.Image.from_dataset(enhanced_multiframe(3, 2, 3), copy=False)
for name, gv, kw in (('Segmentation', seg.get_volume, dict(combine_segments=True)), ('Image', im.get_volume, dict(apply_modality_transform=False))):
    want = gv(slice_start=1, as_indices=True, **kw)
    for T in (np.int64, np.int32, np.uint8):
        try:
            v = gv(slice_start=T(1), as_indices=True, **kw)
            ok = np.array_equal(v.array, want.array) and np.array_equal(v.affine, want.affine)
            print(name, T.__name__, 'ok' if ok else 'WRONG')
            bad |= not ok
        except Exception as e:  # noqa: BLE001
            print(name, T.__name__, 'raised', type(e).__name__, str(e)[:70])
            bad = 1
sys.exit(int(bad))
