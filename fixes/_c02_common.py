"""Shared helper for the C02 repro scripts: builds a small segmentation with the real constructor."""
import sys
sys.path.insert(0, '/verif/harness')
import hd_env
hd_env.setup()
import numpy as np
import highdicom as hd
from gen.sources import ct_series, seg_description

SRC = ct_series(3, 3, 4)
UIDS = [s.SOPInstanceUID for s in SRC]


def mk(mask, segtype, nums, **kw):
    return hd.seg.Segmentation(
        source_images=SRC, pixel_array=mask, segmentation_type=segtype,
        segment_descriptions=[seg_description(n) for n in nums], series_instance_uid=hd.UID(), series_number=2,
        sop_instance_uid=hd.UID(), instance_number=1, manufacturer='m', manufacturer_model_name='mm',
        software_versions='1', device_serial_number='1', **kw)
