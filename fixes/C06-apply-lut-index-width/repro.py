"""C06 defect: `apply_lut` clips and subtracts `first_mapped_value` in the pixel array's own integer type.
  1. signed pixels, negative first mapped value, table longer than the type's positive range: the index
     `array - first` wraps (int8: 100 - (-128) = 228 -> -28) and a wrong entry is returned silently;
  2. a first/last mapped value outside the array's type (e.g. uint8 pixels behind a table starting at 300, as
     when a VOI LUT is composed with an 8-bit Modality LUT; int8 pixels, first 208) raises OverflowError under
     NumPy 2 instead of mapping every value to the first/last entry.
Run: /venv/bin/python fixes/C06-apply-lut-index-width/repro.py   (exit 1 while the defect is present)
"""
import sys
sys.path.insert(0, '/verif/fixes')
import numpy as np
import _c06_common  # noqa: F401
from highdicom.pixels import apply_lut

bad = 0
table = np.arange(200, dtype=np.uint8)            # entry k holds k
arr = np.array([-128, -100, 0, 71, 100, 127], dtype=np.int8)
want = np.clip(arr.astype(int) + 128, 0, 199)
try:
    got = apply_lut(arr, table, -128)
    print('1. got ', got.tolist(), '\n   want', want.tolist())
    bad |= not np.array_equal(got, want)
except Exception as e:  # noqa: BLE001
    print('1. raised', type(e).__name__, e)
    bad = 1
for arr, first, label in ((np.array([0, 200, 255], dtype=np.uint8), 300, 'uint8 below a table starting at 300'),
                          (np.array([-5, 0, 127], dtype=np.int8), 208, 'int8 below a table starting at 208'),
                          (np.array([0, 7, 255], dtype=np.uint8), -88, 'uint8 against a table starting at -88')):
    t = np.arange(10, 20, dtype=np.uint8)
    want = t[np.clip(arr.astype(int) - first, 0, 9)]
    try:
        got = apply_lut(arr, t, first)
        print('2.', label, 'got', got.tolist(), 'want', want.tolist())
        bad |= not np.array_equal(got, want)
    except Exception as e:  # noqa: BLE001
        print('2.', label, 'raised', type(e).__name__, e)
        bad = 1
sys.exit(bad)
