"""A root container with ObservationDateTime / ObservationUID (and any template id) must parse back unchanged.
    /venv/bin/python fixes/C15-root-observation-attributes/repro.py"""
import sys, io
sys.path.insert(0,'/verif/harness')
import hd_env; hd_env.setup()
import highdicom as hd, pydicom
from pydicom.sr.codedict import codes
from gen import srdocs
ds = srdocs.evidence_dataset('1.2.3','1.2.3.1','1.2.3.1.1','1.2.840.10008.5.1.4.1.1.2')
root = hd.sr.ContainerContentItem(name=codes.DCM.ImagingMeasurementReport, template_id='2000', is_content_continuous=False)
root.ObservationDateTime = '20200101120000'
root.ObservationUID = '1.2.3.4'
root.ContentSequence = hd.sr.ContentSequence([hd.sr.TextContentItem(name=codes.DCM.Finding, value='x', relationship_type='CONTAINS')])
doc = hd.sr.Comprehensive3DSR(evidence=[ds], content=root, series_instance_uid='1.9', series_number=1, sop_instance_uid='1.9.1', instance_number=1, manufacturer='m')
print('in doc:', [k for k in ('ObservationDateTime','ObservationUID','ContentTemplateSequence','ContinuityOfContent') if k in doc])
print('in .content[0]:', [k for k in ('ObservationDateTime','ObservationUID','ContentTemplateSequence','ContinuityOfContent') if k in doc.content[0]])
bio = io.BytesIO(); doc.save_as(bio)
d2 = hd.sr.srread(io.BytesIO(bio.getvalue()))
print('parsed .content[0]:', [k for k in ('ObservationDateTime','ObservationUID','ContentTemplateSequence','ContinuityOfContent') if k in d2.content[0]], d2.content[0].ContinuityOfContent)
