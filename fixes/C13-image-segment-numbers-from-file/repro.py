"""ImageContentItem.referenced_segment_numbers raises TypeError after the item was read from DICOM bytes with more
than one segment number: pydicom yields a plain list (not a MultiValue) for multi-valued US.  Exit 1 while present."""
import os
import sys
sys.path.insert(0, os.path.join(os.path.dirname(os.path.abspath(__file__)), ".."))
from _c13_common import *  # noqa: E402,F401,F403

im = ImageContentItem(NAME, '1.2.840.10008.5.1.4.1.1.66.4', '1.2.3', referenced_segment_numbers=[3, 4],
                      relationship_type='CONTAINS')
back = ImageContentItem.from_dataset(through_bytes(im))
r = attempt(lambda: back.referenced_segment_numbers)
print('in memory', im.referenced_segment_numbers, ' after bytes', r)
sys.exit(0 if r == ('ok', [3, 4]) else 1)
