"""C17: a URN/URL code value of 16 characters or fewer was stored in CodeValue.

DICOM PS3.3 Table 8.8-1: CodeValue (0008,0100) is only for values of <= 16 characters that are NOT a URN or URL;
URN Code Value (0008,0120) is required whenever the code value is a URN or URL.  Before the fix the constructor
looked at the length first, so `urn:oid:1.2.3` (13 characters) or `http://x.org/a` landed in CodeValue.
Exit status 1 = defect present.
"""
import sys
sys.path.insert(0, '/verif/harness')
import hd_env
hd_env.setup()
from highdicom.sr.coding import CodedConcept

bad = []
for v in ['urn:oid:1.2.3', 'http://x.org/a', 'urn:lex:eu:1']:
    c = CodedConcept(v, '99TEST', 'short urn')
    kws = [k for k in ('CodeValue', 'LongCodeValue', 'URNCodeValue') if hasattr(c, k)]
    print(v, '->', kws)
    if kws != ['URNCodeValue']:
        bad.append(v)
sys.exit(1 if bad else 0)
