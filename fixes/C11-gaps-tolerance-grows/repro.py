"""get_volume_positions(allow_missing_positions=True): regularity was tested with
np.allclose(multiples, multiples.round(), rtol, atol), i.e. |m - round m| <= atol + rtol*round(m): the tolerance grew with the
plane number (>= half a spacing from plane 50 at the default 1 %) and atol was taken in units of the spacing instead of mm.
Irregular stacks were accepted and planes mis-placed silently:
  [[0,0,0],[0,0,1],[0,0,100.5]]                       -> (1.0, [100, 100, 0])   two planes one spacing apart share index 100
  [[0,0,0],[0,0,1],[0,0,100.9]]                       -> (1.0, [101, 100, 0])   a plane 0.1 spacing off accepted at rtol 1 %
  100 planes, spacing 1.0, spacing_hint=1.009          -> planes 56 and 57 share index 56
  100 planes, spacing 1.0, spacing_hint=0.9915         -> index 59 skipped
Expected after the fix (tolerance as documented: every plane within atol + rtol*spacing of a whole multiple of the spacing above
the lowest plane): all four refused; exact stacks with gaps and a stack with a plane 0.002 spacing off are still accepted."""
import sys
sys.path.insert(0, '/verif/harness')
import hd_env; hd_env.setup()
from highdicom.spatial import get_volume_positions
ori = [1., 0., 0., 0., 1., 0.]           # normal of the volume convention: -z
g = lambda pos, **k: get_volume_positions(pos, ori, allow_missing_positions=True, **k)
r1 = g([[0., 0., 0.], [0., 0., 1.], [0., 0., 100.5]])
r2 = g([[0., 0., 0.], [0., 0., 1.], [0., 0., 100.9]])
pos = [[0., 0., float(k)] for k in range(100)]
r3 = g(pos, spacing_hint=1.009)
r4 = g(pos, spacing_hint=0.9915)
ok1 = g([[0., 0., 0.], [0., 0., -1.], [0., 0., -4.], [0., 0., -3.]])
ok2 = g([[0., 0., 0.], [0., 0., -1.], [0., 0., -100.002]])
ok3 = g([[0., 0., 0.], [0., 0., -2.], [0., 0., -6.03]], spacing_hint=2.0, atol=0.05)      # atol is in mm
print(r1, r2, r3[0], r4[0], ok1, ok2, ok3)
assert r1 == (None, None) and r2 == (None, None) and r3 == (None, None) and r4 == (None, None)
assert ok1 == (1.0, [0, 1, 4, 3]) and ok2 == (1.0, [0, 1, 100]) and ok3 == (2.0, [0, 1, 3])
print('ok')
