"""C06 defect: `get_frames` (and `_get_pixels_by_frame`: get_volume / get_total_pixel_matrix) decide "single
frame" by `self.pixel_array.ndim == 2`.  For a single-frame COLOUR image the cached pixel array has shape
(rows, columns, 3), so once `pixel_array` has been accessed the code indexes `pixel_array[0]` - the first row -
and the transform refuses it ("Expected an image of shape (R, C, 3)").  The same read succeeds before the
cache is populated and `get_frame` (which tests `number_of_frames == 1`) always succeeds.
Run: /venv/bin/python fixes/C06-single-frame-colour-cache/repro.py   (exit 1 while the defect is present)
"""
import sys
sys.path.insert(0, '/verif/fixes')
import numpy as np
from _c06_common import image, report

P = {'bits': 8, 'photometric': 'RGB', 'frames': [[[[21, 199, 14], [1, 2, 3]]]], 'T': {}}
im = image(P)
before = im.get_frames()
print('before the cache:', before.tolist())
_ = im.pixel_array
try:
    after = im.get_frames()
except Exception as e:  # noqa: BLE001
    report(f'{type(e).__name__}: {e}', before)
    sys.exit(1)
report(after, before)
sys.exit(0 if np.array_equal(after, before) else 1)
