"""Follow-up to repro.py (review of 41ae887): a TILED_SPARSE source image that lacks tile (1, 4) of a 4 x 6 matrix in 2 x 3
tiles (a background tile left out); LABELMAP mask given as total pixel matrix, empty on the missing tile,
omit_empty_frames=True.  The three stored frames are the tiles source frames 1, 2, 3 show -- but the one missing tile switched
off the derivation reference of EVERY frame and get_pixels_by_source_frame raised.  Exit 1 while the defect is present."""
import os
import sys
sys.path.insert(0, os.path.join(os.path.dirname(os.path.abspath(__file__)), '..', '..', 'harness'))
import hd_env  # noqa: E402
hd_env.setup()
import numpy as np  # noqa: E402
import highdicom as hd  # noqa: E402
from gen.sources import slide_image, seg_description  # noqa: E402

R, C, tr, tc = 4, 6, 2, 3
ds, _ = slide_image(R, C, tr, tc, tiled_full=False, omit=[(0, 1)])
mask = np.zeros((1, R, C), dtype=np.uint8)
mask[0, 0, 0], mask[0, 2, 1], mask[0, 3, 5] = 1, 2, 1
seg = hd.seg.Segmentation([ds], mask, 'LABELMAP', [seg_description(1), seg_description(2)], tile_pixel_array=True,
                          omit_empty_frames=True, series_instance_uid=hd.UID(), series_number=2, sop_instance_uid=hd.UID(),
                          instance_number=1, manufacturer='v', manufacturer_model_name='m', software_versions='1',
                          device_serial_number='1')
named = [int(it.DerivationImageSequence[0].SourceImageSequence[0].ReferencedFrameNumber) if len(it.DerivationImageSequence) else None
         for it in seg.PerFrameFunctionalGroupsSequence]
print('stored frames name source frames', named)
try:
    got = seg.get_pixels_by_source_frame(ds.SOPInstanceUID, [1, 2, 3], combine_segments=True)
    want = [mask[0, 0:2, 0:3], mask[0, 2:4, 0:3], mask[0, 2:4, 3:6]]
    ok = all(np.array_equal(g, w) for g, w in zip(got, want))
    print('read by source frame', 'matches' if ok else 'DIFFERS')
except Exception as e:  # noqa: BLE001
    print(f'{type(e).__name__}: {str(e)[:120]}')
    ok = False
sys.exit(0 if ok and named == [1, 2, 3] else 1)
