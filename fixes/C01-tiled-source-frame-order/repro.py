"""Segmentation(tile_pixel_array=True) of a TILED_SPARSE slide image that lists its four tiles in the order
[(3,4), (1,1), (3,1), (1,4)] (legal: positions are explicit per frame): segmentation tile k was recorded as derived,
spatial locations preserved, from source frame k + 1 -- a frame showing a different region -- so reading the mask back
by source frame returned the mask of another tile.  Exit 1 while the defect is present."""
import os
import sys
sys.path.insert(0, os.path.join(os.path.dirname(os.path.abspath(__file__)), '..', '..', 'harness'))
import hd_env  # noqa: E402
hd_env.setup()
import numpy as np  # noqa: E402
import highdicom as hd  # noqa: E402
from gen.sources import slide_image, seg_description  # noqa: E402

R, C, tr, tc = 4, 6, 2, 3
ds, _ = slide_image(R, C, tr, tc, tiled_full=False, frame_order=[3, 0, 2, 1])
mask = np.zeros((1, R, C), dtype=np.uint8)
mask[0, 0, 0], mask[0, 0, 4], mask[0, 2, 1], mask[0, 3, 5], mask[0, 3, 4] = 1, 2, 2, 1, 2      # four different tiles
seg = hd.seg.Segmentation([ds], mask, 'LABELMAP', [seg_description(1), seg_description(2)], tile_pixel_array=True,
                          omit_empty_frames=False, series_instance_uid=hd.UID(), series_number=2, sop_instance_uid=hd.UID(),
                          instance_number=1, manufacturer='v', manufacturer_model_name='m', software_versions='1',
                          device_serial_number='1')
bad = 0
for f in range(1, 5):
    pp = ds.PerFrameFunctionalGroupsSequence[f - 1].PlanePositionSlideSequence[0]
    r0, c0 = pp.RowPositionInTotalImagePixelMatrix - 1, pp.ColumnPositionInTotalImagePixelMatrix - 1
    got = seg.get_pixels_by_source_frame(ds.SOPInstanceUID, [f], combine_segments=True)[0]
    want = mask[0, r0:r0 + tr, c0:c0 + tc]
    ok = np.array_equal(got, want)
    bad += not ok
    print(f'source frame {f} shows rows {r0}..{r0 + tr - 1}, columns {c0}..{c0 + tc - 1}: mask read back',
          'matches' if ok else f'DIFFERS {got.tolist()} != {want.tolist()}')
sys.exit(1 if bad else 0)
