"""C06-linear-width-one: a LINEAR window of width exactly 1 (legal, PS3.3 C.11.2.1.2.1: a step at centre - 0.5).
Before the fix `apply_voi_window` divided by width - 1 = 0: the pixel equal to centre - 0.5 became NaN (and numpy warned
about the division).  Expected (standard and pydicom.apply_windowing): lower output value for x <= c - 0.5, upper above."""
import os
import sys
import warnings

sys.path.insert(0, os.path.join(os.environ.get('HD_REPO', '/repo'), 'src'))
import numpy as np
from highdicom.pixels import apply_voi_window

warnings.simplefilter('error')          # the division by zero used to warn as well
bad = []
for dtype in (np.float64, np.float32):
    for invert in (False, True):
        x = np.array([[9, 10, 11]], dtype=np.int16)
        out = apply_voi_window(x, window_center=10.5, window_width=1, voi_lut_function='LINEAR',
                               output_range=(2.0, 5.0), dtype=dtype, invert=invert)
        want = np.array([[5.0, 5.0, 2.0]] if invert else [[2.0, 2.0, 5.0]], dtype=dtype)
        ok = out.dtype == np.dtype(dtype) and out.shape == x.shape and np.array_equal(out, want)
        print(dtype.__name__, 'invert' if invert else 'plain', out.tolist(), 'ok' if ok else 'WRONG')
        if not ok:
            bad.append((dtype.__name__, invert, out.tolist()))
sys.exit(1 if bad else 0)
