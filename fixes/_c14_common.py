"""Shared helpers of the C14 repro scripts: tiny content items with colliding names."""
import os
import sys
sys.path.insert(0, os.path.join(os.path.dirname(os.path.abspath(__file__)), '..', 'harness'))
import hd_env  # noqa: E402
hd_env.setup()
from highdicom.sr import ContainerContentItem, ContentSequence, TextContentItem  # noqa: E402,F401
from highdicom.sr.coding import CodedConcept  # noqa: E402


def name(k):
    return CodedConcept(str(1000 + k), '99HDV', f'name {k}')


def text(k, u, rel='CONTAINS'):
    return TextContentItem(name(k), f'item {u}', relationship_type=rel)


def container(k, rel=None):
    return ContainerContentItem(name(k), relationship_type=rel)


def values(seq):
    return [getattr(i, 'TextValue', '<container>') for i in seq]


def attempt(f):
    try:
        return ('ok', f())
    except Exception as e:  # noqa: BLE001
        return ('raised', type(e).__name__)
