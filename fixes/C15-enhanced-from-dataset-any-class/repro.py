"""C15-enhanced-from-dataset-any-class: `EnhancedSR.from_dataset` accepts a document of ANY SR storage class.

`ComprehensiveSR.from_dataset` and `Comprehensive3DSR.from_dataset` refuse a data set of another SOP class (ValueError);
`EnhancedSR` had no `from_dataset` of its own and inherited `_SR.from_dataset`, which checks nothing: a Comprehensive 3D SR
document with SCOORD3D content is returned as an `EnhancedSR` object (SOPClassUID still Comprehensive 3D SR Storage) - an
object of the class that cannot hold 3-D coordinates, holding them.
Run: HD_REPO=<repo> /venv/bin/python fixes/C15-enhanced-from-dataset-any-class/repro.py   (exit 1 = defect present)
"""
import io
import os
import sys
sys.path.insert(0, os.path.join(os.path.dirname(os.path.abspath(__file__)), '..', '..', 'harness'))
import hd_env  # noqa: E402
hd_env.setup()
import numpy as np  # noqa: E402
import pydicom  # noqa: E402
import highdicom as hd  # noqa: E402
from gen import srdocs  # noqa: E402

sr = hd.sr
name = sr.CodedConcept(value='121071', scheme_designator='DCM', meaning='Finding')
ev = [srdocs.evidence_dataset('1.2', '1.2.1', '1.2.3', '1.2.840.10008.5.1.4.1.1.2')]


def document(K, with_3d):
    root = sr.ContainerContentItem(name=name)
    items = [sr.TextContentItem(name=name, value='t', relationship_type='CONTAINS')]
    if with_3d:
        items.append(sr.Scoord3DContentItem(name=name, graphic_type='POINT', graphic_data=np.array([[1.0, 2.0, 3.0]]),
                                            frame_of_reference_uid='1.2.3.4', relationship_type='CONTAINS'))
    root.ContentSequence = sr.ContentSequence(items)
    d = K(evidence=ev, content=root, series_instance_uid='1.2.9', series_number=1, sop_instance_uid='1.2.9.1',
          instance_number=1, manufacturer='v')
    bio = io.BytesIO()
    d.save_as(bio)
    return bio.getvalue()


bad = 0
classes = [sr.EnhancedSR, sr.ComprehensiveSR, sr.Comprehensive3DSR]
for W in classes:
    blob = document(W, with_3d=W is sr.Comprehensive3DSR)
    for K in classes:
        try:
            x = K.from_dataset(pydicom.dcmread(io.BytesIO(blob)))
            outcome = f'accepted as {type(x).__name__}'
            ok = K is W
        except ValueError as e:
            outcome = f'refused ({e})'
            ok = K is not W
        print(f'{W.__name__:18} document, {K.__name__:18}.from_dataset: {outcome}' + ('' if ok else '   <-- WRONG'))
        bad += not ok
sys.exit(1 if bad else 0)
