"""A binary 3-D float mask for a LABELMAP segmentation whose descriptions do not include segment number 1 (here [3]) is
accepted and stored under the undescribed pixel value 1: every described segment reads back empty, while the same mask
as uint8 is refused ('Pixel array contains segments that lack descriptions.').  Exit 1 while the defect is present."""
import os
import sys
sys.path.insert(0, os.path.join(os.path.dirname(os.path.abspath(__file__)), '..'))
from _c01_common import ct_series, make  # noqa: E402
import numpy as np  # noqa: E402

src = ct_series(2, 2, 3)
mask = np.array([[[1, 0, 0], [0, 1, 0]], [[0, 0, 1], [1, 1, 0]]], dtype=np.float32)
try:
    make(src, mask.astype(np.uint8), 'LABELMAP', [3], omit_empty_frames=False)
    print('the integer mask is accepted as well (unexpected)')
except ValueError as e:
    print('integer mask refused:', e)
try:
    seg = make(src, mask, 'LABELMAP', [3], omit_empty_frames=False)
except ValueError as e:
    print('float mask refused:', e)
    sys.exit(0)
out = seg.get_pixels_by_source_instance([s.SOPInstanceUID for s in src], assert_missing_frames_are_empty=True)
print('float mask accepted; stored pixel values', sorted(set(seg.pixel_array.reshape(-1).tolist())), 'described', [3],
      '; segment 3 reads back with', int(out.sum()), 'pixels set')
sys.exit(1)
