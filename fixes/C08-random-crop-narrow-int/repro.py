"""C08-random-crop-narrow-int: `random_spatial_crop` computes `d - c` with `c` in the caller's numpy integer type.

With a requested shape spelled in a narrow numpy integer type (np.uint8 / np.int16 array or scalars - what
`np.array(shape, dtype=...)`, an image header or another array's `.shape` arithmetic yields) and an axis longer than that
type can hold, numpy refuses the mixed subtraction (`OverflowError: Python integer 300 out of bounds for uint8`): a valid
crop request is refused.  The sibling methods (`crop_to_spatial_shape`, `pad_to_spatial_shape`,
`pad_or_crop_to_spatial_shape`) normalise the requested shape with `operator.index` first (fix 8ffe6e2).

Exit 1 when the defect shows, 0 otherwise.   HD_REPO=<copy> /venv/bin/python repro.py
"""
import os
import sys

sys.path.insert(0, os.path.join(os.path.dirname(os.path.abspath(__file__)), '..', '..', 'harness'))
import numpy as np  # noqa: E402
import hd_env  # noqa: E402

hd_env.setup()
from highdicom.volume import VolumeGeometry  # noqa: E402

g = VolumeGeometry(np.eye(4), [300, 4, 3], 'PATIENT')
bad = 0
for shp in (np.array([135, 2, 2], dtype=np.uint8), [np.uint8(2)] * 3, np.array([2, 2, 2], dtype=np.int64), [2, 2, 2]):
    np.random.seed(1)
    try:
        r = g.random_spatial_crop(shp)
        ok = [int(x) for x in r.spatial_shape] == [int(x) for x in shp]
        print(repr(shp), '->', r.spatial_shape, 'ok' if ok else 'WRONG SHAPE')
        bad += not ok
    except Exception as e:  # noqa: BLE001
        print(repr(shp), '->', type(e).__name__, e)
        bad += 1
sys.exit(1 if bad else 0)
