"""TcoordContentItem.value returned the data element's own MultiValue for several time points: editing what the accessor
hands out changed what the item reports and writes afterwards.  Exit 1 while the defect is present."""
import os
import sys
sys.path.insert(0, os.path.join(os.path.dirname(os.path.abspath(__file__)), ".."))
from _c13_common import *  # noqa: E402,F401,F403
t = TcoordContentItem(NAME, 'MULTIPOINT', referenced_sample_positions=[5, 6], relationship_type='CONTAINS')
v = t.value
v[0] = 99
v.append(7)
back = TcoordContentItem.from_dataset(through_bytes(t))
print('after editing the returned value the item reports', list(t.value), 'and writes', list(back.value))
sys.exit(0 if list(t.value) == [5, 6] and list(back.value) == [5, 6] else 1)
