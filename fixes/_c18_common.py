import io, sys
sys.path.insert(0, '/verif/harness')
import hd_env
hd_env.setup()
import numpy as np
import highdicom as hd
from pydicom.sr.coding import Code
from highdicom.ann import AnnotationGroup, Measurements, MicroscopyBulkSimpleAnnotations, annread
from gen.sources import slide_image


def group(n, meas):
    gd = [np.array([[1.0 + i, 2.0], [3.0, 4.0 + i], [5.0, 7.0]], np.float32) for i in range(n)]
    return AnnotationGroup(number=1, uid=hd.UID(), label='g', annotated_property_category=Code('91723000', 'SCT', 'Anatomical Structure'),
                           annotated_property_type=Code('4421005', 'SCT', 'Cell'), graphic_type='POLYGON', graphic_data=gd,
                           algorithm_type='MANUAL', measurements=meas)


def measurements(values):
    return Measurements(Code('42798000', 'SCT', 'Area'), np.asarray(values, np.float64), Code('um2', 'UCUM', 'square micrometer'))


def written_and_read(g):
    src = slide_image(8, 8, 4, 4)[0]
    ann = MicroscopyBulkSimpleAnnotations([src], '2D', [g], hd.UID(), 1, hd.UID(), 1, 'm', 'mm', '1', 'sn')
    b = io.BytesIO()
    ann.save_as(b)
    b.seek(0)
    return annread(b).get_annotation_group(number=1)
