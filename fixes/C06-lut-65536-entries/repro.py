"""C06 defect: `LUT.lut_data` compares the decoded array length with the raw first descriptor value, which
is 0 for a table of 65536 entries (PS3.3 C.11.1.1) - the accessor of a table the constructor itself accepts
raises "Expected 0, found 65536", and with it `apply`, `get_scaled_lut_data`, `get_inverted_lut_data`.
Run: /venv/bin/python fixes/C06-lut-65536-entries/repro.py   (exit 1 while the defect is present)
"""
import sys
sys.path.insert(0, '/verif/fixes')
import numpy as np
import highdicom as hd
import _c06_common  # noqa: F401

data = (np.arange(65536, dtype=np.uint32) * 7 % 65536).astype(np.uint16)
lut = hd.LUT(first_mapped_value=0, lut_data=data)
print('descriptor', list(lut.LUTDescriptor), 'number_of_entries', lut.number_of_entries)
try:
    back = lut.lut_data
except Exception as e:  # noqa: BLE001
    print('lut_data raised', type(e).__name__, e)
    sys.exit(1)
ok = np.array_equal(back, data) and np.array_equal(lut.apply(np.array([0, 5, 65535], dtype=np.uint16)), data[[0, 5, 65535]])
print('table returned as given:', ok)
sys.exit(0 if ok else 1)
