"""`_check_short_string` / `_check_long_string` / `_check_short_text` / `_check_long_text` accepted control characters
that PS3.5 6.2 excludes from SH/LO (all but ESC) and ST/LT (all but TAB, LF, FF, CR, ESC), e.g. a series description
'a\\nb' or a NUL byte: `guard_sound` (accepted => valid for the VR) failed on the witness 'a\\nb' for LO.  pydicom's
strict writer does not look at these characters, so such a value ended up in the file.  Fixed by refusing them."""
import sys
sys.path.insert(0, '/verif/harness')
import hd_env
hd_env.setup()
from highdicom import valuerep as v
bad = 0
for f, s in [(v._check_long_string, 'a\nb'), (v._check_short_string, 'a\x00'), (v._check_short_text, 'a\x07'),
             (v._check_long_text, 'a\x7f')]:
    try:
        f(s)
        print('DEFECT:', f.__name__, repr(s), 'accepted')
        bad = 1
    except ValueError:
        print('ok:', f.__name__, repr(s), 'rejected')
for f, s in [(v._check_long_string, 'a\x1b$B'), (v._check_long_text, 'a\r\n\tb\x0c')]:
    f(s)   # must stay accepted
sys.exit(bad)
