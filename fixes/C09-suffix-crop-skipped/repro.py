"""match_geometry decided 'crop needed' by crop_start > 0 or crop_stop < out_shape (never true for stride >= 1):
a target that is the source with only the END of an axis cropped, or subsampled from index 0, came back
uncropped (wrong shape).  Exit 1 = defect present."""
import sys, os
sys.path.insert(0, os.path.join(os.path.dirname(os.path.abspath(__file__)), "..", "..", "harness"))
import hd_env; hd_env.setup()
import numpy as np
from highdicom.volume import Volume, VolumeGeometry, VolumeToVolumeTransformer
arr = np.arange(1, 4 * 5 * 6 + 1).reshape(4, 5, 6).astype(np.int32)
def vol(uid="1.2.3", spacing=(1.0, 1.0, 1.0), position=(0.0, 0.0, 0.0), direction=np.eye(3)):
    return Volume.from_components(arr, spacing=list(spacing), position=list(position), direction=direction,
                                  coordinate_system="PATIENT", frame_of_reference_uid=uid)

v = vol()
bad = []
for name, tgt in (("suffix", v[:3]), ("stride", v[::2]), ("pad+suffix", v.pad([[1, 0], [0, 0], [0, 0]])[:4])):
    try:
        r = v.match_geometry(tgt)
        ok = r.spatial_shape == tgt.spatial_shape and np.array_equal(r.array, tgt.array)
    except RuntimeError as e:   # with the final check of f6a8aef the unfixed condition surfaces as a refusal
        ok = False
    print(name, "ok" if ok else "WRONG")
    bad.append(not ok)
sys.exit(1 if any(bad) else 0)
