"""create_affine_matrix_from_components(spacing=2.0) raised TypeError('len() of unsized object'):
the tripled scalar was overwritten by np.array(spacing) (a 0-d array) before the length test.
Expected after the fix: columns of length 2.0 along L, P, H and the given position."""
import sys
sys.path.insert(0, '/verif/harness')
import hd_env; hd_env.setup()
import numpy as np
from highdicom.spatial import create_affine_matrix_from_components
from highdicom import VolumeGeometry
a = create_affine_matrix_from_components(spacing=2.0, position=[1.0, 2.0, 3.0], patient_orientation='LPH')
print(a)
assert np.array_equal(a, np.array([[2., 0, 0, 1], [0, 2., 0, 2], [0, 0, 2., 3], [0, 0, 0, 1]]))
g = VolumeGeometry.from_components((2, 3, 4), spacing=0.5, coordinate_system='PATIENT', center_position=[0., 0., 0.],
                                   direction=np.eye(3))
assert g.spacing == (0.5, 0.5, 0.5)
print('ok')
