"""sr/templates.py::_count_roi_items raised for every container that IS named "Measurement Group" (== instead
of !=): every measurement-group query on a report whose group containers carry no template identification
(ContentTemplateSequence is conditional and absent from many third-party reports) raised ValueError.
    /venv/bin/python fixes/C16-count-roi-items-inverted/repro.py"""
import sys
sys.path.insert(0, '/verif/harness')
import hd_env; hd_env.setup()
import random
from gen import srreports
rep, groups, pool = srreports.report(random.Random(1), n_groups=2)
for g in rep._find_measurement_groups():
    if 'ContentTemplateSequence' in g:
        del g.ContentTemplateSequence
bad = 0
for m in ('get_planar_roi_measurement_groups', 'get_volumetric_roi_measurement_groups', 'get_image_measurement_groups'):
    try:
        print(m, len(getattr(rep, m)()))
    except ValueError as e:
        print(m, 'ValueError:', e); bad += 1
sys.exit(1 if bad else 0)
