"""seq += [items] used pydicom's list implementation: no relationship type rule, no look-up table update.
Exit 1 while the defect is present."""
import os
import sys
sys.path.insert(0, os.path.join(os.path.dirname(os.path.abspath(__file__)), ".."))
from _c14_common import *  # noqa: E402,F401,F403

s = ContentSequence([text(0, 1)])
r = attempt(lambda: s.__iadd__([text(1, 2, None)]))
s2 = ContentSequence([text(0, 1)])
s2 += [text(1, 2)]
found = values(s2.find(name(1)))
print('+= of an item without relationship type:', r, ' find after += of a valid item:', found)
sys.exit(0 if r[0] == 'raised' and found == ['item 2'] else 1)
