"""C06 defect: a VOI LUT inside the Frame VOI LUT functional group (PS3.3 C.7.6.16.2.10b "Frame VOI LUT With LUT":
FrameVOILUTSequence > VOILUTSequence, shared or per-frame) is ignored: `_CombinedPixelTransform` looks for
VOILUTSequence at the image level only.  apply_voi_transform=None silently applies nothing, =True raises
"A VOI transform is required but not found"; the same table at image level is applied.
Run: /venv/bin/python fixes/C06-frame-voi-lut-ignored/repro.py   (exit 1 while the defect is present)
"""
import sys
sys.path.insert(0, '/verif/fixes')
import numpy as np
import highdicom as hd
from pydicom.dataset import Dataset
from pydicom.sequence import Sequence
import _c06_common  # noqa: F401
from gen.pixeltransforms import lut_item, make_image

bad = 0
for place in ('shared', 'perframe'):
    P = {'bits': 8, 'photometric': 'MONOCHROME2', 'frames': [[[0, 1], [2, 3]], [[3, 2], [1, 0]]], 'T': {}}
    ds = make_image(P)
    tables = [[10, 20, 30, 40], [40, 30, 20, 10]]
    if place == 'shared':
        it = Dataset()
        it.VOILUTSequence = Sequence([lut_item(0, 8, tables[0])])
        sh = Dataset()
        sh.FrameVOILUTSequence = Sequence([it])
        ds.SharedFunctionalGroupsSequence = Sequence([sh])
    else:
        pf = []
        for t in tables:
            it = Dataset()
            it.VOILUTSequence = Sequence([lut_item(0, 8, t)])
            g = Dataset()
            g.FrameVOILUTSequence = Sequence([it])
            pf.append(g)
        ds.PerFrameFunctionalGroupsSequence = Sequence(pf)
    im = hd.Image.from_dataset(ds)
    for f in (0, 1):
        t = np.array(tables[0 if place == 'shared' else f], dtype=float)
        want = (t[np.array(P['frames'][f])] - 10) / 30
        for flag in (None, True):
            try:
                got = im.get_frame(f + 1, apply_voi_transform=flag)
                ok = np.allclose(got, want)
                print(place, 'frame', f + 1, 'apply_voi_transform =', flag, '->', got.tolist(), 'ok' if ok else 'WRONG (want %s)' % want.tolist())
                bad |= not ok
            except Exception as e:  # noqa: BLE001
                print(place, 'frame', f + 1, 'apply_voi_transform =', flag, 'raised', type(e).__name__, e)
                bad = 1
sys.exit(bad)
