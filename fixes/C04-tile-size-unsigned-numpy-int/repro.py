"""C04 defect candidate: tile_size given as unsigned numpy integers.

Segmentation(tile_pixel_array=True, tile_size=(np.uint8(8), np.uint8(20))) stores Rows/Columns from the numpy scalars; the
tiling / reading arithmetic then runs in uint8 and wraps around.
Run:  /venv/bin/python fixes/C04-tile-size-unsigned-numpy-int/repro.py     (exit 1 while the defect is present)
"""
import os
import sys
sys.path.insert(0, os.path.join(os.path.dirname(os.path.abspath(__file__)), '..', '..', 'harness'))
import hd_env
hd_env.setup()
import numpy as np
import highdicom as hd
from gen.sources import seg_description, slide_image

bad = 0
src, _ = slide_image(30, 50, 10, 10, tiled_full=True)
mask = (np.arange(30 * 50).reshape(1, 30, 50) % 7 == 0).astype(np.uint8)
for typ in (int, np.int64, np.uint16, np.uint8):
    for org in ('TILED_SPARSE', 'TILED_FULL'):
        try:
            seg = hd.seg.Segmentation([src], mask.copy(), 'BINARY', [seg_description(1)], hd.UID(), 1, hd.UID(), 1, 'm', 'mm', '1', 'dev',
                                      tile_pixel_array=True, tile_size=(typ(8), typ(20)), dimension_organization_type=org,
                                      omit_empty_frames=False)
            back = seg.get_total_pixel_matrix(combine_segments=True)
            ok = np.array_equal(back, mask[0])
            sub = seg.get_total_pixel_matrix(row_start=9, row_end=25, column_start=21, column_end=45, combine_segments=True)
            ok2 = np.array_equal(sub, mask[0][8:24, 20:44])
            print(typ.__name__, org, 'Rows/Columns', type(seg.Rows).__name__, seg.Rows, seg.Columns, 'frames', seg.NumberOfFrames,
                  'full read equal:', ok, 'region equal:', ok2)
            bad += not (ok and ok2)
        except Exception as e:  # noqa: BLE001
            print(typ.__name__, org, 'raised', type(e).__name__, str(e)[:90])
            bad += 1
sys.exit(1 if bad else 0)
