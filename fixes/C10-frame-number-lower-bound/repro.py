"""C10-frame-number-lower-bound: a 1-based frame number of 0 or below is answered with the geometry of ANOTHER frame.

`_get_spatial_information` indexes `PerFrameFunctionalGroupsSequence[frame_number - 1]` without a lower bound, so for a multi-frame
image with per-frame positions frame_number=0 gives the transformer of the LAST frame, -1 of the one before, ...; only numbers below
-(n - 1) and above n raise IndexError.  (TILED_FULL images refuse 0 already.)   Run: /venv/bin/python repro.py  -> exit 1 before the fix."""
import os
import sys
sys.path.insert(0, os.path.join(os.path.dirname(os.path.abspath(__file__)), '..', '..', 'harness'))
import hd_env  # noqa: E402
hd_env.setup()
import numpy as np  # noqa: E402
from gen import sources  # noqa: E402
from highdicom.spatial import PixelToReferenceTransformer, ReferenceToPixelTransformer  # noqa: E402

ds = sources.enhanced_multiframe(3, 4, 5, origin=(0.0, 0.0, 0.0), slice_spacing=2.0)      # slices at z = 0, 2, 4
bad = []
for f in (0, -1, -2, -3, 4):
    for cls in (PixelToReferenceTransformer, ReferenceToPixelTransformer):
        try:
            t = cls.for_image(ds, frame_number=f)
        except (IndexError, ValueError, TypeError) as e:
            print(f'frame_number={f}: {cls.__name__} refused ({type(e).__name__})')
        else:
            z = float(np.linalg.inv(t.affine)[2, 3]) if cls is ReferenceToPixelTransformer else float(t.affine[2, 3])
            print(f'frame_number={f}: {cls.__name__} ACCEPTED, origin z = {z}')
            bad.append(f)
for f in (1, 2, 3):
    assert float(PixelToReferenceTransformer.for_image(ds, frame_number=f).affine[2, 3]) == 2.0 * (f - 1)
sys.exit(1 if bad else 0)
