#!/venv/bin/python
"""tools/reverdict.py <seeded-id>...   -- re-run the registered check against a kept seeded change (seeded/<id>/patch.diff)
with the CURRENT machinery and record the verdict in its meta.json, keeping the verdict of the first run
(`first_verdict`, `first_no_failing_input`).  Demo and baseline were confirmed when the change was ingested and are not
repeated.  A patch that no longer applies to the current tree (the code it touched was changed by a later fix) is marked
`stale_patch` and its last verdict is kept."""
import json, os, re, subprocess, sys
R = os.path.normpath(os.path.join(os.path.dirname(os.path.abspath(__file__)), '..'))
for sid in sys.argv[1:]:
    d = os.path.join(R, 'seeded', sid)
    prop = re.sub(r'^R\d', '', sid.split('-')[0])
    m = json.load(open(os.path.join(d, 'meta.json')))
    conf = m.setdefault('confirmed', {})
    logp = os.path.join(d, f'check_{prop}.log')
    old_log = open(logp).read() if os.path.exists(logp) else ''
    env = dict(os.environ, MUT_TAIL='25', MUT_REPLAY_BYTES='1500')
    p = subprocess.run([os.path.join(R, 'tools', 'mutcheck.sh'), os.path.join(d, 'patch.diff'), prop],
                       capture_output=True, text=True, env=env)
    out = p.stdout + p.stderr
    if p.returncode == 3 or 'patch does not apply' in out:
        m['stale_patch'] = 'no longer applies to the current tree (the code it touched was changed by a later fix); last verdict kept'
        json.dump(m, open(os.path.join(d, 'meta.json'), 'w'), indent=1)
        print(sid, 'STALE')
        continue
    m.pop('stale_patch', None)
    if not m.get('first_verdict'):
        m['first_verdict'] = conf.get('checks_run', [])
        m['first_no_failing_input'] = [prop] if 'no-failing-input-found' in old_log else []
    others = [c for c in conf.get('checks_run', []) if not c.startswith(prop + ':')]
    conf['checks_run'] = [f'{prop}:rc={p.returncode}'] + others
    nfi = [x for x in (conf.get('no_failing_input') or []) if x != prop]
    if 'no-failing-input-found' in out:
        nfi.append(prop)
    conf['no_failing_input'] = nfi
    conf['reverdict'] = 'tools/reverdict.py: registered check re-run against the kept patch with the final machinery'
    open(logp, 'w').write(out)
    json.dump(m, open(os.path.join(d, 'meta.json'), 'w'), indent=1)
    line = [l for l in out.splitlines() if l.startswith('VIOLATION')]
    print(sid, f'rc={p.returncode}', line[0] if line else '')
