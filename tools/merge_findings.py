#!/venv/bin/python
"""known_findings.json = merge of findings/Cnn.json (each a list of entries).  Run at commit time, never by a check."""
import glob, json, os
HERE = os.path.dirname(os.path.abspath(__file__))
out = []
for f in sorted(glob.glob(os.path.join(HERE, '..', 'findings', 'C*.json'))):
    out += json.load(open(f))
fixed = [f"fixed: property={e['property']} {e.get('commit','?')} {e['what']}" for e in out if e.get('status') == 'fixed']
json.dump({'findings': out, 'fixed_lines': fixed}, open(os.path.join(HERE, '..', 'known_findings.json'), 'w'), indent=1)
print(len(out), 'entries')
