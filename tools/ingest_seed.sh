#!/bin/bash
# tools/ingest_seed.sh <Cnn> <k> [check-ids...]
# Confirms a seeded change written by an independent sub-agent (/tmp/seed/Cnn.out/k/{patch.diff,demo.py,meta.json}):
#   1. applies the patch to a scratch copy of /repo's CURRENT tree (outside /repo and /verif),
#   2. demo must fail with the change and pass without it,
#   3. the 609 baseline tests must still pass with the change (fast baseline),
#   4. runs the registered check(s) against the changed copy (isolated copy of /verif) and records the verdict,
#   5. keeps it as /verif/seeded/Cnn-k/ {patch.diff, demo.py, meta.json}; removes the scratch.
set -u
ID=$1; K=$2; shift 2
CHECKS=${*:-$ID}
SRC=/tmp/seed/$ID.out/$K
[ -f "$SRC/patch.diff" ] || { echo "no $SRC/patch.diff"; exit 3; }
S=$(mktemp -d /tmp/ing_XXXXXX)
trap 'rm -rf "$S"' EXIT
rsync -a --exclude .git /repo/ "$S/clean/"
rsync -a --exclude .git /repo/ "$S/repo/"
if ! ( cd "$S/repo" && patch -p1 --no-backup-if-mismatch -F3 < "$SRC/patch.diff" > "$S/patch.log" 2>&1 ); then
  echo "PATCH-DOES-NOT-APPLY (tree moved on)"; cat "$S/patch.log" | tail -5; exit 4; fi
find "$S/repo" -name '*.orig' -delete
( cd "$S" && HD_REPO="$S/clean" timeout 900 /venv/bin/python "$SRC/demo.py" > "$S/demo_clean.log" 2>&1 ); RC_CLEAN=$?
( cd "$S" && HD_REPO="$S/repo" timeout 900 /venv/bin/python "$SRC/demo.py" > "$S/demo_mut.log" 2>&1 ); RC_MUT=$?
echo "demo: clean rc=$RC_CLEAN mutated rc=$RC_MUT"
if [ $RC_CLEAN -ne 0 ] || [ $RC_MUT -eq 0 ]; then echo "DEMO-NOT-CONFIRMED"; tail -5 "$S/demo_clean.log" "$S/demo_mut.log"; exit 5; fi
BL=$(/verif/tools/baseline.py "$S/repo" 2>&1 | head -3); echo "$BL"
echo "$BL" | grep -q ", 0 missing" || { echo "BASELINE-BROKEN-BY-PATCH"; exit 6; }
( cd "$S/repo" && diff -ruN "$S/clean/src" "$S/repo/src" | sed "s#$S/clean/#a/#; s#$S/repo/#b/#" > "$S/rebased.diff" )
mkdir -p "$S/res"
VERDICTS=""
for C in $CHECKS; do
  MUT_TAIL=25 MUT_REPLAY_BYTES=1500 /verif/tools/mutcheck.sh "$S/rebased.diff" "$C" > "$S/res/$C.log" 2>&1; RC=$?
  LINE=$(grep -m1 "^VIOLATION" "$S/res/$C.log" || true)
  echo "check $C: rc=$RC $LINE"
  VERDICTS="$VERDICTS $C:rc=$RC"
done
D=/verif/seeded/$ID-$K
mkdir -p "$D"
cp "$S/rebased.diff" "$D/patch.diff"
# the kept demo finds the sandbox shim next to the seeded directories instead of /tmp/seedkit
sed "s#'/tmp/seedkit'#__import__('os').path.join(__import__('os').path.dirname(__import__('os').path.abspath(__file__)), '..')#" "$SRC/demo.py" > "$D/demo.py"
/venv/bin/python - "$SRC/meta.json" "$D/meta.json" "$VERDICTS" "$RC_CLEAN" "$RC_MUT" "$D" "$S/res" <<'PY'
import json, os, sys, datetime
src, dst, verdicts, rc_clean, rc_mut, D, RES = sys.argv[1:8]
try:
    m = json.load(open(src))
except Exception:
    m = {}


def no_input(path):
    try:
        return 'no-failing-input-found' in open(path).read()
    except Exception:
        return False
# keep the verdict of the FIRST run against the registered check (before any strengthening); the old logs are still in D
try:
    prev = json.load(open(dst))
    m['first_verdict'] = prev.get('first_verdict') or prev.get('confirmed', {}).get('checks_run')
    if 'first_no_failing_input' in prev:
        m['first_no_failing_input'] = prev['first_no_failing_input']
    elif not prev.get('first_verdict'):
        m['first_no_failing_input'] = [c.split(':rc=')[0] for c in prev.get('confirmed', {}).get('checks_run', [])
                                       if no_input(os.path.join(D, 'check_' + c.split(':rc=')[0] + '.log'))]
except Exception:
    pass
nfi = [c.split(':rc=')[0] for c in verdicts.split() if no_input(os.path.join(RES, c.split(':rc=')[0] + '.log'))]
m['confirmed'] = {
    'demo_rc_clean_tree': int(rc_clean), 'demo_rc_with_change': int(rc_mut),
    'baseline_609_with_change': 'all pass (tools/baseline.py, fast mode)',
    'checks_run': verdicts.split(), 'no_failing_input': nfi, 'how': 'tools/ingest_seed.sh: scratch copy of /repo + isolated copy of /verif, HD_REPO pointing at the changed copy',
}
json.dump(m, open(dst, 'w'), indent=1)
PY
for C in $CHECKS; do cp "$S/res/$C.log" "$D/check_$C.log"; done
echo "kept as $D"
