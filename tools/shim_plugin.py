"""pytest plugin: sandbox shim for the empty highdicom/_modules.py + instant download failure.  Used only by
tools/baseline_shim.py to compare the pass set of the WHOLE suite (incl. the SOP-class tests that cannot run in the
pinned sandbox) between the pinned base commit and the current tree.  Not part of the registered baseline."""
import os
import sys
sys.path.insert(0, os.path.join(os.path.dirname(os.path.abspath(__file__)), '..', 'harness'))
import hd_env  # noqa: E402
hd_env.install_shim()
import nosleep_plugin  # noqa: E402,F401
