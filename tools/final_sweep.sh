#!/bin/bash
# tools/final_sweep.sh [tier] [jobs]  -- every registered check once in /verif itself against /repo (evidence is rewritten);
# prints one line per check and a summary; exit 1 if any check is not exit 0.
cd "$(dirname "$0")/.."
TIER=${1:-quick}; JOBS=${2:-4}
OUT=$(mktemp -d /tmp/final_XXXXXX)
python3 -c "import json;print('\n'.join(c['property_id'] for c in json.load(open('MANIFEST.json'))['checks']))" |
  xargs -P "$JOBS" -I{} bash -c 'st=$(date +%s); ./check {} --tier '"$TIER"' > '"$OUT"'/{}.log 2>&1; rc=$?; echo "{} rc=$rc $(( $(date +%s)-st ))s $(grep -c "^VIOLATION" '"$OUT"'/{}.log) viol $(grep -c "^KNOWN-FINDING" '"$OUT"'/{}.log) known"' | tee "$OUT/summary.txt"
echo "logs in $OUT"
! grep -qv " rc=0 " "$OUT/summary.txt"
