#!/bin/bash
# tools/reverdict_all.sh <glob of seeded ids, e.g. 'R5* R6*'> [jobs] -- re-run the registered check against every kept seeded
# change with the committed machinery (MUT_VERIF_HEAD=1) and record the verdicts (tools/reverdict.py keeps the first verdict).
cd "$(dirname "$0")/.."
JOBS=${2:-5}
ls -d seeded/$1 2>/dev/null | xargs -n1 basename | grep -v '\.' | xargs -P "$JOBS" -I{} bash -c 'MUT_VERIF_HEAD=1 tools/reverdict.py {} 2>&1 | grep -v "^WARNING" | tail -1'
