#!/venv/bin/python
"""tools/baseline_shim.py [base-commit]  -- stronger regression gate for the `fix:` commits than the 609-test baseline:
runs the WHOLE suite under the _modules shim (so SOP-class tests execute) on a scratch worktree of the base commit
(default ab8ad93, the pinned tree) and on /repo's current tree, and lists every test that passes at base but not now."""
import os, subprocess, sys, tempfile, xml.etree.ElementTree as ET
HERE = os.path.dirname(os.path.abspath(__file__))
base = sys.argv[1] if len(sys.argv) > 1 else 'ab8ad93'


def run(tree):
    env = dict(os.environ)
    env['HD_REPO'] = tree
    env['PYTHONPATH'] = os.pathsep.join([tree + '/src', HERE, env.get('PYTHONPATH', '')])
    with tempfile.TemporaryDirectory() as td:
        xml = os.path.join(td, 'j.xml')
        subprocess.run(['/venv/bin/python', '-m', 'pytest', 'tests', '-q', '-p', 'no:cacheprovider', '-p', 'shim_plugin',
                        '--timeout=900', '--continue-on-collection-errors', '-n', '12', f'--junitxml={xml}'],
                       cwd=tree, env=env, stdout=subprocess.DEVNULL, stderr=subprocess.DEVNULL)
        passed = set()
        for tc in ET.parse(xml).getroot().iter('testcase'):
            if not any(c.tag in ('failure', 'error', 'skipped') for c in tc):
                passed.add(f"{tc.get('classname')}::{tc.get('name')}".replace(tree, '<tree>'))
    return passed


with tempfile.TemporaryDirectory(prefix='hdbase_') as td:
    wt = os.path.join(td, 'base')
    subprocess.run(['git', '-C', '/repo', 'worktree', 'add', '-q', '--detach', wt, base], check=True)
    try:
        p_base = run(wt)
    finally:
        subprocess.run(['git', '-C', '/repo', 'worktree', 'remove', '--force', wt])
p_now = run('/repo')
lost = sorted(p_base - p_now)
print(f'shim baseline: base {base} passes {len(p_base)}, current tree passes {len(p_now)}, lost {len(lost)}, gained {len(p_now - p_base)}')
for t in lost:
    print('  LOST', t)
sys.exit(1 if lost else 0)
