#!/bin/bash
# tools/apply_rewrite.sh  -- run ONCE at the very end, when no builder is active and /repo is clean.
# Replaces /repo's main by the cleaned history (same final tree) and rewrites the 7-char commit hashes quoted in /verif.
set -eu
[ -z "$(git -C /repo status --porcelain)" ] || { echo "/repo not clean"; exit 1; }
S=$(mktemp -d /tmp/rewr_XXXXXX)
/verif/tools/rewrite_repo_history.sh "$S/clone" | tee "$S/log.txt"
grep -q '^OK: rewritten history has the same final tree' "$S/log.txt" || { echo "rewrite failed"; exit 1; }
OLD=$(git -C /repo rev-parse HEAD)
git -C /repo fetch -q "$S/clone" rewritten
git -C /repo reset -q --hard FETCH_HEAD
[ -z "$(git -C /repo diff $OLD HEAD --stat)" ] || { echo "tree changed?!"; git -C /repo reset -q --hard $OLD; exit 1; }
cp "$S/clone/hashmap.txt" /verif/fixes/HASHMAP.txt
cd /verif
/venv/bin/python - <<'PY'
import glob, re
m = {}
for line in open('/verif/fixes/HASHMAP.txt'):
    parts = line.split()
    if len(parts) >= 2 and re.fullmatch(r'[0-9a-f]{7}', parts[1]):
        m[parts[0]] = parts[1]
files = [f for pat in ('findings/*.json', 'docs/*.md', 'DESIGN.md', 'known_findings.json', 'fixes/**/*.py', 'fixes/**/*.md',
                       'fixes/*.md', 'tools/manifest_entries/*.json', 'seeded/*/meta.json', 'harness/corr/*.py', 'lean/HdVerif/**/*.lean')
         for f in glob.glob(pat, recursive=True)]
rx = re.compile(r'\b(' + '|'.join(map(re.escape, m)) + r')\b')
n = 0
for f in files:
    s = open(f).read()
    t = rx.sub(lambda mo: m[mo.group(1)], s)
    if t != s:
        open(f, 'w').write(t); n += 1
print('rewrote hashes in', n, 'files')
PY
rm -rf "$S"
echo "done: /repo main rewritten ($(git -C /repo rev-list --count ab8ad93..HEAD) commits); old head was $OLD"
