"""pytest plugin for the FAST baseline only.  Without network pydicom's test-data downloader waits for
DNS/connect time-outs and retries 4 times with 3/6/12 s sleeps (~56 min for the suite).  Here every download
attempt fails at once with the same URLError; which tests pass or fail is unchanged.  The registered
baseline_off_cmd does NOT use this."""
import types
import urllib.error

import pydicom.data.download as _d
import pydicom.data.retry as _r

_fake = types.SimpleNamespace(**{k: getattr(_r.time, k) for k in dir(_r.time) if not k.startswith('__')})
_fake.sleep = lambda s: None
_r.time = _fake


def _offline(url, fpath):
    raise urllib.error.URLError('offline sandbox')


_d.download_with_progress = _offline
