#!/bin/bash
# tools/sweep.sh <tier> <seed...>   -- clean-tree sweep in isolation: committed /verif (HEAD) + /repo HEAD copied
# to a scratch dir, every registered check run with each seed; prints one line per run and a summary.
# SWEEP_PROPS="C01 C05" restricts the properties; SWEEP_JOBS (default 4) runs that many checks at once.
set -u
TIER=$1; shift; SEEDS="$*"
S=$(mktemp -d /tmp/sweep_XXXXXX)
trap 'rm -rf "$S"' EXIT
mkdir -p "$S/repo" "$S/verif"
git -C /repo archive HEAD | tar -x -C "$S/repo"
git -C /verif archive HEAD | tar -x -C "$S/verif"
[ -d /verif/lean/.lake ] && rsync -a /verif/lean/.lake "$S/verif/lean/"
cd "$S/verif"
PROPS=${SWEEP_PROPS:-$(python3 -c "import json;print(' '.join(c['property_id'] for c in json.load(open('MANIFEST.json'))['checks']))")}
HD_REPO="$S/repo" ./setup.sh > "$S/setup.log" 2>&1 || echo "setup rc=$?"
run() { p=$1; s=$2; st=$(date +%s)
  out=$(HD_REPO="$S/repo" VERIF_SEED=$s ./check $p --tier $TIER 2>&1); rc=$?
  echo "$p seed=$s rc=$rc $(($(date +%s)-st))s $(echo "$out" | grep -E 'VIOLATION|KNOWN-FINDING' | head -3 | tr '\n' ' ')"
  [ $rc -ne 0 ] && { mkdir -p /tmp/sweep_fail; echo "$out" | tail -40 > /tmp/sweep_fail/$p.$TIER.$s.log; cp -r replays/$p /tmp/sweep_fail/$p.$TIER.$s.replays 2>/dev/null; }
}
export -f run; export S TIER
for s in $SEEDS; do for p in $PROPS; do echo "$p $s"; done; done | xargs -P ${SWEEP_JOBS:-4} -L1 bash -c 'run $0 $1'
