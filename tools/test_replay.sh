#!/bin/bash
# tools/test_replay.sh <patch> <Cnn>: in an isolated copy, produce a replay with the patch applied, then re-run it on the patched
# tree (expect exit 1: reproduces) and on the clean tree (expect exit 0).
set -u
PATCH=$(realpath "$1"); PROP=$2
S=$(mktemp -d /tmp/rpl_XXXXXX); trap 'rm -rf "$S"' EXIT
rsync -a --exclude .git /repo/ "$S/clean/"; rsync -a --exclude .git /repo/ "$S/repo/"
rsync -a --exclude .git --exclude replays /verif/ "$S/verif/"
( cd "$S/repo" && patch -p1 -s --no-backup-if-mismatch < "$PATCH" ) || { echo "$PROP patch does not apply"; exit 3; }
cd "$S/verif"
HD_REPO="$S/repo" ./check "$PROP" --tier quick > "$S/run.log" 2>&1
R=$(grep -m1 '^VIOLATION' "$S/run.log" | sed 's/.*replay=\([^ ]*\).*/\1/')
[ -n "$R" ] || { echo "$PROP no VIOLATION produced"; exit 4; }
if grep -q no-failing-input-found "$S/run.log"; then echo "$PROP replay=$R names a broken tie (no failing input) - nothing to re-run"; exit 0; fi
HD_REPO="$S/repo" ./check "$PROP" --replay "$R" > "$S/r1.log" 2>&1; A=$?
HD_REPO="$S/clean" ./check "$PROP" --replay "$R" > "$S/r2.log" 2>&1; B=$?
echo "$PROP replay on patched tree rc=$A (want 1), on clean tree rc=$B (want 0)"
[ $A -eq 1 ] && [ $B -eq 0 ]
