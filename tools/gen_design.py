#!/venv/bin/python
"""Splice generated sections into DESIGN.md between <!-- BEGIN GENERATED:x --> / <!-- END GENERATED:x --> markers:
   asbuilt  : per-property as-built summary (manifest entries + obligations + docs pointer)
   findings : defects found (known_findings.json)
   sensitivity : own mutations and independently seeded changes, with the verdict of the registered check."""
import glob, json, os, re, subprocess
HERE = os.path.dirname(os.path.abspath(__file__)); R = os.path.normpath(os.path.join(HERE, '..'))
props = [json.loads(l) for l in open(os.path.join(R, 'properties.jsonl'))]


def load(path, default):
    try:
        return json.load(open(path))
    except Exception:
        return default


def asbuilt():
    out = []
    subprocess.run([os.path.join(HERE, 'gen_status.py')], stdout=subprocess.DEVNULL)
    out.append(open(os.path.join(R, 'docs', 'STATUS.md')).read().split('\n', 2)[2])
    for p in props:
        pid = p['id']
        me = load(os.path.join(R, 'tools', 'manifest_entries', pid + '.json'), None)
        obl = load(os.path.join(R, 'lean', 'obligations', pid + '.json'), [])
        out.append(f"\n### {pid} {p['title']}\n")
        if me is None:
            out.append('*Not claimed (see MANIFEST.not_applicable).*\n')
            continue
        out.append(f"*Claim.* {me['text']}\n\n*Trusted / assumed.* {me['note']}\n\n*Technique.* {me['technique']}\n")
        names = [n.split('.')[-1] for n in obl]
        out.append(f"*Theorems on the obligation list ({len(names)}).* " + ', '.join(f'`{n}`' for n in names) + '\n')
        if os.path.exists(os.path.join(R, 'docs', pid + '.md')):
            out.append(f"*Details* (modelled code, ties, partial parts, corrections, mutation table): `docs/{pid}.md`.\n")
    return '\n'.join(out)


def findings():
    kf = load(os.path.join(R, 'known_findings.json'), {'findings': []})['findings']
    out = ['| property | status | commit | what failed |', '|---|---|---|---|']
    for k in kf:
        what = k['what'].replace('|', '\\|').replace('\n', ' ')
        out.append(f"| {k['property']} | {k.get('status')} | {k.get('commit', '')} | {what[:400]} |")
    n_fixed = sum(1 for k in kf if k.get('status') == 'fixed')
    n_open = sum(1 for k in kf if k.get('status') == 'open')
    return f"{n_fixed} defects repaired by `fix:` commits in /repo, {n_open} recorded as open known findings.\n\n" + '\n'.join(out)


def sensitivity():
    out = ['**Independently seeded changes** (`seeded/<id>/`, written by sub-agents that saw only the property text):\n',
           '| seeded change | summary | needs | verdict of the registered check(s) |', '|---|---|---|---|']
    for d in sorted(glob.glob(os.path.join(R, 'seeded', '*C*-*'))):
        m = load(os.path.join(d, 'meta.json'), {})
        verdicts = []
        for c in m.get('confirmed', {}).get('checks_run', []):
            cid, rc = c.split(':rc=')
            log = ''
            try:
                log = open(os.path.join(d, f'check_{cid}.log')).read()
            except Exception:
                pass
            v = 'MISSED (exit 0)' if rc == '0' else ('infrastructure error' if rc not in ('0', '1') else
                ('caught, no failing input found' if 'no-failing-input-found' in log else 'caught with failing input'))
            verdicts.append(f'{cid}: {v}')
        fv = m.get('first_verdict')
        fni = m.get('first_no_failing_input') or []
        if fv and (fv != m.get('confirmed', {}).get('checks_run') or fni != (m.get('confirmed', {}).get('no_failing_input') or [])):
            verdicts.insert(0, 'FIRST RUN: ' + ', '.join(
                'MISSED (exit 0)' if c.endswith(':rc=0') else (c.split(':rc=')[0] + ': caught, no failing input found' if c.split(':rc=')[0] in fni
                                                            else c.split(':rc=')[0] + ': caught') for c in fv) + ' → after strengthening')
        if m.get('strengthened'):
            verdicts.append(m['strengthened'])
        if m.get('superseded'):
            verdicts.append('SUPERSEDED: ' + m['superseded'])
        if m.get('stale_patch'):
            verdicts.append('patch ' + m['stale_patch'] + ' (a regenerated copy, where one exists, is under tools/mutations/)')
        summ = str(m.get('summary', '')).replace('|', '\\|').replace('\n', ' ')[:300]
        needs = str(m.get('needs', '')).replace('|', '\\|').replace('\n', ' ')[:300]
        out.append(f"| {os.path.basename(d)} | {summ} | {needs} | {'; '.join(verdicts)} |")
    # summary counts (own property's check only)
    import collections
    first = collections.Counter(); final = collections.Counter(); n = 0
    for d in sorted(glob.glob(os.path.join(R, 'seeded', '*C*-*'))):
        m = load(os.path.join(d, 'meta.json'), {})
        prop = m.get('property') or __import__('re').sub(r'^R\d', '', os.path.basename(d).split('-')[0])
        cur = {c.split(':rc=')[0]: c.split(':rc=')[1] for c in m.get('confirmed', {}).get('checks_run', [])}
        fv = {c.split(':rc=')[0]: c.split(':rc=')[1] for c in (m.get('first_verdict') or m.get('confirmed', {}).get('checks_run', []))}
        if prop not in cur:
            continue
        n += 1
        def cls(rc, which):
            if which == 'final' and m.get('superseded'):
                return 'harmless on the repaired tree'
            if rc == '0':
                return 'missed'
            if rc != '1':
                return 'infrastructure error'
            try:
                log = open(os.path.join(d, f'check_{prop}.log')).read()
            except Exception:
                log = ''
            if which == 'first':
                if m.get('first_verdict'):
                    return 'caught, no failing input' if prop in (m.get('first_no_failing_input') or []) else 'caught'
                return 'caught, no failing input' if 'no-failing-input-found' in log else 'caught'
            return 'caught, no failing input' if 'no-failing-input-found' in log else 'caught'
        first[cls(fv.get(prop, cur[prop]), 'first')] += 1
        final[cls(cur[prop], 'final')] += 1
    out.insert(0, f"**Summary.** {n} confirmed seeded changes (up to six rounds per property: rounds 2-4 were asked for subtler triggers and given the earlier rounds\' summaries to avoid; rounds 5 and 6, in the second session, were given nothing but the property text and had to sit in three different functions with multi-step / shared-state / two-site triggers).  First run against the registered check: {dict(first)}.  After strengthening the checks "
                  f"(generators/oracles/theorems extended, never loosened): {dict(final)}.\n")
    out.append('\n**Own mutation catalogue** (`tools/mutations/`, incl. the inverse of every `fix:` commit): ' +
               'which stage caught each is tabulated in the `docs/Cnn.md` of its property; counts per property are in the status table above.')
    return '\n'.join(out)


def main():
    p = os.path.join(R, 'DESIGN.md')
    s = open(p).read()
    for key, fn in (('asbuilt', asbuilt), ('findings', findings), ('sensitivity', sensitivity)):
        b, e = f'<!-- BEGIN GENERATED:{key} -->', f'<!-- END GENERATED:{key} -->'
        if b in s and e in s:
            s = s[:s.index(b) + len(b)] + '\n' + fn() + '\n' + s[s.index(e):]
    open(p, 'w').write(s)


main()
