HOOK_COMMITS = []
NOTES = ('All checks: ./check Cnn --tier quick|thorough (cwd /verif).  VERIF_SEED selects the PRNG seed, HD_REPO the tree '
         '(default /repo).  Exit 0 held / 1 VIOLATION / 2 infrastructure error.  known_findings.json lists recorded defects '
         'and the fix: commits made in /repo.')
NOT_APPLICABLE = {}
CLAIMED = {}   # filled from tools/manifest_entries/Cnn.json
