HOOK_COMMITS = []
NOTES = ('All checks: ./check Cnn --tier quick|thorough (cwd /verif).  VERIF_SEED selects the PRNG seed, HD_REPO the tree '
         '(default /repo).  Exit 0 held / 1 VIOLATION / 2 infrastructure error.  known_findings.json lists recorded defects '
         'and the fix: commits made in /repo.')
NOT_APPLICABLE = {}
CLAIMED = {
    'C05': {
        'text': 'Lean theorems over the index / byte-range / bit-offset / lazy-offset arithmetic REGENERATED from /repo on every run '
                '(translator, tie T): frame numbers accepted iff in range and never wrapped; for native 1-bit images of every frame '
                'size (mod 8) and every frame, in-memory and lazy access both return exactly the packed frame; byte-aligned frames for '
                '>= 8 bits; batch = map of single.  Encapsulated syntaxes and file I/O are carried by the correspondence/oracle only.',
        'note': 'Trusted: Lean kernel; translator py2lean.py (itself cross-checked by running the generated definitions against the '
                'real helpers); pydicom decode as reference; codecs and file parsing not modelled.',
        'technique': 'Lean 4 proof over definitions translated from source + differential correspondence',
    },
}
