#!/venv/bin/python
"""Run /repo's pinned suite with the guard OFF and compare with /root/.vp/BASELINE.json:
every test of `stable_pass` must still pass.  Usage: tools/baseline.py [repo]"""
import json, os, subprocess, sys, tempfile, xml.etree.ElementTree as ET
HERE = os.path.dirname(os.path.abspath(__file__))
"""Optional: tools/baseline.py /repo tests/test_frame.py tests/test_io.py  -> only these files, compared with
the stable_pass entries of those files."""
repo = sys.argv[1] if len(sys.argv) > 1 else '/repo'
files = sys.argv[2:]
base = json.load(open('/root/.vp/BASELINE.json'))
want = set(base['stable_pass'])
if files:
    mods = {f.replace('/', '.').removesuffix('.py') for f in files}
    want = {w for w in want if w.split('::')[0].rsplit('.', 1)[0] in mods}
env = {k: v for k, v in os.environ.items() if k != 'HIGHDICOM_VERIF'}
fast = []
if not os.environ.get('FULL'):
    env['PYTHONPATH'] = HERE + os.pathsep + env.get('PYTHONPATH', '')
    fast = ['-p', 'nosleep_plugin']
with tempfile.TemporaryDirectory() as td:
    xml = os.path.join(td, 'j.xml')
    subprocess.run(['/venv/bin/python', '-m', 'pytest', '-q', '-p', 'no:cacheprovider', '--timeout=900',
                    '--continue-on-collection-errors', f'--junitxml={xml}', '-n', '8', *fast, *files] if os.environ.get('XDIST') else
                   ['/venv/bin/python', '-m', 'pytest', '-q', '-p', 'no:cacheprovider', '--timeout=900',
                    '--continue-on-collection-errors', f'--junitxml={xml}', *fast, *files], cwd=repo, env=env,
                   stdout=subprocess.DEVNULL, stderr=subprocess.DEVNULL)
    passed = set()
    for tc in ET.parse(xml).getroot().iter('testcase'):
        if not any(c.tag in ('failure', 'error', 'skipped') for c in tc):
            passed.add(f"{tc.get('classname')}::{tc.get('name')}")
missing = sorted(want - passed)
print(f'baseline: {len(want)} expected, {len(want & passed)} passed, {len(missing)} missing')
for m in missing[:40]:
    print('  MISSING', m)
sys.exit(1 if missing else 0)
