#!/bin/bash
# tools/rewrite_repo_history.sh <scratch-clone-dir>
# Rebuilds /repo's fix history on top of the pinned base ab8ad93 in a SCRATCH CLONE (never in /repo itself):
#   * e9544ba + its later revert 0f6be31 are folded (the swept foreign line disappears, the revert commit is dropped);
#   * f4d3419 is split: the foreign SourceImageForRegion.from_dataset hunk becomes its own `fix:` commit;
#   * subjects longer than 100 characters are cut at the first " (" / ": " boundary, the remainder moves to the body.
# Prints the old->new hash map to <dir>/hashmap.txt and verifies that the final tree equals /repo's HEAD tree.
set -eu
D=$1
rm -rf "$D"; git clone -q /repo "$D"; cd "$D"
git config user.name builder; git config user.email builder@example.invalid
HEAD_TREE=$(git rev-parse HEAD^{tree})
BASE=ab8ad93
COMMITS=$(git rev-list --reverse $BASE..HEAD)
git checkout -q -b rewritten $BASE
: > hashmap.txt
shorten() {  # stdin: full message; stdout: message with subject <= 100 chars
  /venv/bin/python -c '
import sys
msg = sys.stdin.read().rstrip("\n")
subj, _, body = msg.partition("\n")
if len(subj) > 100:
    cut = -1
    for sep in (" (", "; ", ": "):
        i = subj.find(sep, 20 if sep != ": " else 6)
        if 0 < i <= 100:
            cut = i; break
    if cut < 0:
        cut = subj.rfind(" ", 0, 100)
    rest = subj[cut:].lstrip(" ;:")
    subj = subj[:cut].rstrip()
    if rest.startswith("(") and rest.endswith(")"):
        rest = rest[1:-1]
    body = (rest + ("\n\n" + body.strip() if body.strip() else "")).strip()
print(subj + ("\n\n" + body if body.strip() else ""))
'
}
for c in $COMMITS; do
  s=$(git log -1 --format=%h $c)
  case $s in
    0f6be31) echo "$s dropped(folded-into-e9544ba)" >> hashmap.txt; continue;;
  esac
  git cherry-pick -n $c >/dev/null 2>&1 || { echo "cherry-pick of $s failed"; git status --short | head; exit 1; }
  if [ "$s" = e9544ba ]; then git cherry-pick -n 0f6be31 >/dev/null 2>&1 || { echo "fold failed"; exit 1; }; fi
  if [ "$s" = f4d3419 ]; then
    # split off the foreign hunk (SourceImageForRegion.from_dataset copy flag)
    git diff --cached > /tmp/f4d_all.patch
    /venv/bin/python - <<'PY'
import re
p = open('/tmp/f4d_all.patch').read()
head, *hunks = re.split(r'(?m)^(?=@@ )', p)
foreign = [h for h in hunks if 'dataset_copy = deepcopy(dataset)' in h and 'SourceImageForRegion' in h.split('\n')[0]]
mine = [h for h in hunks if h not in foreign]
assert len(foreign) == 1, len(foreign)
open('/tmp/f4d_mine.patch', 'w').write(head + ''.join(mine))
open('/tmp/f4d_foreign.patch', 'w').write(head + ''.join(foreign))
PY
    git reset -q --hard
    git apply --cached /tmp/f4d_mine.patch && git checkout -q -- . 
    git log -1 --format=%B $c | shorten | git commit -q -F - --date="$(git log -1 --format=%aD $c)"
    n1=$(git log -1 --format=%h)
    git apply --cached /tmp/f4d_foreign.patch && git checkout -q -- .
    printf 'fix: SourceImageForRegion.from_dataset honours copy=False\n\nThe method always deep-copied the data set, so conversion without copying did not return the same object.\n' | git commit -q -F - --date="$(git log -1 --format=%aD $c)"
    n2=$(git log -1 --format=%h)
    echo "$s $n1 (+ $n2 split-off: SourceImageForRegion.from_dataset copy flag)" >> hashmap.txt
    continue
  fi
  git log -1 --format=%B $c | shorten | git commit -q -F - --date="$(git log -1 --format=%aD $c)"
  echo "$s $(git log -1 --format=%h)" >> hashmap.txt
done
NEW_TREE=$(git rev-parse HEAD^{tree})
if [ "$NEW_TREE" = "$HEAD_TREE" ]; then echo "OK: rewritten history has the same final tree ($(git rev-list --count $BASE..HEAD) commits)"; else echo "TREE MISMATCH"; git diff --stat origin/main HEAD | tail -5; exit 1; fi
git log --format='%s' $BASE..HEAD | awk '{ if (length($0) > 100) n++ } END { print "subjects > 100 chars:", n+0 }'
git log --format='%s' $BASE..HEAD | grep -vc '^fix:' | sed 's/^/non-fix subjects: /'
