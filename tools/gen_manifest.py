#!/venv/bin/python
"""Regenerate MANIFEST.json from tools/manifest_data.py (keeps the file valid at all times)."""
import json, os, sys
HERE = os.path.dirname(os.path.abspath(__file__))
sys.path.insert(0, HERE)
import manifest_data as md
import glob
for _f in sorted(glob.glob(os.path.join(HERE, 'manifest_entries', 'C*.json'))):
    md.CLAIMED[os.path.basename(_f)[:-5]] = json.load(open(_f))
props = [json.loads(l) for l in open(os.path.join(HERE, '..', 'properties.jsonl'))]
ids = [p['id'] for p in props]
checks = []
for pid in ids:
    if pid not in md.CLAIMED:
        continue
    c = md.CLAIMED[pid]
    checks.append({
        'property_id': pid,
        'quick_cmd': f'./check {pid} --tier quick',
        'thorough_cmd': f'./check {pid} --tier thorough',
        'evidence_file': f'evidence/{pid}.json',
        'replay_cmd_template': f'./check {pid} --replay {{path}}',
        'engine': 'hdverif-lean',
        'level_claimed': {'category': 'proof', 'text': c['text'], 'design_ref': c.get('design_ref', f'DESIGN.md section 8 {pid}')},
        'level_note': c['note'],
        'technique': c['technique'],
    })
na = [{'property_id': pid, 'reason': md.NOT_APPLICABLE.get(pid, 'check not built yet in this session; no claim is made')}
      for pid in ids if pid not in md.CLAIMED]
m = {
    'version': 1,
    'setup_cmd': './setup.sh',
    'hooks': {
        'guard': 'HIGHDICOM_VERIF',
        'enable': 'no source hooks are needed; checks import /repo/src directly (HD_REPO overrides the tree)',
        'baseline_off_cmd': 'cd /repo && /venv/bin/python -m pytest -ra -q -p no:cacheprovider --timeout=900 --continue-on-collection-errors',
        'source_commits': md.HOOK_COMMITS,
        'add_only': True,
    },
    'engines': [{
        'name': 'hdverif-lean', 'path': 'lean/ + harness/ + translate/',
        'serves_properties': [c['property_id'] for c in checks],
        'kind_free_text': 'Lean 4 theorems about executable models; models regenerated from /repo by translate/py2lean.py (tie T) '
                          'and validated against the implementation by a JSON-lines correspondence harness (tie C)',
    }],
    'checks': checks,
    'notes': md.NOTES,
    'not_applicable': na,
}
json.dump(m, open(os.path.join(HERE, '..', 'MANIFEST.json'), 'w'), indent=1)
print(f'MANIFEST.json: {len(checks)} checks, {len(na)} not claimed')
