#!/bin/bash
# tools/mutcheck.sh <patch-file> <Cnn> [tier]  -- sensitivity test in full isolation:
# copies /repo (HEAD + working tree) and /verif to a scratch dir under /tmp, applies the patch to the
# repo copy, runs the check there with HD_REPO pointing at it, prints the tail, removes the scratch.
# Exit status = the check's exit status (1 expected for a property-breaking patch).
set -u
PATCH=$(realpath "$1"); PROP=$2; TIER=${3:-quick}
S=$(mktemp -d /tmp/mut_XXXXXX)
trap 'rm -rf "$S"' EXIT
rsync -a --exclude .git /repo/ "$S/repo/"
if [ -n "${MUT_VERIF_HEAD:-}" ]; then   # committed state of /verif (other builders' half-edited files stay out), build products reused
  mkdir -p "$S/verif" && git -C /verif archive HEAD | tar -x -C "$S/verif" && rsync -a /verif/lean/.lake "$S/verif/lean/"
else
  rsync -a --exclude .git --exclude replays /verif/ "$S/verif/"
fi
( cd "$S/repo" && patch -p1 --no-backup-if-mismatch < "$PATCH" >/dev/null ) || { echo "patch does not apply"; exit 3; }
cd "$S/verif"
HD_REPO="$S/repo" ./check "$PROP" --tier "$TIER" 2>&1 | tail -${MUT_TAIL:-12}
rc=${PIPESTATUS[0]}
if ls replays/$PROP/*.json >/dev/null 2>&1; then echo "--- replay:"; head -c ${MUT_REPLAY_BYTES:-1500} $(ls -t replays/$PROP/*.json | head -1); echo; fi
exit $rc
