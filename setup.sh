#!/bin/bash
# Build the framework offline from files on disk: regenerate translated definitions and the
# library root, then lake build everything (all property theorems are checked here once).
set -e
cd "$(dirname "$0")"
/venv/bin/python translate/py2lean.py >/dev/null || echo "setup: some translation targets are broken (reported by the checks)"
tools/gen_root.sh
cd lean
lake build HdVerif HdVerif.Audit 2>&1 | grep -v "^warning\|^Hint\|^Note\|^  \|^$" | tail -15
