#!/bin/bash
# MANIFEST.setup_cmd: build the framework offline from files on disk.
#  1. regenerate the translated definitions (tie T) from /repo's current source,
#  2. regenerate the library root,
#  3. lake build the audit tool and every property module (each on its own, so that one property
#     whose proof no longer checks -- which its own check reports -- cannot break the others).
cd "$(dirname "$0")"
/venv/bin/python translate/py2lean.py >/dev/null || echo "setup: some translation targets are broken (the checks report them)"
tools/gen_root.sh
cd lean
lake build HdVerif.Model.Basic HdVerif.Model.Json HdVerif.Audit 2>&1 | grep -v "^warning\|^Hint\|^Note\|^  \|^$" | tail -5
rc=${PIPESTATUS[0]}
# all property modules at once first (parallel across properties); a failure there is sorted out module by module below
lake build $(for f in HdVerif/Props/C*.lean; do echo "HdVerif.Props.$(basename "$f" .lean)"; done) >/dev/null 2>&1
for f in HdVerif/Props/C*.lean; do
  m="HdVerif.Props.$(basename "$f" .lean)"
  lake build "$m" >/dev/null 2>&1 && echo "setup: built $m" || echo "setup: $m does not build (its check will report it)"
done
# what the drivers import (model / generated modules that no property module imports would otherwise be missing)
lake build $(grep -h '^import HdVerif' Drivers/C*.lean | awk '{print $2}' | sort -u) >/dev/null 2>&1 || echo "setup: some driver imports do not build (the checks report it)"
exit $rc
