#!/bin/bash
# Build the framework offline from files on disk: regenerate translated definitions, then lake build.
set -e
cd "$(dirname "$0")"
/venv/bin/python translate/py2lean.py || echo "setup: some translation targets are broken (reported by the checks)"
cd lean
lake build HdVerif HdVerif.Audit 2>&1 | tail -5
