"""Translation targets owned by C04 (shared with C12): spatial.get_tile_array bounds/padding arithmetic.

T3 and T5 (image.py) are defined in translate/targets.py.
"""
from __future__ import annotations

import ast
import hashlib

from py2lean import Unsupported, find_func, span_sha, strip_doc, translate_block


def _norm(node):
    return ''.join(ast.unparse(node).split())


def build_T6(tree):
    """`get_tile_array`: guards on the 1-based offsets, 0-based slice bounds and pad amounts.

    Translated span: every statement before `tile_array = pixel_array[...]`.  The slice expression and the
    padding list are checked textually (they are the *use* of the translated quantities); the result is
    (row_offset, row_end, column_offset, column_end, pad_rows, pad_columns) with
    tile = pad(pixel_array[row_offset:row_end, column_offset:column_end], ((0, pad_rows), (0, pad_columns)))."""
    fn = find_func(tree, 'get_tile_array')
    body = strip_doc(fn.body)
    have = [a.arg for a in fn.args.args]
    for p in ('pixel_array', 'row_offset', 'column_offset', 'tile_rows', 'tile_columns', 'pad'):
        if p not in have:
            raise Unsupported(f'parameter {p} no longer in get_tile_array')
    cut = None
    for i, s in enumerate(body):
        if isinstance(s, ast.Assign) and isinstance(s.targets[0], ast.Name) and s.targets[0].id == 'tile_array':
            cut = i
            break
    if cut is None:
        raise Unsupported('tile_array = pixel_array[...] not found in get_tile_array')
    if _norm(body[cut].value) != 'pixel_array[row_offset:row_end,column_offset:column_end]':
        raise Unsupported('slice taken by get_tile_array changed: ' + _norm(body[cut].value))
    rest = body[cut + 1:]
    # the remainder must be: if pad and (pad_rows > 0 or pad_columns > 0): ... np.pad(tile_array, [(0,pad_rows),(0,pad_columns)] + ...) ; return tile_array
    if not (len(rest) == 2 and isinstance(rest[0], ast.If) and isinstance(rest[1], ast.Return)
            and _norm(rest[1].value) == 'tile_array'):
        raise Unsupported('tail of get_tile_array (pad, return tile_array) changed shape')
    if _norm(rest[0].test) != 'padand(pad_rows>0orpad_columns>0)' or rest[0].orelse:
        raise Unsupported('padding condition of get_tile_array changed: ' + _norm(rest[0].test))
    padtxt = ''.join(_norm(s) for s in rest[0].body)
    for needle in ('padding=[(0,pad_rows),(0,pad_columns)]+[(0,0)]*extra_dims', 'tile_array=np.pad(tile_array,padding)'):
        if needle not in padtxt:
            raise Unsupported('padding statement of get_tile_array changed (missing ' + needle + ')')
    block = list(body[:cut]) + [ast.parse(
        'return (row_offset, row_end, column_offset, column_end, pad_rows, pad_columns)').body[0]]
    block = [ast.parse(ast.unparse(s)).body[0] for s in block]
    for s in block:
        ast.fix_missing_locations(s)
    attrs = {'pixel_array.shape[0]': ('int', 'shape0'), 'pixel_array.shape[1]': ('int', 'shape1')}
    text = translate_block(
        block, 'tileArrayBounds',
        [('row_offset', 'int'), ('column_offset', 'int'), ('tile_rows', 'int'), ('tile_columns', 'int')], attrs,
        doc='`spatial.get_tile_array`: (row_offset, row_end, column_offset, column_end, pad_rows, pad_columns), 0-based; '
            'the tile is `pixel_array[row_offset:row_end, column_offset:column_end]` zero-padded by '
            '`pad_rows` rows below and `pad_columns` columns to the right')
    return text, span_sha(body[:cut]) + hashlib.sha256((_norm(body[cut]) + padtxt).encode()).hexdigest()[:8]


def build_T4o(tree):
    """Emptiness of a float (FRACTIONAL) mask as judged by the constructor for omit_empty_frames, and the value the
    constructor stores for the same pixel (`_get_segment_pixel_array`): two expressions in two places that must agree
    ("tile omitted => every stored value of the tile is 0")."""
    cls = find_func(tree, 'Segmentation')
    init = find_func(cls, '__init__')
    occ = None
    for node in ast.walk(init):
        if isinstance(node, ast.If) and _norm(node.test) == "pixel_array.dtype.kind=='f'":
            a = [st for st in node.body if isinstance(st, ast.Assign) and _norm(st.targets[0]) == 'occupied_array']
            b = [st for st in node.orelse if isinstance(st, ast.Assign) and _norm(st.targets[0]) == 'occupied_array']
            if len(a) == 1 and len(node.body) == 1 and len(b) == 1 and _norm(b[0].value) == 'pixel_array':
                occ = a[0]
    if occ is None:
        raise Unsupported("Segmentation.__init__: `if pixel_array.dtype.kind == 'f': occupied_array = ... else: occupied_array = "
                          "pixel_array` not found")
    blk = [ast.parse(ast.unparse(occ)).body[0], ast.parse('return occupied_array').body[0]]
    for st in blk:
        ast.fix_missing_locations(st)
    t1 = translate_block(blk, 'fractionOccupied', [('pixel_array', 'rat'), ('max_fractional_value', 'int')], {},
                         doc='`Segmentation.__init__`, omit_empty_frames: is a pixel of a float mask counted as occupied?')
    gsp = find_func(cls, '_get_segment_pixel_array')
    sto = None
    for node in ast.walk(gsp):
        if isinstance(node, ast.If) and _norm(node.test) == 'pixel_array.dtypein(np.float32,np.float64)':
            asg = [st for st in node.body if isinstance(st, ast.Assign) and _norm(st.targets[0]) == 'segment_array']
            # [selection of the segment (inside an if), the rounding, the cast]
            if len(asg) >= 2 and _norm(asg[-1].value) == 'segment_array.astype(dtype)':
                sto = asg[-2]
    if sto is None:
        raise Unsupported('_get_segment_pixel_array: float branch `segment_array = <rounding>; segment_array = segment_array.astype(dtype)` not found')
    blk2 = [ast.parse(ast.unparse(sto)).body[0], ast.parse('return segment_array').body[0]]
    for st in blk2:
        ast.fix_missing_locations(st)
    t2 = translate_block(blk2, 'fractionStored', [('segment_array', 'rat'), ('max_fractional_value', 'int')], {},
                         doc='`Segmentation._get_segment_pixel_array`, float input: the value stored for a pixel (before the cast to '
                             'the integer pixel type, which is exact on integral values in range)')
    return t1 + '\n\n' + t2, span_sha([occ]) + span_sha([sto])[:8]


TARGETS = {
    'T6': {'file': 'spatial.py', 'build': build_T6},
    'T4o': {'file': 'seg/sop.py', 'build': build_T4o, 'imports': ['HdVerif.Model.Round']},
}
