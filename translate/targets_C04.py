"""Translation targets owned by C04 (shared with C12): spatial.get_tile_array bounds/padding arithmetic.

T3 and T5 (image.py) are defined in translate/targets.py.
"""
from __future__ import annotations

import ast
import hashlib

from py2lean import Unsupported, find_func, span_sha, strip_doc, translate_block


def _norm(node):
    return ''.join(ast.unparse(node).split())


def build_T6(tree):
    """`get_tile_array`: guards on the 1-based offsets, 0-based slice bounds and pad amounts.

    Translated span: every statement before `tile_array = pixel_array[...]`.  The slice expression and the
    padding list are checked textually (they are the *use* of the translated quantities); the result is
    (row_offset, row_end, column_offset, column_end, pad_rows, pad_columns) with
    tile = pad(pixel_array[row_offset:row_end, column_offset:column_end], ((0, pad_rows), (0, pad_columns)))."""
    fn = find_func(tree, 'get_tile_array')
    body = strip_doc(fn.body)
    have = [a.arg for a in fn.args.args]
    for p in ('pixel_array', 'row_offset', 'column_offset', 'tile_rows', 'tile_columns', 'pad'):
        if p not in have:
            raise Unsupported(f'parameter {p} no longer in get_tile_array')
    cut = None
    for i, s in enumerate(body):
        if isinstance(s, ast.Assign) and isinstance(s.targets[0], ast.Name) and s.targets[0].id == 'tile_array':
            cut = i
            break
    if cut is None:
        raise Unsupported('tile_array = pixel_array[...] not found in get_tile_array')
    if _norm(body[cut].value) != 'pixel_array[row_offset:row_end,column_offset:column_end]':
        raise Unsupported('slice taken by get_tile_array changed: ' + _norm(body[cut].value))
    rest = body[cut + 1:]
    # the remainder must be: if pad and (pad_rows > 0 or pad_columns > 0): ... np.pad(tile_array, [(0,pad_rows),(0,pad_columns)] + ...) ; return tile_array
    if not (len(rest) == 2 and isinstance(rest[0], ast.If) and isinstance(rest[1], ast.Return)
            and _norm(rest[1].value) == 'tile_array'):
        raise Unsupported('tail of get_tile_array (pad, return tile_array) changed shape')
    if _norm(rest[0].test) != 'padand(pad_rows>0orpad_columns>0)' or rest[0].orelse:
        raise Unsupported('padding condition of get_tile_array changed: ' + _norm(rest[0].test))
    padtxt = ''.join(_norm(s) for s in rest[0].body)
    for needle in ('padding=[(0,pad_rows),(0,pad_columns)]+[(0,0)]*extra_dims', 'tile_array=np.pad(tile_array,padding)'):
        if needle not in padtxt:
            raise Unsupported('padding statement of get_tile_array changed (missing ' + needle + ')')
    block = list(body[:cut]) + [ast.parse(
        'return (row_offset, row_end, column_offset, column_end, pad_rows, pad_columns)').body[0]]
    block = [ast.parse(ast.unparse(s)).body[0] for s in block]
    for s in block:
        ast.fix_missing_locations(s)
    attrs = {'pixel_array.shape[0]': ('int', 'shape0'), 'pixel_array.shape[1]': ('int', 'shape1')}
    text = translate_block(
        block, 'tileArrayBounds',
        [('row_offset', 'int'), ('column_offset', 'int'), ('tile_rows', 'int'), ('tile_columns', 'int')], attrs,
        doc='`spatial.get_tile_array`: (row_offset, row_end, column_offset, column_end, pad_rows, pad_columns), 0-based; '
            'the tile is `pixel_array[row_offset:row_end, column_offset:column_end]` zero-padded by '
            '`pad_rows` rows below and `pad_columns` columns to the right')
    return text, span_sha(body[:cut]) + hashlib.sha256((_norm(body[cut]) + padtxt).encode()).hexdigest()[:8]


def build_T4o(tree):
    """Emptiness of a float (FRACTIONAL) mask as judged by the constructor for omit_empty_frames, and the value the
    constructor stores for the same pixel (`_get_segment_pixel_array`): two expressions in two places that must agree
    ("tile omitted => every stored value of the tile is 0")."""
    cls = find_func(tree, 'Segmentation')
    init = find_func(cls, '__init__')
    occ = None
    for node in ast.walk(init):
        if isinstance(node, ast.If) and _norm(node.test) == "pixel_array.dtype.kind=='f'":
            a = [st for st in node.body if isinstance(st, ast.Assign) and _norm(st.targets[0]) == 'occupied_array']
            b = [st for st in node.orelse if isinstance(st, ast.Assign) and _norm(st.targets[0]) == 'occupied_array']
            if len(a) == 1 and len(node.body) == 1 and len(b) == 1 and _norm(b[0].value) == 'pixel_array':
                occ = a[0]
    if occ is None:
        raise Unsupported("Segmentation.__init__: `if pixel_array.dtype.kind == 'f': occupied_array = ... else: occupied_array = "
                          "pixel_array` not found")
    blk = [ast.parse(ast.unparse(occ)).body[0], ast.parse('return occupied_array').body[0]]
    for st in blk:
        ast.fix_missing_locations(st)
    t1 = translate_block(blk, 'fractionOccupied', [('pixel_array', 'rat'), ('max_fractional_value', 'int')], {},
                         doc='`Segmentation.__init__`, omit_empty_frames: is a pixel of a float mask counted as occupied?')
    gsp = find_func(cls, '_get_segment_pixel_array')
    sto = None
    for node in ast.walk(gsp):
        if isinstance(node, ast.If) and _norm(node.test) == 'pixel_array.dtypein(np.float32,np.float64)':
            asg = [st for st in node.body if isinstance(st, ast.Assign) and _norm(st.targets[0]) == 'segment_array']
            # [selection of the segment (inside an if), the rounding, the cast]
            if len(asg) >= 2 and _norm(asg[-1].value) == 'segment_array.astype(dtype)':
                sto = asg[-2]
    if sto is None:
        raise Unsupported('_get_segment_pixel_array: float branch `segment_array = <rounding>; segment_array = segment_array.astype(dtype)` not found')
    blk2 = [ast.parse(ast.unparse(sto)).body[0], ast.parse('return segment_array').body[0]]
    for st in blk2:
        ast.fix_missing_locations(st)
    t2 = translate_block(blk2, 'fractionStored', [('segment_array', 'rat'), ('max_fractional_value', 'int')], {},
                         doc='`Segmentation._get_segment_pixel_array`, float input: the value stored for a pixel (before the cast to '
                             'the integer pixel type, which is exact on integral values in range)')
    return t1 + '\n\n' + t2, span_sha([occ]) + span_sha([sto])[:8]


# ---------------------------------------------------------------------------------------------------------------
# Bridges ("more of the code inside the model"): expressions of the hand-modelled loops / glue, regenerated
import re as _re


def build_T5w(tree):
    """The WHERE clause of the tiled-region query as a Lean predicate, GENERATED from the f-string pieces of the current
    source (column, comparison operator, placeholder) instead of being pinned as text."""
    fn = find_func(tree, '_Image._iterate_indices_for_tiled_region')
    where = None
    for node in ast.walk(fn):
        if isinstance(node, ast.Assign) and isinstance(node.targets[0], ast.Name) and node.targets[0].id == 'query_template':
            where = ''.join(ast.unparse(node.value).split())
    if where is None:
        raise Unsupported('query_template not found')
    m = _re.search(r"WHERE\((.*)\{filter_str\.replace\('WHERE','AND'\)\}\)", where)
    if not m:
        raise Unsupported('WHERE ( ... {filter_str...} ) not found in the query template')
    conds = m.group(1).split('AND')
    cols = {'L.RowPositionInTotalImagePixelMatrix': 'rp', 'L.ColumnPositionInTotalImagePixelMatrix': 'cp'}
    known = ['row_offset_start', 'row_end', 'column_offset_start', 'column_end', 'row_start', 'column_start']
    ops = {'>=': '≥', '<=': '≤', '<': '<', '>': '>', '=': '='}
    terms = []
    for c in conds:
        mm = _re.fullmatch(r"(L\.\w+)(>=|<=|<|>|=)\{(\w+)\}", c)
        if not mm or mm.group(1) not in cols or mm.group(3) not in known:
            raise Unsupported('condition of the tiled-region WHERE clause outside the fragment: ' + c[:80])
        terms.append(f"decide ({cols[mm.group(1)]} {ops[mm.group(2)]} {mm.group(3)})")
    if not terms:
        raise Unsupported('empty WHERE clause')
    params = ' '.join(f'({k} : Int)' for k in ['rp', 'cp'] + known)
    text = ("/-- the WHERE clause of the region query of `_iterate_indices_for_tiled_region`, generated from the f-string pieces of the "
            "query template (a row of the frame table at 1-based position (rp, cp) is fetched iff this is true) -/\n"
            f"def tiledRegionWhere {params} : Except ErrKind Bool :=\n  .ok (" + ' && '.join(terms) + ")")
    return text, hashlib.sha256(where.encode()).hexdigest()


def build_T5g(tree):
    """The missing-frame test of `_iterate_indices_for_tiled_region`: when it is made (flags, organisation) and what it compares."""
    fn = find_func(tree, '_Image._iterate_indices_for_tiled_region')
    body = strip_doc(fn.body)
    first = body[0]
    if not (isinstance(first, ast.If) and _norm(first.test) == 'allow_missing_values' and len(first.body) == 1
            and _norm(first.body[0]) == 'allow_missing_combinations=True' and not first.orelse):
        raise Unsupported('`if allow_missing_values: allow_missing_combinations = True` is no longer the first statement')
    guard = None
    for node in ast.walk(fn):
        if isinstance(node, ast.If) and 'allow_missing_combinations' in ast.unparse(node.test) and 'DimensionOrganizationType' in ast.unparse(node.test):
            guard = node
    if guard is None:
        raise Unsupported('guard of the missing-frame test not found')
    num = [st for st in guard.body if isinstance(st, ast.Assign) and _norm(st.targets[0]) == 'number_of_output_frames']
    cmp_ = [st for st in guard.body if isinstance(st, ast.If) and 'found_number' in ast.unparse(st.test)]
    if len(num) != 1 or len(cmp_) != 1 or not any(isinstance(x, ast.Raise) for x in cmp_[0].body):
        raise Unsupported('missing-frame test: `number_of_output_frames = ...` / `if found_number ...: raise` not found')
    # the per-channel factor `number_of_output_frames *= len(tdef.column_data)` is 1 for a query without channel tables
    txt = ''.join(_norm(st) for st in guard.body)
    if 'fortdefinchannel_table_defs:number_of_output_frames*=len(tdef.column_data)' not in txt:
        raise Unsupported('missing-frame test: the per-channel factor changed')
    new_guard = ast.If(test=guard.test, body=[num[0], cmp_[0]], orelse=[])
    block = [ast.parse(ast.unparse(st)).body[0] for st in [first, new_guard]] + [ast.parse('return True').body[0]]
    for st in block:
        ast.fix_missing_locations(st)
    attrs = {"self.get('DimensionOrganizationType', '')": ('str', 'dimensionOrganizationType')}
    text = translate_block(block, 'missingFrameTest',
                           [('allow_missing_values', 'bool'), ('allow_missing_combinations', 'bool'), ('v_frames', 'int'),
                            ('h_frames', 'int'), ('found_number', 'int')], attrs,
                           doc='`_iterate_indices_for_tiled_region`: the missing-frame test for a query without channel tables '
                               '(RuntimeError = refused; ok = the read goes on)')
    return text, span_sha([first, guard])


def _kwcall(call, want):
    kws = {k.arg: k.value for k in call.keywords}
    if sorted(kws) != sorted(want):
        raise Unsupported(f'get_tile_array call: keywords {sorted(kws)} instead of {sorted(want)}')
    return ast.Return(value=ast.Tuple(elts=[kws[k] for k in want], ctx=ast.Load()))


def build_T4c(tree):
    """Argument forwarding of the two `get_tile_array` calls of the Segmentation constructor path: the emptiness scan
    (`_get_nonempty_tile_indices`) and the tiling loop of `__init__` (both organisation branches)."""
    cls = find_func(tree, 'Segmentation')
    want = ['row_offset', 'column_offset', 'tile_rows', 'tile_columns']
    ne = find_func(cls, '_get_nonempty_tile_indices')
    calls = [n for n in ast.walk(ne) if isinstance(n, ast.Call) and _norm(n.func) == 'get_tile_array']
    if len(calls) != 1 or len(calls[0].args) != 1 or _norm(calls[0].args[0]) != 'pixel_array[0]':
        raise Unsupported('_get_nonempty_tile_indices: single call get_tile_array(pixel_array[0], ...) not found')
    comp = [n for n in ast.walk(ne) if isinstance(n, ast.ListComp)]
    if len(comp) != 1 or _norm(comp[0].generators[0].target) != '(i,pos)' or _norm(comp[0].generators[0].iter) != 'enumerate(plane_positions)' \
            or _norm(comp[0].elt) != 'i' or not _norm(comp[0].generators[0].ifs[0]).startswith('np.any(get_tile_array('):
        raise Unsupported('_get_nonempty_tile_indices: `[i for i, pos in enumerate(plane_positions) if np.any(get_tile_array(...))]` changed')
    b1 = [_kwcall(calls[0], want)]
    ast.fix_missing_locations(b1[0])
    t1 = translate_block([ast.parse(ast.unparse(b1[0])).body[0]], 'nonemptyTileCall', [('rows', 'int'), ('columns', 'int')],
                         {'pos[0].RowPositionInTotalImagePixelMatrix': ('int', 'rowPos'),
                          'pos[0].ColumnPositionInTotalImagePixelMatrix': ('int', 'colPos')},
                         doc='`_get_nonempty_tile_indices`: (row_offset, column_offset, tile_rows, tile_columns) handed to get_tile_array '
                             'for the plane position (rowPos, colPos)')
    init = find_func(cls, '__init__')
    calls = [n for n in ast.walk(init) if isinstance(n, ast.Call) and _norm(n.func) == 'get_tile_array']
    if len(calls) != 1 or len(calls[0].args) != 1 or _norm(calls[0].args[0]) != 'pixel_array[0]':
        raise Unsupported('Segmentation.__init__: single call get_tile_array(pixel_array[0], ...) not found')
    b2 = _kwcall(calls[0], want)
    t2 = translate_block([ast.parse(ast.unparse(ast.fix_missing_locations(b2))).body[0]], 'ctorTileCall',
                         [('row_offset', 'int'), ('column_offset', 'int')],
                         {'self.Rows': ('int', 'tileRows'), 'self.Columns': ('int', 'tileCols')},
                         doc='`Segmentation.__init__`, tiling loop: (row_offset, column_offset, tile_rows, tile_columns) handed to get_tile_array')
    # where row_offset / column_offset come from, per organisation
    txt = ''.join(ast.unparse(init).split())
    for needle in ("row_dim_index=plane_position_names.index('RowPositionInTotalImagePixelMatrix')",
                   "col_dim_index=plane_position_names.index('ColumnPositionInTotalImagePixelMatrix')",
                   "plane_position_values=plane_position_values[:,[1,0,2,3,4]]",
                   "plane_position_values=np.array([[*offsets,*coords]foroffsets,coordsinraw_plane_positions])",
                   "pos=plane_positions[plane_index][0]"):
        if needle not in txt:
            raise Unsupported('Segmentation.__init__: source of the tile offsets changed (missing ' + needle + ')')
    iff = None
    for node in ast.walk(init):
        if isinstance(node, ast.If) and any(isinstance(st, ast.Assign) and _norm(st.targets[0]) == 'row_offset' for st in node.body) \
                and 'TILED_FULL' in ast.unparse(node.test):
            iff = node
    if iff is None:
        raise Unsupported('Segmentation.__init__: branch assigning row_offset / column_offset not found')
    out = []
    for name, stmts, attrs in [
            ('ctorTileOffsetsFull', iff.body, {'plane_position_values[plane_index, row_dim_index]': ('int', 'rowPos'),
                                               'plane_position_values[plane_index, col_dim_index]': ('int', 'colPos')}),
            ('ctorTileOffsetsSparse', iff.orelse, {'pos.RowPositionInTotalImagePixelMatrix': ('int', 'rowPos'),
                                                   'pos.ColumnPositionInTotalImagePixelMatrix': ('int', 'colPos')})]:
        asg = [st for st in stmts if isinstance(st, ast.Assign) and _norm(st.targets[0]) in ('row_offset', 'column_offset')]
        if len(asg) != 2:
            raise Unsupported(f'{name}: assignments to row_offset / column_offset not found')
        blk = [ast.parse(ast.unparse(st)).body[0] for st in asg] + [ast.parse('return (row_offset, column_offset)').body[0]]
        out.append(translate_block(blk, name, [], attrs,
                                   doc=f'`Segmentation.__init__`, tiling loop ({"TILED_FULL" if name.endswith("Full") else "other organisations"}): '
                                       '(row_offset, column_offset) of the tile from the plane position (rowPos, colPos)'))
    return '\n\n'.join([t1, t2] + out), span_sha([calls[0]]) + hashlib.sha256(txt.encode()).hexdigest()[:8]


def _sql_text(node, env):
    """the SQL string an `execute`/`executemany` call is handed: a literal / f-string, or a local name assigned one earlier"""
    if isinstance(node, ast.Name) and node.id in env:
        return env[node.id]
    if isinstance(node, (ast.Constant, ast.JoinedStr)):
        return ' '.join(ast.unparse(node).split())
    raise Unsupported('SQL text of a temporary-table statement is not a literal: ' + ast.unparse(node)[:60])


def _temp_table_ops(stmts, guard=None, env=None, ops=None):
    """the SQL statements of a block of `_generate_temp_tables`, in source order, as (operation, flag) pairs"""
    env = {} if env is None else env
    ops = [] if ops is None else ops
    for st in stmts:
        if isinstance(st, ast.Assign) and len(st.targets) == 1 and isinstance(st.targets[0], ast.Name):
            name = st.targets[0].id
            v = st.value
            if isinstance(v, (ast.Constant, ast.JoinedStr)) or (isinstance(v, ast.Call) and _norm(v.func).endswith('.join')):
                env[name] = ' '.join(ast.unparse(v).split())
                continue
            if _norm(v) == 'next(self._db_con.execute(query))[0]' and 'FROM sqlite_master' in env.get('query', '') \
                    and 'COUNT(*)' in env['query'] and "name = '{tdef.table_name}'" in env['query']:
                env['__probe__'] = name         # number of tables of that name
                continue
            raise Unsupported('temporary tables: assignment outside the fragment: ' + ast.unparse(st)[:80])
        if isinstance(st, ast.If):
            if st.orelse or _norm(st.test) != env.get('__probe__', '?') + '>0':
                raise Unsupported('temporary tables: conditional outside the fragment: ' + ast.unparse(st.test)[:80])
            _temp_table_ops(st.body, guard='exists', env=env, ops=ops)
            continue
        if isinstance(st, ast.With):
            if len(st.items) != 1 or _norm(st.items[0].context_expr) != 'self._db_con' or st.items[0].optional_vars is not None:
                raise Unsupported('temporary tables: `with` other than `with self._db_con:`')
            _temp_table_ops(st.body, guard=guard, env=env, ops=ops)
            continue
        if isinstance(st, ast.Expr) and isinstance(st.value, ast.Call) and _norm(st.value.func) in ('self._db_con.execute', 'self._db_con.executemany'):
            call = st.value
            many = _norm(call.func).endswith('executemany')
            sql = _sql_text(call.args[0], env)
            body = sql.strip('f').strip('\'"')
            up = ' '.join(body.upper().split())
            if '{TDEF.TABLE_NAME}' not in up:
                raise Unsupported('temporary tables: statement on another table: ' + sql[:80])
            if many:
                if len(call.args) != 2 or _norm(call.args[1]) != 'tdef.column_data':
                    raise Unsupported('temporary tables: executemany no longer inserts tdef.column_data')
                if up.startswith('INSERT OR REPLACE INTO'):
                    ops.append(('insert', True))
                elif up.startswith('INSERT INTO'):
                    ops.append(('insert', False))
                else:
                    raise Unsupported('temporary tables: executemany statement outside the fragment: ' + sql[:80])
                if guard:
                    raise Unsupported('temporary tables: conditional insert')
            elif up.startswith('DROP TABLE IF EXISTS'):
                ops.append(('drop-if-exists', False))
            elif up.startswith('DROP TABLE'):
                ops.append(('drop-if-exists', False) if guard == 'exists' else ('drop', False))
            elif up.startswith('CREATE TABLE IF NOT EXISTS'):
                ops.append(('create', True))
            elif up.startswith('CREATE TABLE'):
                ops.append(('create', False))
            else:
                raise Unsupported('temporary tables: statement outside the fragment: ' + sql[:80])
            if not many and guard and not up.startswith('DROP TABLE'):
                raise Unsupported('temporary tables: conditional statement other than DROP')
            continue
        raise Unsupported('temporary tables: statement outside the fragment: ' + ast.unparse(st)[:80])
    return ops


def build_T4t(tree):
    """`_Image._generate_temp_tables` (context manager around every read that joins the frame table with a channel table): the SQL
    statements issued per table BEFORE control goes to the `with` body and AFTER it, as programs for the model's small SQLite
    interpreter (`Tiling.tempOp`), and whether the clean-up also runs when the body raises (`try/finally` around the `yield`)."""
    fn = find_func(tree, '_Image._generate_temp_tables')
    body = strip_doc(fn.body)
    if [a.arg for a in fn.args.args] != ['self', 'table_defs']:
        raise Unsupported('_generate_temp_tables: parameters changed')
    on_error = False
    if len(body) == 2 and isinstance(body[1], ast.Try):
        # for ...: set-up ; try: yield finally: clean-up
        t = body[1]
        if t.handlers or t.orelse or len(t.body) != 1:
            raise Unsupported('_generate_temp_tables: try statement outside the fragment')
        body = [body[0], t.body[0]] + list(t.finalbody)
        on_error = True
    if len(body) != 3 or not isinstance(body[0], ast.For) or not isinstance(body[2], ast.For) \
            or not (isinstance(body[1], ast.Expr) and isinstance(body[1].value, ast.Yield) and body[1].value.value is None):
        raise Unsupported('_generate_temp_tables: shape `for tdef: set-up; yield; for tdef: clean-up` changed')
    for loop in (body[0], body[2]):
        if _norm(loop.target) != 'tdef' or _norm(loop.iter) != 'table_defs' or loop.orelse:
            raise Unsupported('_generate_temp_tables: loops no longer run over table_defs')
    setup = _temp_table_ops(body[0].body)
    cleanup = _temp_table_ops(body[2].body)
    if not setup or not cleanup:
        raise Unsupported('_generate_temp_tables: empty set-up or clean-up program')
    # who uses it: the tiled-region iterator wraps its count test and its `yield` in this context
    it = find_func(tree, '_Image._iterate_indices_for_tiled_region')
    withs = [n for n in ast.walk(it) if isinstance(n, ast.With) and _norm(n.items[0].context_expr) == 'self._generate_temp_tables(channel_table_defs)']
    if len(withs) != 1 or not any(isinstance(n, ast.Yield) for n in ast.walk(withs[0])):
        raise Unsupported('_iterate_indices_for_tiled_region no longer yields inside `with self._generate_temp_tables(channel_table_defs)`')
    # the only try statement of the iterator closes the cursor of the query around its `yield` (no handler: exceptions of the body
    # still pass through `_generate_temp_tables`)
    tries = [n for n in ast.walk(it) if isinstance(n, ast.Try)]
    if len(tries) > 1 or any(t.handlers or t.orelse or len(t.body) != 1 or not isinstance(t.body[0], ast.Expr)
                             or not isinstance(t.body[0].value, ast.Yield) or [_norm(x) for x in t.finalbody] != ['cursor.close()']
                             for t in tries):
        raise Unsupported('_iterate_indices_for_tiled_region: try statement other than `try: yield ... finally: cursor.close()`')
    gens = [n for n in ast.walk(it) if isinstance(n, ast.GeneratorExp)]
    if len(gens) != 1:
        raise Unsupported('_iterate_indices_for_tiled_region: single generator expression over the frame query not found')
    gen_iter = _norm(gens[0].generators[0].iter)
    if tries:
        if gen_iter != 'cursor' or 'cursor=self._db_con.execute(full_query)' not in ''.join(ast.unparse(it).split()):
            raise Unsupported('_iterate_indices_for_tiled_region: the cursor closed in the finally clause is not the cursor of the frame query')
    elif gen_iter != 'self._db_con.execute(full_query)':
        raise Unsupported('_iterate_indices_for_tiled_region: the frame query is iterated in an unknown way: ' + gen_iter[:60])
    # the channel table: first column OutputChannelIndex UNIQUE, joined on the query columns
    pct = find_func(tree, '_Image._prepare_channel_tables')
    ptxt = ''.join(ast.unparse(pct).split())
    for needle in ("channel_table_name=f'TemporaryChannelTable{i}'", "['OutputChannelIndexINTEGERUNIQUENOTNULL']+",
                   "channel_column_data=list(zip(output_channel_indices,*channel_indices_dict.values()))",
                   "output_channel_indices=range(num_channels)", "output_channel_indices=np.asarray(remap_channel_indices[i]).tolist()",
                   "join_lines.append(f'INNERJOIN{channel_table_name}ON{channel_join_condition}')",
                   "selection_lines.append(f'{channel_table_name}.OutputChannelIndex')"):
        if needle not in ptxt:
            raise Unsupported('_prepare_channel_tables changed (missing ' + needle + ')')
    code = {'drop-if-exists': 0, 'drop': 1, 'create': 2, 'insert': 3}
    fmt = lambda ops: '[' + ', '.join(f'({code[o]}, {"true" if f else "false"})' for o, f in ops) + ']'   # noqa: E731
    text = ("/-- `_Image._generate_temp_tables`: SQL statements per temporary table before the `with` body runs, as (operation, flag): "
            "0 = DROP TABLE if the table exists, 1 = DROP TABLE, 2 = CREATE TABLE (flag: IF NOT EXISTS), 3 = INSERT of all rows of "
            "`column_data` (flag: OR REPLACE).  Today: " + ', '.join(o + ('*' if f else '') for o, f in setup) + " -/\n"
            f"def tempTableSetup : List (Nat × Bool) := {fmt(setup)}\n\n"
            "/-- … and after the body has finished normally.  Today: " + ', '.join(o + ('*' if f else '') for o, f in cleanup) + " -/\n"
            f"def tempTableCleanup : List (Nat × Bool) := {fmt(cleanup)}\n\n"
            "/-- is the clean-up also run when the body raises (`try … finally` around the `yield`)? -/\n"
            f"def tempTableCleanupOnError : Bool := {'true' if on_error else 'false'}\n\n"
            "/-- does `_iterate_indices_for_tiled_region` close the cursor of its frame query when the `with` block is left, also by an "
            "exception (`cursor = self._db_con.execute(full_query)`; `try: yield … finally: cursor.close()`)?  An open cursor keeps the "
            "temporary table LOCKED for as long as the caller holds on to the exception; the table state `Option ChanTable` of the model is "
            "the whole state only if this is true -/\n"
            f"def tiledRegionCursorClosedOnExit : Bool := {'true' if len(tries) == 1 else 'false'}")
    return text, span_sha(body) + hashlib.sha256(ptxt.encode()).hexdigest()[:8]


def _tiled_region_call(fn, what):
    """the single `with self._iterate_indices_for_tiled_region(...) as (indices, output_shape):` of a get_total_pixel_matrix"""
    withs = [n for n in ast.walk(fn) if isinstance(n, ast.With) and len(n.items) == 1 and isinstance(n.items[0].context_expr, ast.Call)
             and _norm(n.items[0].context_expr.func) == 'self._iterate_indices_for_tiled_region']
    if len(withs) != 1:
        raise Unsupported(f'{what}: single `with self._iterate_indices_for_tiled_region(...)` not found')
    w = withs[0]
    if _norm(w.items[0].optional_vars) != '(indices,output_shape)' or w.items[0].context_expr.args:
        raise Unsupported(f'{what}: the tiled-region context is no longer bound to (indices, output_shape) / has positional arguments')
    return w, {k.arg: k.value for k in w.items[0].context_expr.keywords}


def _forwarding(tree, cls, callee_tree, name, doc, extra_pins=()):
    fn = find_func(tree, cls + '.get_total_pixel_matrix')
    body = strip_doc(fn.body)
    gate = ''.join(_norm(st) for st in body[:2])
    for needle in ('ifnotself.is_tiled:raiseRuntimeError(', 'ifnotself.is_indexable_as_total_pixel_matrix():raiseRuntimeError('):
        if needle not in gate:
            raise Unsupported(f'{cls}.get_total_pixel_matrix: gate changed (missing {needle})')
    txt = ''.join(_norm(st) for st in body)
    for needle in extra_pins:
        if needle not in txt:
            raise Unsupported(f'{cls}.get_total_pixel_matrix changed (missing {needle[:70]})')
    w, kws = _tiled_region_call(fn, cls + '.get_total_pixel_matrix')
    # the body of the with-block is a single `return self._get_pixels_by_[seg_]frame(spatial_shape=output_shape, indices_iterator=indices, ...)`
    if len(w.body) != 1 or not isinstance(w.body[0], ast.Return) or not isinstance(w.body[0].value, ast.Call):
        raise Unsupported(f'{cls}.get_total_pixel_matrix: body of the tiled-region context is no longer a single return')
    inner = {k.arg: _norm(k.value) for k in w.body[0].value.keywords}
    if inner.get('spatial_shape') != 'output_shape' or inner.get('indices_iterator') != 'indices':
        raise Unsupported(f'{cls}.get_total_pixel_matrix: output shape / instruction iterator no longer handed on unchanged')
    callee = find_func(callee_tree, '_Image._iterate_indices_for_tiled_region')
    names = [a.arg for a in callee.args.args]
    defaults = dict(zip(names[len(names) - len(callee.args.defaults):], callee.args.defaults))
    want = ['row_start', 'row_end', 'column_start', 'column_end', 'as_indices', 'allow_missing_values', 'allow_missing_combinations']
    vals = []
    for k in want:
        v = kws.get(k, defaults.get(k))
        if v is None:
            raise Unsupported(f'{cls}.get_total_pixel_matrix: no value for {k}')
        vals.append(v)
    for k in kws:
        if k not in want + ['channel_indices', 'remap_channel_indices']:
            raise Unsupported(f'{cls}.get_total_pixel_matrix: unexpected keyword {k} in the tiled-region call')
    blk = [ast.parse(ast.unparse(ast.Return(value=ast.Tuple(elts=vals, ctx=ast.Load())))).body[0]]
    text = translate_block(blk, name, [('row_start', 'int'), ('row_end', 'int'), ('column_start', 'int'), ('column_end', 'int'),
                                       ('as_indices', 'bool')], {}, doc=doc)
    return text, hashlib.sha256((txt + ast.unparse(callee.args)).encode()).hexdigest()


def build_T4fi(tree):
    return _forwarding(tree, 'Image', tree, 'imageTpmCall',
                       '`Image.get_total_pixel_matrix` -> `_iterate_indices_for_tiled_region`: (row_start, row_end, column_start, column_end, '
                       'as_indices, allow_missing_values, allow_missing_combinations) as forwarded (callee defaults where the call is silent)')


def build_T4fs(tree):
    import os
    img = ast.parse(open(os.path.join(os.environ.get('HD_REPO', '/repo'), 'src', 'highdicom', 'image.py')).read())
    return _forwarding(tree, 'Segmentation', img, 'segTpmCall',
                       '`Segmentation.get_total_pixel_matrix` -> `_iterate_indices_for_tiled_region`: (row_start, row_end, column_start, '
                       'column_end, as_indices, allow_missing_values, allow_missing_combinations) as forwarded',
                       extra_pins=("ifsegment_numbersisNone:segment_numbers=list(self.segment_numbers)",
                                   "iflen(segment_numbers)==0:raiseValueError(",
                                   "ifself.segmentation_type==SegmentationTypeValues.LABELMAP:channel_indices=None"
                                   "else:channel_indices=[{'ReferencedSegmentNumber':segment_numbers}]",
                                   "remap_channel_indices=self._get_segment_remap_values(segment_numbers,combine_segments=combine_segments,relabel=relabel)",
                                   "channel_indices=channel_indices,remap_channel_indices=[remap_channel_indices]",
                                   "segment_numbers=np.array(segment_numbers)"))


def _volume_forwarding(tree, cls, n1, n2):
    """`Image.get_volume`, tiled branch: the request is normalised once with `outputs_as_indices=True` and the 0-based results are
    handed to `get_total_pixel_matrix(..., as_indices=True)` -- both calls regenerated as the tuples they forward."""
    fn = find_func(tree, cls + '.get_volume')
    std = [n for n in ast.walk(fn) if isinstance(n, ast.Call) and _norm(n.func) == 'self._standardize_row_column_indices']
    if len(std) != 1 or [_norm(a) for a in std[0].args] != ['row_start', 'row_end', 'column_start', 'column_end']:
        raise Unsupported(cls + '.get_volume: single call _standardize_row_column_indices(row_start, row_end, column_start, column_end, ...) not found')
    skw = {k.arg: k.value for k in std[0].keywords}
    if sorted(skw) != ['as_indices', 'columns', 'outputs_as_indices', 'rows'] or _norm(skw['rows']) != 'total_rows' or _norm(skw['columns']) != 'total_columns':
        raise Unsupported(cls + '.get_volume: keywords of the normalisation call changed')
    txt = ''.join(ast.unparse(fn).split())
    for needle in ("ifself.is_tiled:total_rows=self.TotalPixelMatrixRowstotal_columns=self.TotalPixelMatrixColumns",
                   "row_start,row_end,column_start,column_end=self._standardize_row_column_indices("):
        if needle not in txt:
            raise Unsupported(cls + '.get_volume changed (missing ' + needle[:60] + ')')
    tpm = [n for n in ast.walk(fn) if isinstance(n, ast.Call) and _norm(n.func) == 'self.get_total_pixel_matrix']
    if len(tpm) != 1 or tpm[0].args:
        raise Unsupported(cls + '.get_volume: single keyword call of get_total_pixel_matrix not found')
    tkw = {k.arg: k.value for k in tpm[0].keywords}
    want = ['row_start', 'row_end', 'column_start', 'column_end', 'as_indices']
    if any(k not in tkw for k in want):
        raise Unsupported(cls + '.get_volume: region keywords missing in the get_total_pixel_matrix call')
    b1 = [ast.parse(ast.unparse(ast.Return(value=ast.Tuple(elts=[skw['as_indices'], skw['outputs_as_indices']], ctx=ast.Load())))).body[0]]
    t1 = translate_block(b1, n1, [('as_indices', 'bool')], {},
                         doc='`' + cls + '.get_volume`: (as_indices, outputs_as_indices) handed to `_standardize_row_column_indices`')
    b2 = [ast.parse(ast.unparse(ast.Return(value=ast.Tuple(elts=[tkw[k] for k in want], ctx=ast.Load())))).body[0]]
    t2 = translate_block(b2, n2, [('row_start', 'int'), ('row_end', 'int'), ('column_start', 'int'), ('column_end', 'int')], {},
                         doc='`' + cls + '.get_volume` (tiled): (row_start, row_end, column_start, column_end, as_indices) handed to '
                             '`get_total_pixel_matrix` AFTER the normalisation')
    return t1 + '\n\n' + t2, span_sha([ast.Expr(value=std[0]), ast.Expr(value=tpm[0])])



def build_T4fv(tree):
    return _volume_forwarding(tree, 'Image', 'volumeStdCall', 'volumeTpmCall')


def build_T4fw(tree):
    """the same two calls in `Segmentation.get_volume` (its own tiled branch in seg/sop.py)"""
    return _volume_forwarding(tree, 'Segmentation', 'segVolumeStdCall', 'segVolumeTpmCall')


TARGETS = {
    'T6': {'file': 'spatial.py', 'build': build_T6},
    'T4o': {'file': 'seg/sop.py', 'build': build_T4o, 'imports': ['HdVerif.Model.Round']},
    'T5w': {'file': 'image.py', 'build': build_T5w},
    'T5g': {'file': 'image.py', 'build': build_T5g},
    'T4c': {'file': 'seg/sop.py', 'build': build_T4c},
    'T4t': {'file': 'image.py', 'build': build_T4t},
    'T4fi': {'file': 'image.py', 'build': build_T4fi},
    'T4fs': {'file': 'seg/sop.py', 'build': build_T4fs},
    'T4fv': {'file': 'image.py', 'build': build_T4fv},
    'T4fw': {'file': 'seg/sop.py', 'build': build_T4fw},
}
