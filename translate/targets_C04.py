"""Translation targets owned by C04 (shared with C12): spatial.get_tile_array bounds/padding arithmetic.

T3 and T5 (image.py) are defined in translate/targets.py.
"""
from __future__ import annotations

import ast
import hashlib

from py2lean import Unsupported, find_func, span_sha, strip_doc, translate_block


def _norm(node):
    return ''.join(ast.unparse(node).split())


def build_T6(tree):
    """`get_tile_array`: guards on the 1-based offsets, 0-based slice bounds and pad amounts.

    Translated span: every statement before `tile_array = pixel_array[...]`.  The slice expression and the
    padding list are checked textually (they are the *use* of the translated quantities); the result is
    (row_offset, row_end, column_offset, column_end, pad_rows, pad_columns) with
    tile = pad(pixel_array[row_offset:row_end, column_offset:column_end], ((0, pad_rows), (0, pad_columns)))."""
    fn = find_func(tree, 'get_tile_array')
    body = strip_doc(fn.body)
    have = [a.arg for a in fn.args.args]
    for p in ('pixel_array', 'row_offset', 'column_offset', 'tile_rows', 'tile_columns', 'pad'):
        if p not in have:
            raise Unsupported(f'parameter {p} no longer in get_tile_array')
    cut = None
    for i, s in enumerate(body):
        if isinstance(s, ast.Assign) and isinstance(s.targets[0], ast.Name) and s.targets[0].id == 'tile_array':
            cut = i
            break
    if cut is None:
        raise Unsupported('tile_array = pixel_array[...] not found in get_tile_array')
    if _norm(body[cut].value) != 'pixel_array[row_offset:row_end,column_offset:column_end]':
        raise Unsupported('slice taken by get_tile_array changed: ' + _norm(body[cut].value))
    rest = body[cut + 1:]
    # the remainder must be: if pad and (pad_rows > 0 or pad_columns > 0): ... np.pad(tile_array, [(0,pad_rows),(0,pad_columns)] + ...) ; return tile_array
    if not (len(rest) == 2 and isinstance(rest[0], ast.If) and isinstance(rest[1], ast.Return)
            and _norm(rest[1].value) == 'tile_array'):
        raise Unsupported('tail of get_tile_array (pad, return tile_array) changed shape')
    if _norm(rest[0].test) != 'padand(pad_rows>0orpad_columns>0)' or rest[0].orelse:
        raise Unsupported('padding condition of get_tile_array changed: ' + _norm(rest[0].test))
    padtxt = ''.join(_norm(s) for s in rest[0].body)
    for needle in ('padding=[(0,pad_rows),(0,pad_columns)]+[(0,0)]*extra_dims', 'tile_array=np.pad(tile_array,padding)'):
        if needle not in padtxt:
            raise Unsupported('padding statement of get_tile_array changed (missing ' + needle + ')')
    block = list(body[:cut]) + [ast.parse(
        'return (row_offset, row_end, column_offset, column_end, pad_rows, pad_columns)').body[0]]
    block = [ast.parse(ast.unparse(s)).body[0] for s in block]
    for s in block:
        ast.fix_missing_locations(s)
    attrs = {'pixel_array.shape[0]': ('int', 'shape0'), 'pixel_array.shape[1]': ('int', 'shape1')}
    text = translate_block(
        block, 'tileArrayBounds',
        [('row_offset', 'int'), ('column_offset', 'int'), ('tile_rows', 'int'), ('tile_columns', 'int')], attrs,
        doc='`spatial.get_tile_array`: (row_offset, row_end, column_offset, column_end, pad_rows, pad_columns), 0-based; '
            'the tile is `pixel_array[row_offset:row_end, column_offset:column_end]` zero-padded by '
            '`pad_rows` rows below and `pad_columns` columns to the right')
    return text, span_sha(body[:cut]) + hashlib.sha256((_norm(body[cut]) + padtxt).encode()).hexdigest()[:8]


def build_T4o(tree):
    """Emptiness of a float (FRACTIONAL) mask as judged by the constructor for omit_empty_frames, and the value the
    constructor stores for the same pixel (`_get_segment_pixel_array`): two expressions in two places that must agree
    ("tile omitted => every stored value of the tile is 0")."""
    cls = find_func(tree, 'Segmentation')
    init = find_func(cls, '__init__')
    occ = None
    for node in ast.walk(init):
        if isinstance(node, ast.If) and _norm(node.test) == "pixel_array.dtype.kind=='f'":
            a = [st for st in node.body if isinstance(st, ast.Assign) and _norm(st.targets[0]) == 'occupied_array']
            b = [st for st in node.orelse if isinstance(st, ast.Assign) and _norm(st.targets[0]) == 'occupied_array']
            if len(a) == 1 and len(node.body) == 1 and len(b) == 1 and _norm(b[0].value) == 'pixel_array':
                occ = a[0]
    if occ is None:
        raise Unsupported("Segmentation.__init__: `if pixel_array.dtype.kind == 'f': occupied_array = ... else: occupied_array = "
                          "pixel_array` not found")
    blk = [ast.parse(ast.unparse(occ)).body[0], ast.parse('return occupied_array').body[0]]
    for st in blk:
        ast.fix_missing_locations(st)
    t1 = translate_block(blk, 'fractionOccupied', [('pixel_array', 'rat'), ('max_fractional_value', 'int')], {},
                         doc='`Segmentation.__init__`, omit_empty_frames: is a pixel of a float mask counted as occupied?')
    gsp = find_func(cls, '_get_segment_pixel_array')
    sto = None
    for node in ast.walk(gsp):
        if isinstance(node, ast.If) and _norm(node.test) == 'pixel_array.dtypein(np.float32,np.float64)':
            asg = [st for st in node.body if isinstance(st, ast.Assign) and _norm(st.targets[0]) == 'segment_array']
            # [selection of the segment (inside an if), the rounding, the cast]
            if len(asg) >= 2 and _norm(asg[-1].value) == 'segment_array.astype(dtype)':
                sto = asg[-2]
    if sto is None:
        raise Unsupported('_get_segment_pixel_array: float branch `segment_array = <rounding>; segment_array = segment_array.astype(dtype)` not found')
    blk2 = [ast.parse(ast.unparse(sto)).body[0], ast.parse('return segment_array').body[0]]
    for st in blk2:
        ast.fix_missing_locations(st)
    t2 = translate_block(blk2, 'fractionStored', [('segment_array', 'rat'), ('max_fractional_value', 'int')], {},
                         doc='`Segmentation._get_segment_pixel_array`, float input: the value stored for a pixel (before the cast to '
                             'the integer pixel type, which is exact on integral values in range)')
    return t1 + '\n\n' + t2, span_sha([occ]) + span_sha([sto])[:8]


# ---------------------------------------------------------------------------------------------------------------
# Bridges ("more of the code inside the model"): expressions of the hand-modelled loops / glue, regenerated
import re as _re


def build_T5w(tree):
    """The WHERE clause of the tiled-region query as a Lean predicate, GENERATED from the f-string pieces of the current
    source (column, comparison operator, placeholder) instead of being pinned as text."""
    fn = find_func(tree, '_Image._iterate_indices_for_tiled_region')
    where = None
    for node in ast.walk(fn):
        if isinstance(node, ast.Assign) and isinstance(node.targets[0], ast.Name) and node.targets[0].id == 'query_template':
            where = ''.join(ast.unparse(node.value).split())
    if where is None:
        raise Unsupported('query_template not found')
    m = _re.search(r"WHERE\((.*)\{filter_str\.replace\('WHERE','AND'\)\}\)", where)
    if not m:
        raise Unsupported('WHERE ( ... {filter_str...} ) not found in the query template')
    conds = m.group(1).split('AND')
    cols = {'L.RowPositionInTotalImagePixelMatrix': 'rp', 'L.ColumnPositionInTotalImagePixelMatrix': 'cp'}
    known = ['row_offset_start', 'row_end', 'column_offset_start', 'column_end', 'row_start', 'column_start']
    ops = {'>=': '≥', '<=': '≤', '<': '<', '>': '>', '=': '='}
    terms = []
    for c in conds:
        mm = _re.fullmatch(r"(L\.\w+)(>=|<=|<|>|=)\{(\w+)\}", c)
        if not mm or mm.group(1) not in cols or mm.group(3) not in known:
            raise Unsupported('condition of the tiled-region WHERE clause outside the fragment: ' + c[:80])
        terms.append(f"decide ({cols[mm.group(1)]} {ops[mm.group(2)]} {mm.group(3)})")
    if not terms:
        raise Unsupported('empty WHERE clause')
    params = ' '.join(f'({k} : Int)' for k in ['rp', 'cp'] + known)
    text = ("/-- the WHERE clause of the region query of `_iterate_indices_for_tiled_region`, generated from the f-string pieces of the "
            "query template (a row of the frame table at 1-based position (rp, cp) is fetched iff this is true) -/\n"
            f"def tiledRegionWhere {params} : Except ErrKind Bool :=\n  .ok (" + ' && '.join(terms) + ")")
    return text, hashlib.sha256(where.encode()).hexdigest()


def build_T5g(tree):
    """The missing-frame test of `_iterate_indices_for_tiled_region`: when it is made (flags, organisation) and what it compares."""
    fn = find_func(tree, '_Image._iterate_indices_for_tiled_region')
    body = strip_doc(fn.body)
    first = body[0]
    if not (isinstance(first, ast.If) and _norm(first.test) == 'allow_missing_values' and len(first.body) == 1
            and _norm(first.body[0]) == 'allow_missing_combinations=True' and not first.orelse):
        raise Unsupported('`if allow_missing_values: allow_missing_combinations = True` is no longer the first statement')
    guard = None
    for node in ast.walk(fn):
        if isinstance(node, ast.If) and 'allow_missing_combinations' in ast.unparse(node.test) and 'DimensionOrganizationType' in ast.unparse(node.test):
            guard = node
    if guard is None:
        raise Unsupported('guard of the missing-frame test not found')
    num = [st for st in guard.body if isinstance(st, ast.Assign) and _norm(st.targets[0]) == 'number_of_output_frames']
    cmp_ = [st for st in guard.body if isinstance(st, ast.If) and 'found_number' in ast.unparse(st.test)]
    if len(num) != 1 or len(cmp_) != 1 or not any(isinstance(x, ast.Raise) for x in cmp_[0].body):
        raise Unsupported('missing-frame test: `number_of_output_frames = ...` / `if found_number ...: raise` not found')
    # the per-channel factor `number_of_output_frames *= len(tdef.column_data)` is 1 for a query without channel tables
    txt = ''.join(_norm(st) for st in guard.body)
    if 'fortdefinchannel_table_defs:number_of_output_frames*=len(tdef.column_data)' not in txt:
        raise Unsupported('missing-frame test: the per-channel factor changed')
    new_guard = ast.If(test=guard.test, body=[num[0], cmp_[0]], orelse=[])
    block = [ast.parse(ast.unparse(st)).body[0] for st in [first, new_guard]] + [ast.parse('return True').body[0]]
    for st in block:
        ast.fix_missing_locations(st)
    attrs = {"self.get('DimensionOrganizationType', '')": ('str', 'dimensionOrganizationType')}
    text = translate_block(block, 'missingFrameTest',
                           [('allow_missing_values', 'bool'), ('allow_missing_combinations', 'bool'), ('v_frames', 'int'),
                            ('h_frames', 'int'), ('found_number', 'int')], attrs,
                           doc='`_iterate_indices_for_tiled_region`: the missing-frame test for a query without channel tables '
                               '(RuntimeError = refused; ok = the read goes on)')
    return text, span_sha([first, guard])


def _kwcall(call, want):
    kws = {k.arg: k.value for k in call.keywords}
    if sorted(kws) != sorted(want):
        raise Unsupported(f'get_tile_array call: keywords {sorted(kws)} instead of {sorted(want)}')
    return ast.Return(value=ast.Tuple(elts=[kws[k] for k in want], ctx=ast.Load()))


def build_T4c(tree):
    """Argument forwarding of the two `get_tile_array` calls of the Segmentation constructor path: the emptiness scan
    (`_get_nonempty_tile_indices`) and the tiling loop of `__init__` (both organisation branches)."""
    cls = find_func(tree, 'Segmentation')
    want = ['row_offset', 'column_offset', 'tile_rows', 'tile_columns']
    ne = find_func(cls, '_get_nonempty_tile_indices')
    calls = [n for n in ast.walk(ne) if isinstance(n, ast.Call) and _norm(n.func) == 'get_tile_array']
    if len(calls) != 1 or len(calls[0].args) != 1 or _norm(calls[0].args[0]) != 'pixel_array[0]':
        raise Unsupported('_get_nonempty_tile_indices: single call get_tile_array(pixel_array[0], ...) not found')
    comp = [n for n in ast.walk(ne) if isinstance(n, ast.ListComp)]
    if len(comp) != 1 or _norm(comp[0].generators[0].target) != '(i,pos)' or _norm(comp[0].generators[0].iter) != 'enumerate(plane_positions)' \
            or _norm(comp[0].elt) != 'i' or not _norm(comp[0].generators[0].ifs[0]).startswith('np.any(get_tile_array('):
        raise Unsupported('_get_nonempty_tile_indices: `[i for i, pos in enumerate(plane_positions) if np.any(get_tile_array(...))]` changed')
    b1 = [_kwcall(calls[0], want)]
    ast.fix_missing_locations(b1[0])
    t1 = translate_block([ast.parse(ast.unparse(b1[0])).body[0]], 'nonemptyTileCall', [('rows', 'int'), ('columns', 'int')],
                         {'pos[0].RowPositionInTotalImagePixelMatrix': ('int', 'rowPos'),
                          'pos[0].ColumnPositionInTotalImagePixelMatrix': ('int', 'colPos')},
                         doc='`_get_nonempty_tile_indices`: (row_offset, column_offset, tile_rows, tile_columns) handed to get_tile_array '
                             'for the plane position (rowPos, colPos)')
    init = find_func(cls, '__init__')
    calls = [n for n in ast.walk(init) if isinstance(n, ast.Call) and _norm(n.func) == 'get_tile_array']
    if len(calls) != 1 or len(calls[0].args) != 1 or _norm(calls[0].args[0]) != 'pixel_array[0]':
        raise Unsupported('Segmentation.__init__: single call get_tile_array(pixel_array[0], ...) not found')
    b2 = _kwcall(calls[0], want)
    t2 = translate_block([ast.parse(ast.unparse(ast.fix_missing_locations(b2))).body[0]], 'ctorTileCall',
                         [('row_offset', 'int'), ('column_offset', 'int')],
                         {'self.Rows': ('int', 'tileRows'), 'self.Columns': ('int', 'tileCols')},
                         doc='`Segmentation.__init__`, tiling loop: (row_offset, column_offset, tile_rows, tile_columns) handed to get_tile_array')
    # where row_offset / column_offset come from, per organisation
    txt = ''.join(ast.unparse(init).split())
    for needle in ("row_dim_index=plane_position_names.index('RowPositionInTotalImagePixelMatrix')",
                   "col_dim_index=plane_position_names.index('ColumnPositionInTotalImagePixelMatrix')",
                   "plane_position_values=plane_position_values[:,[1,0,2,3,4]]",
                   "plane_position_values=np.array([[*offsets,*coords]foroffsets,coordsinraw_plane_positions])",
                   "pos=plane_positions[plane_index][0]"):
        if needle not in txt:
            raise Unsupported('Segmentation.__init__: source of the tile offsets changed (missing ' + needle + ')')
    iff = None
    for node in ast.walk(init):
        if isinstance(node, ast.If) and any(isinstance(st, ast.Assign) and _norm(st.targets[0]) == 'row_offset' for st in node.body) \
                and 'TILED_FULL' in ast.unparse(node.test):
            iff = node
    if iff is None:
        raise Unsupported('Segmentation.__init__: branch assigning row_offset / column_offset not found')
    out = []
    for name, stmts, attrs in [
            ('ctorTileOffsetsFull', iff.body, {'plane_position_values[plane_index, row_dim_index]': ('int', 'rowPos'),
                                               'plane_position_values[plane_index, col_dim_index]': ('int', 'colPos')}),
            ('ctorTileOffsetsSparse', iff.orelse, {'pos.RowPositionInTotalImagePixelMatrix': ('int', 'rowPos'),
                                                   'pos.ColumnPositionInTotalImagePixelMatrix': ('int', 'colPos')})]:
        asg = [st for st in stmts if isinstance(st, ast.Assign) and _norm(st.targets[0]) in ('row_offset', 'column_offset')]
        if len(asg) != 2:
            raise Unsupported(f'{name}: assignments to row_offset / column_offset not found')
        blk = [ast.parse(ast.unparse(st)).body[0] for st in asg] + [ast.parse('return (row_offset, column_offset)').body[0]]
        out.append(translate_block(blk, name, [], attrs,
                                   doc=f'`Segmentation.__init__`, tiling loop ({"TILED_FULL" if name.endswith("Full") else "other organisations"}): '
                                       '(row_offset, column_offset) of the tile from the plane position (rowPos, colPos)'))
    return '\n\n'.join([t1, t2] + out), span_sha([calls[0]]) + hashlib.sha256(txt.encode()).hexdigest()[:8]


TARGETS = {
    'T6': {'file': 'spatial.py', 'build': build_T6},
    'T4o': {'file': 'seg/sop.py', 'build': build_T4o, 'imports': ['HdVerif.Model.Round']},
    'T5w': {'file': 'image.py', 'build': build_T5w},
    'T5g': {'file': 'image.py', 'build': build_T5g},
    'T4c': {'file': 'seg/sop.py', 'build': build_T4c},
}
