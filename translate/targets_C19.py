"""Translation targets of C19 (tie T).

  T19a  `pm.sop.ParametricMap._get_pixel_data_type_and_attr`  -> `Gen.pmPixelDataType` (1 USHORT, 2 SINGLE, 3 DOUBLE) and the
        `_pixel_data_type_map` literal of `__init__` as the table `Gen.pmPixelDataAttr`
  T19b  `ParametricMap.__init__`: admission of the transfer syntax by dtype kind (`Gen.pmSyntaxAdmitted`) and the
        block that derives Bits Allocated / Stored / High Bit / Pixel Representation from the pixel data type
        (`Gen.pmBits`; -1 = attribute not written)
  T19s  `sc.sop.SCImage.__init__`: the image pixel module decision block, from `allowed_types = ...` to the end of
        the `if pixel_array.ndim == 3 ... elif ... else` statement (`Gen.scPixelModule`)

The pre-pass of targets_C07 is extended with: numpy scalar types as dtype names (`np.uint8` -> 'uint8'), `any(...)`
over a generator / a recorded tuple of conditions, attribute stores on `self` as local variables (`self.X = v` -> `X = v`,
later `self.X` reads -> `X`), `x = Enum(x)` + `x.value`, and sets assigned in different branches and tested later
(`NAME = {...}` per branch, `probe not in NAME` afterwards -> one boolean per branch).
"""
from __future__ import annotations

import ast
import os

from py2lean import Unsupported, find_func, lean_table, span_sha, strip_doc, translate_block
from targets_C07 import (Pre, _and, _eq, _fix, _not, _or, _raise, _uid_consts,
                         check_enum_args_normalised_first)

NP_TYPES = {'bool_': 'bool', 'uint8': 'uint8', 'uint16': 'uint16', 'uint32': 'uint32', 'int8': 'int8', 'int16': 'int16',
            'float32': 'float32', 'float64': 'float64'}


def _repo_src():
    return os.path.join(os.environ.get('HD_REPO', '/repo'), 'src', 'highdicom')


class Pre19(Pre):
    def __init__(self, repo_src, self_attrs=(), probes=None, **kw):
        super().__init__(repo_src, {}, **kw)
        self.self_attrs = set(self_attrs)       # attributes of `self` handled as locals
        self.cond_tuples = {}                   # name -> list of condition exprs
        self.probes = probes or {}              # set name -> probe expression (ast)
        self.enum_vars = set()                  # names holding an Enum member (x = Enum(x)); x.value -> x

    # ---- expression rewriting on top of the base class
    def expr(self, node):
        pre = self

        class T(ast.NodeTransformer):
            def visit_Attribute(self, n):
                n = self.generic_visit(n)
                if isinstance(n.value, ast.Name) and n.value.id == 'np' and n.attr in NP_TYPES:
                    return ast.Constant(value=NP_TYPES[n.attr])
                if isinstance(n.value, ast.Name) and n.value.id == 'self' and n.attr in pre.self_attrs \
                        and isinstance(n.ctx, ast.Load):
                    return ast.Name(id=n.attr, ctx=ast.Load())
                if n.attr == 'value' and isinstance(n.value, ast.Name) and n.value.id in pre.enum_vars:
                    return ast.Name(id=n.value.id, ctx=ast.Load())
                v = pre.enum_member_value(n.value) if n.attr == 'value' else None
                if v is not None:
                    return v
                return n

            def visit_Call(self, n):
                if isinstance(n.func, ast.Name) and n.func.id == 'any' and len(n.args) == 1:
                    a = n.args[0]
                    if isinstance(a, ast.Name) and a.id in pre.cond_tuples:
                        return _or(self.visit(c) for c in pre.cond_tuples[a.id])
                    if isinstance(a, ast.GeneratorExp) and len(a.generators) == 1 and not a.generators[0].ifs \
                            and isinstance(a.generators[0].target, ast.Name):
                        it = a.generators[0].iter
                        el = pre.elems(it)
                        if el is None:
                            raise Unsupported('any() over unknown iterable ' + ast.unparse(it))
                        var = a.generators[0].target.id

                        class Sub(ast.NodeTransformer):
                            def __init__(self, repl):
                                self.repl = repl

                            def visit_Name(self, m):
                                return self.repl if m.id == var else m
                        outs = []
                        for e in el:
                            outs.append(self.visit(Sub(e).visit(ast.parse(ast.unparse(a.elt), mode='eval').body)))
                        return _or(outs)
                    raise Unsupported('any(...) of unsupported shape')
                return self.generic_visit(n)

            def visit_Compare(self, n):
                if len(n.ops) == 1 and isinstance(n.ops[0], (ast.In, ast.NotIn)) and isinstance(n.comparators[0], ast.Name) \
                        and n.comparators[0].id in pre.probes:
                    name = n.comparators[0].id
                    if ast.unparse(n.left) != ast.unparse(pre.probes[name]):
                        raise Unsupported(f'membership tests on {name} use different probes')
                    flag = ast.Name(id=name + '__has', ctx=ast.Load())
                    return _not(flag) if isinstance(n.ops[0], ast.NotIn) else flag
                return self.generic_visit(n)
        out = T().visit(ast.parse(ast.unparse(node), mode='eval').body)
        ast.fix_missing_locations(out)
        return super().expr(out)

    def elems(self, node):
        el = super().elems(node)
        if el is not None:
            # numpy scalar types -> dtype names
            return [ast.Constant(value=NP_TYPES[e.attr]) if (isinstance(e, ast.Attribute) and isinstance(e.value, ast.Name)
                                                              and e.value.id == 'np' and e.attr in NP_TYPES) else e for e in el]
        return None

    def stmt(self, st):
        if isinstance(st, ast.Assign) and len(st.targets) == 1:
            tgt, val = st.targets[0], st.value
            # self.X = v  ->  X = v
            if isinstance(tgt, ast.Attribute) and isinstance(tgt.value, ast.Name) and tgt.value.id == 'self':
                if tgt.attr in self.self_attrs:
                    return [ast.Assign(targets=[ast.Name(id=tgt.attr, ctx=ast.Store())], value=self.expr(val), lineno=0)]
                if tgt.attr in self.drop_targets:
                    return []
                raise Unsupported('store to self.' + tgt.attr)
            if isinstance(tgt, ast.Name):
                name = tgt.id
                # x = Enum(x)
                if isinstance(val, ast.Call) and isinstance(val.func, ast.Name) and val.func.id.endswith('Values') \
                        and len(val.args) == 1 and ast.unparse(val.args[0]) == name:
                    vals = self.enum(val.func.id)
                    self.enum_vars.add(name)
                    test = _not(_or(_eq(ast.Name(id=name, ctx=ast.Load()), ast.Constant(value=v)) for _, v in vals))
                    return [ast.If(test=test, body=[_raise('ValueError')], orelse=[])]
                # tuple of conditions
                if isinstance(val, ast.Tuple) and val.elts and all(isinstance(e, (ast.Compare, ast.BoolOp)) for e in val.elts):
                    self.cond_tuples[name] = list(val.elts)
                    return []
                # list of numpy types
                if isinstance(val, (ast.List, ast.Tuple, ast.Set)) and val.elts and all(
                        isinstance(e, ast.Attribute) and isinstance(e.value, ast.Name) and e.value.id == 'np' for e in val.elts):
                    self.colls[name] = list(val.elts)
                    return []
                # a set tested later against a fixed probe: one boolean per assignment site
                if name in self.probes and isinstance(val, (ast.Set, ast.List, ast.Tuple)):
                    probe = self.expr(self.probes[name])
                    elts = [self.expr(e) for e in val.elts]
                    return [ast.Assign(targets=[ast.Name(id=name + '__has', ctx=ast.Store())],
                                       value=_or(_eq(probe, e) for e in elts), lineno=0)]
        return super().stmt(st)


def _probes(stmts, names):
    """left operands of `x in NAME` / `x not in NAME` for the given set names"""
    out = {}
    for st in stmts:
        for n in ast.walk(st):
            if isinstance(n, ast.Compare) and len(n.ops) == 1 and isinstance(n.ops[0], (ast.In, ast.NotIn)) \
                    and isinstance(n.comparators[0], ast.Name) and n.comparators[0].id in names:
                nm = n.comparators[0].id
                if nm in out and ast.unparse(out[nm]) != ast.unparse(n.left):
                    raise Unsupported(f'membership tests on {nm} use different probes')
                out[nm] = n.left
    return out


# ------------------------------------------------------------------ T19a
PDT = {'USHORT': 1, 'SINGLE': 2, 'DOUBLE': 3}


def build_T19a(tree):
    fn = find_func(tree, 'ParametricMap._get_pixel_data_type_and_attr')
    body = strip_doc(fn.body)

    class R(ast.NodeTransformer):
        def visit_Return(self, n):
            v = n.value
            if isinstance(v, ast.Tuple) and len(v.elts) == 2 and isinstance(v.elts[0], ast.Attribute) \
                    and ast.unparse(v.elts[0].value) == '_PixelDataType' and v.elts[0].attr in PDT \
                    and ast.unparse(v.elts[1]) == f'self._pixel_data_type_map[_PixelDataType.{v.elts[0].attr}]':
                return ast.Return(value=ast.Constant(value=PDT[v.elts[0].attr]))
            raise Unsupported('return of _get_pixel_data_type_and_attr is not (type, self._pixel_data_type_map[type])')
    stmts = [R().visit(ast.parse(ast.unparse(s)).body[0]) for s in body]
    pre = Pre19(_repo_src())
    stmts = _fix(pre.stmts(stmts))
    attrs = {'pixel_array.dtype.kind': ('str', 'dtypeKind'), 'pixel_array.dtype.name': ('str', 'dtypeName'),
             'pixel_array.dtype': ('str', 'dtypeStr')}
    text = translate_block(stmts, 'pmPixelDataType', [], attrs,
                           doc='`ParametricMap._get_pixel_data_type_and_attr`: 1 USHORT, 2 SINGLE, 3 DOUBLE.  `dtypeStr` is '
                               '`str(pixel_array.dtype)` (equality with `np.uint8` / `np.uint16` includes the byte order)')
    # the attribute map of __init__
    init = find_func(tree, 'ParametricMap.__init__')
    amap = None
    for n in ast.walk(init):
        if isinstance(n, ast.Assign) and ast.unparse(n.targets[0]) == 'self._pixel_data_type_map' and isinstance(n.value, ast.Dict):
            amap = n.value
    if amap is None:
        raise Unsupported('self._pixel_data_type_map literal not found')
    rows = []
    for k, v in zip(amap.keys, amap.values):
        if not (isinstance(k, ast.Attribute) and k.attr in PDT and isinstance(v, ast.Constant) and isinstance(v.value, str)):
            raise Unsupported('unexpected entry in _pixel_data_type_map')
        rows.append(f'(({PDT[k.attr]} : Int), "{v.value}")')
    table = lean_table('pmPixelDataAttr', 'List (Int × String)', rows, doc='`ParametricMap.__init__`: `self._pixel_data_type_map`')
    return text + '\n\n' + table, span_sha(body) + span_sha([ast.Expr(value=amap)])[:8]


# ------------------------------------------------------------------ T19b
def build_T19b(tree):
    init = find_func(tree, 'ParametricMap.__init__')
    body = strip_doc(init.body)
    # (i) transfer syntax admission: three consecutive statements
    k = None
    for i, s in enumerate(body):
        if isinstance(s, ast.Assign) and ast.unparse(s.targets[0]) == 'supported_transfer_syntaxes':
            k = i
    if k is None:
        raise Unsupported('supported_transfer_syntaxes not found in ParametricMap.__init__')
    s0, s1, s2 = body[k], body[k + 1], body[k + 2]
    if not (isinstance(s0.value, ast.Set) and isinstance(s1, ast.If) and len(s1.body) == 1 and not s1.orelse
            and isinstance(s1.body[0], ast.Expr) and isinstance(s1.body[0].value, ast.Call)
            and ast.unparse(s1.body[0].value.func) == 'supported_transfer_syntaxes.update'
            and isinstance(s1.body[0].value.args[0], ast.Set)
            and isinstance(s2, ast.If) and ast.unparse(s2.test) == 'transfer_syntax_uid not in supported_transfer_syntaxes'
            and isinstance(s2.body[0], ast.Raise)):
        raise Unsupported('transfer syntax admission of ParametricMap.__init__ changed shape')
    ts = ast.Name(id='transfer_syntax_uid', ctx=ast.Load())
    admitted = _or([_or(_eq(ts, e) for e in s0.value.elts),
                    _and([s1.test, _or(_eq(ts, e) for e in s1.body[0].value.args[0].elts)])])
    blk1 = _fix([ast.If(test=_not(admitted), body=[s2.body[0]], orelse=[]), ast.Return(value=ast.Constant(value=0))])
    consts = {n: ('str', '"' + v + '"') for n, v in _uid_consts().items()}
    t1 = translate_block(blk1, 'pmSyntaxAdmitted', [('transfer_syntax_uid', 'str')],
                         {'pixel_array.dtype.kind': ('str', 'dtypeKind')}, consts=consts,
                         doc='`ParametricMap.__init__`: the transfer syntaxes admitted for the dtype kind of the array')
    # (ii) bits by pixel data type
    iff = None
    for s in body:
        if isinstance(s, ast.If) and ast.unparse(s.test) == 'pixel_data_type == _PixelDataType.USHORT':
            iff = s
    if iff is None:
        raise Unsupported('bits-by-pixel-data-type block not found in ParametricMap.__init__')
    names = ['BitsAllocated', 'BitsStored', 'HighBit', 'PixelRepresentation']

    def conv(node):
        if isinstance(node, ast.If):
            test = ast.parse(ast.unparse(node.test).replace('_PixelDataType.USHORT', '1').replace('_PixelDataType.SINGLE', '2')
                             .replace('_PixelDataType.DOUBLE', '3'), mode='eval').body
            if not node.orelse:
                raise Unsupported('bits block without else')
            return ast.If(test=test, body=conv_body(node.body), orelse=conv_body(node.orelse))
        return node

    def conv_body(stmts):
        out, seen = [], set()
        for s in stmts:
            if isinstance(s, ast.If):
                return [conv(s)]
            if isinstance(s, ast.Raise):
                return out + [s]
            if isinstance(s, ast.Assign) and isinstance(s.targets[0], ast.Attribute) and ast.unparse(s.targets[0].value) == 'self' \
                    and s.targets[0].attr in names:
                v = ast.parse(ast.unparse(s.value).replace('self.', ''), mode='eval').body
                out.append(ast.Assign(targets=[ast.Name(id=s.targets[0].attr, ctx=ast.Store())], value=v, lineno=0))
                seen.add(s.targets[0].attr)
            else:
                raise Unsupported('unexpected statement in bits block: ' + ast.unparse(s)[:60])
        ret = ast.Return(value=ast.Tuple(elts=[ast.Name(id=n, ctx=ast.Load()) if n in seen else ast.Constant(value=-1) for n in names],
                                         ctx=ast.Load()))
        return out + [ret]
    blk2 = _fix([conv(iff)])
    t2 = translate_block(blk2, 'pmBits', [('pixel_data_type', 'int')], {'pixel_array.itemsize': ('int', 'itemsize')},
                         doc='`ParametricMap.__init__`: (BitsAllocated, BitsStored, HighBit, PixelRepresentation) written for a pixel '
                             'data type; -1 = the attribute is not written')
    return t1 + '\n\n' + t2, span_sha([s0, s1, s2]) + span_sha([iff])[:8]


# ------------------------------------------------------------------ T19s
SC_OUT = ['BitsAllocated', 'BitsStored', 'HighBit', 'PixelRepresentation', 'SamplesPerPixel', 'PlanarConfiguration']


def build_T19s(tree):
    init = find_func(tree, 'SCImage.__init__')
    body = strip_doc(init.body)
    # the caller may spell these as enum members or as their values: nothing may read them before they are normalised
    check_enum_args_normalised_first(body, ('photometric_interpretation', 'coordinate_system'))
    start = end = None
    for i, s in enumerate(body):
        if isinstance(s, ast.Assign) and ast.unparse(s.targets[0]) == 'allowed_types':
            start = i
        if isinstance(s, ast.If) and ast.unparse(s.test) == 'pixel_array.ndim == 3':
            end = i
    if start is None or end is None or end < start:
        raise Unsupported('image pixel module block of SCImage.__init__ not found')
    block = body[start:end + 1]
    # the frame is then handed to encode_frame with exactly these attributes (shape check, textual)
    call = None
    for s in body[end + 1:]:
        if isinstance(s, ast.Assign) and ast.unparse(s.targets[0]) == 'encoded_frame':
            call = ast.unparse(s.value)
    want = ("encode_frame(pixel_array, transfer_syntax_uid=self.file_meta.TransferSyntaxUID, bits_allocated=self.BitsAllocated, "
            "bits_stored=self.BitsStored, photometric_interpretation=self.PhotometricInterpretation, "
            "pixel_representation=self.PixelRepresentation, planar_configuration=getattr(self, 'PlanarConfiguration', None))")
    if call != want:
        raise Unsupported('SCImage.__init__ no longer calls encode_frame with the image pixel module attributes: ' + str(call)[:200])
    probes = _probes(block, {'accepted_interpretations'})
    pre = Pre19(_repo_src(), self_attrs=SC_OUT, probes=probes, drop_targets={'PhotometricInterpretation'})
    init_pc = ast.Assign(targets=[ast.Name(id='PlanarConfiguration', ctx=ast.Store())], value=ast.Constant(value=-1), lineno=0)
    ret = ast.Return(value=ast.Tuple(elts=[ast.Name(id=n, ctx=ast.Load()) for n in SC_OUT], ctx=ast.Load()))
    stmts = _fix([init_pc] + pre.stmts(block) + [ret])
    consts = {n: ('str', '"' + v + '"') for n, v in _uid_consts().items()}
    attrs = {'pixel_array.dtype': ('str', 'dtypeStr'), 'pixel_array.ndim': ('int', 'ndim'),
             'pixel_array.shape[-1]': ('int', 'lastDim'), 'pixel_array.max()': ('int', 'arrayMax')}
    text = translate_block(
        stmts, 'scPixelModule',
        [('bits_allocated', 'int'), ('photometric_interpretation', 'str'), ('transfer_syntax_uid', 'str')], attrs, consts=consts,
        doc='`SCImage.__init__`: the image pixel module decision block.  Result = (BitsAllocated, BitsStored, HighBit, '
            'PixelRepresentation, SamplesPerPixel, PlanarConfiguration or -1 when not written); the frame then goes to '
            '`encode_frame` with exactly these attributes and the given photometric interpretation')
    return text, span_sha(block) + span_sha([ast.Expr(value=ast.Constant(value=want))])[:8]


TARGETS = {
    'T19a': {'file': 'pm/sop.py', 'build': build_T19a},
    'T19b': {'file': 'pm/sop.py', 'build': build_T19b},
    'T19s': {'file': 'sc/sop.py', 'build': build_T19s},
}


# ------------------------------------------------------------------ T19m
def build_T19m(tree):
    """`pm.content.RealWorldValueMapping.__init__`: LUT xor slope/intercept, LUT only for integer ranges, LUT length"""
    fn = find_func(tree, 'RealWorldValueMapping.__init__')
    body = strip_doc(fn.body)
    k = None
    for i, s_ in enumerate(body):
        if isinstance(s_, ast.Assign) and ast.unparse(s_.targets[0]) == 'is_floating_point':
            k = i
    if k is None or ast.unparse(body[k].value) != 'any((isinstance(v, float) for v in value_range))':
        raise Unsupported('is_floating_point = any(isinstance(v, float) for v in value_range) not found')
    iff = body[k + 1]
    if not (isinstance(iff, ast.If) and ast.unparse(iff.test) == 'lut_data is not None' and iff.orelse):
        raise Unsupported('LUT / linear branch of RealWorldValueMapping.__init__ not found')

    class L(ast.NodeTransformer):
        def visit_Call(self, n):
            if isinstance(n.func, ast.Name) and n.func.id == 'len' and ast.unparse(n.args[0]) == 'lut_data':
                return ast.Name(id='lut_data', ctx=ast.Load())      # the optional parameter stands for its length
            return self.generic_visit(n)
    pre = Pre19(_repo_src(), drop_attr_bases={'self'})
    blk = ast.If(test=iff.test, body=list(iff.body) + [ast.Return(value=ast.Constant(value=1))],
                 orelse=list(iff.orelse) + [ast.Return(value=ast.Constant(value=2))])
    blk = L().visit(ast.parse(ast.unparse(blk)).body[0])
    # stores to self.* carry the validated values into the data set; they do not decide anything
    def strip(stmts):
        out = []
        for s_ in stmts:
            if isinstance(s_, ast.Assign) and isinstance(s_.targets[0], ast.Attribute) and ast.unparse(s_.targets[0].value) == 'self':
                continue
            if isinstance(s_, ast.If):
                s_ = ast.If(test=s_.test, body=strip(s_.body) or [ast.Pass()], orelse=strip(s_.orelse))
            out.append(s_)
        return out
    stmts = _fix(pre.stmts(strip([blk])))
    text = translate_block(
        stmts, 'rwvmInit',
        [('lut_data', 'optint'), ('slope', 'optint'), ('intercept', 'optint'), ('is_floating_point', 'bool')],
        {'value_range[0]': ('int', 'first'), 'value_range[1]': ('int', 'last')},
        doc='`RealWorldValueMapping.__init__`: 1 = look-up table, 2 = linear.  `lut_data` stands for `len(lut_data)`, '
            '`slope` / `intercept` only for being given, `first` / `last` are `int(value_range[k])`')
    return text, span_sha([body[k], iff])


TARGETS['T19m'] = {'file': 'pm/content.py', 'build': build_T19m}


# ------------------------------------------------------------------ T19l: the frame loop of ParametricMap.__init__
def _shape_axis(node, what):
    """`range(pixel_array.shape[K])` -> K"""
    t = ast.unparse(node)
    import re
    m = re.fullmatch(r'range\(pixel_array\.shape\[(\d)\]\)', t)
    if not m:
        raise Unsupported(f'{what} loop of ParametricMap.__init__ no longer runs over range(pixel_array.shape[k]): {t}')
    return int(m.group(1))


def build_T19l(tree):
    """The loop skeleton of `ParametricMap.__init__` that decides WHICH plane becomes WHICH frame and what is attached to it
    (audit D, C19 item 2): nesting order and ranges of the two loops, the subscript of `plane = pixel_array[..]`, the index
    used for `plane_positions[..]` / `plane_position_values[..]` / `real_world_value_mappings[..]`, the sharing threshold
    `has_multiple_mappings`, the shared mapping index, one record and one frame appended per iteration (in that iteration),
    `NumberOfFrames = len(frames)`, `b''.join(frames)` / `encapsulate(frames)` into the attribute chosen by T19a, and the
    two arms of `_encode_frame`.  Emitted as Lean definitions over the loop variables; `Model/PMap.build` is written with
    them, `Proofs/PMap.build_ok` shows what they amount to."""
    init = find_func(tree, 'ParametricMap.__init__')
    body = strip_doc(init.body)
    outer = [s for s in body if isinstance(s, ast.For) and ast.unparse(s.iter).startswith('range(pixel_array.shape[')]
    if len(outer) != 1:
        raise Unsupported('frame loop of ParametricMap.__init__ not found')
    outer = outer[0]
    inner = [s for s in outer.body if not isinstance(s, (ast.Expr,)) or not isinstance(getattr(s, 'value', None), ast.Constant)]
    if len(inner) != 1 or not isinstance(inner[0], ast.For):
        raise Unsupported('the outer frame loop no longer consists of exactly one inner loop')
    inner = inner[0]
    if outer.orelse or inner.orelse:
        raise Unsupported('for-else in the frame loop')
    ov, iv = ast.unparse(outer.target), ast.unparse(inner.target)
    oa, ia = _shape_axis(outer.iter, 'outer'), _shape_axis(inner.iter, 'inner')
    if {oa, ia} != {0, 3} or ov == iv or not (ov.isidentifier() and iv.isidentifier()):
        raise Unsupported(f'frame loops run over axes {oa}, {ia} with variables {ov}, {iv}')
    for n in ast.walk(inner):
        if isinstance(n, (ast.Break, ast.Continue, ast.Return, ast.While)) or (isinstance(n, ast.For) and n is not inner):
            raise Unsupported('control flow inside the frame loop body: ' + type(n).__name__)
        if isinstance(n, ast.Name) and isinstance(n.ctx, ast.Store) and n.id in (ov, iv) and n is not inner.target:
            raise Unsupported('a loop variable is reassigned in the frame loop body')

    def var_of(expr, what):
        t = ast.unparse(expr)
        if t not in (ov, iv):
            raise Unsupported(f'{what} is indexed by `{t}`, not by a loop variable')
        return t
    stmts = inner.body
    # plane = pixel_array[a, :, :, b]; frames.append(self._encode_frame(plane)) as the LAST two statements
    if len(stmts) < 2 or ast.unparse(stmts[-1]) != 'frames.append(self._encode_frame(plane))':
        raise Unsupported('the loop body no longer ends with frames.append(self._encode_frame(plane))')
    pl = stmts[-2]
    if not (isinstance(pl, ast.Assign) and ast.unparse(pl.targets[0]) == 'plane' and isinstance(pl.value, ast.Subscript)
            and ast.unparse(pl.value.value) == 'pixel_array' and isinstance(pl.value.slice, ast.Tuple)
            and len(pl.value.slice.elts) == 4 and [ast.unparse(e) for e in pl.value.slice.elts[1:3]] == [':', ':']):
        raise Unsupported('plane is no longer pixel_array[a, :, :, b]: ' + ast.unparse(pl))
    ax0 = var_of(pl.value.slice.elts[0], 'axis 0 of the plane')
    ax3 = var_of(pl.value.slice.elts[3], 'axis 3 of the plane')
    if [ast.unparse(s) for s in stmts].count('self.PerFrameFunctionalGroupsSequence.append(pffg_item)') != 1 \
            or ast.unparse(stmts[0]) != 'pffg_item = Dataset()' \
            or sum(1 for n in ast.walk(inner) if isinstance(n, ast.Call) and ast.unparse(n.func) in
                   ('frames.append', 'self.PerFrameFunctionalGroupsSequence.append')) != 2:
        raise Unsupported('one frame and one per-frame item per iteration: appends changed')
    # positions
    pos_idx = set()
    for n in ast.walk(inner):
        if isinstance(n, ast.Subscript) and ast.unparse(n.value) in ('plane_positions', 'plane_position_values'):
            pos_idx.add(var_of(n.slice, ast.unparse(n.value)))
    pos_stores = sorted(ast.unparse(n) for n in ast.walk(inner) if isinstance(n, ast.Assign)
                        and ast.unparse(n.targets[0]).startswith('pffg_item.PlanePosition'))
    if len(pos_idx) != 1 or len(pos_stores) != 2 or not all(s.endswith(f'= plane_positions[{list(pos_idx)[0]}]') for s in pos_stores):
        raise Unsupported('plane position / dimension index of a frame are no longer taken at one loop variable: ' + str(pos_stores))
    if 'frame_content_item.DimensionIndexValues' not in ast.unparse(inner) \
            or f'enumerate(plane_position_values[{list(pos_idx)[0]}])' not in ast.unparse(inner):
        raise Unsupported('DimensionIndexValues no longer computed from plane_position_values[<position index>]')
    # mappings
    maps = [n for n in ast.walk(inner) if isinstance(n, ast.Subscript) and ast.unparse(n.value) == 'real_world_value_mappings']
    guard = [n for n in ast.walk(inner) if isinstance(n, ast.If) and ast.unparse(n.test) == 'has_multiple_mappings']
    if len(maps) != 1 or len(guard) != 1 or guard[0].orelse or \
            ast.unparse(guard[0].body[-1]) != f'pffg_item.RealWorldValueMappingSequence = real_world_value_mappings[{ast.unparse(maps[0].slice)}]':
        raise Unsupported('per-frame Real World Value Mapping Sequence is written differently')
    map_idx = var_of(maps[0].slice, 'real_world_value_mappings')
    # sharing threshold and the shared item
    hm = [s for s in ast.walk(init) if isinstance(s, ast.Assign) and ast.unparse(s.targets[0]) == 'has_multiple_mappings']
    import re
    m = re.fullmatch(r'pixel_array\.shape\[3\] > (\d+)', ast.unparse(hm[0].value)) if len(hm) == 1 else None
    if not m:
        raise Unsupported('has_multiple_mappings is no longer pixel_array.shape[3] > K')
    thr = int(m.group(1))
    sh = [s for s in ast.walk(init) if isinstance(s, ast.If) and ast.unparse(s.test) == 'not has_multiple_mappings']
    m2 = re.fullmatch(r'sffg_item\.RealWorldValueMappingSequence = real_world_value_mappings\[(\d+)\]',
                      ast.unparse(sh[0].body[-1])) if len(sh) == 1 and not sh[0].orelse else None
    if not m2:
        raise Unsupported('shared Real World Value Mapping Sequence is written differently')
    shared_idx = int(m2.group(1))
    # what follows the loop
    k = body.index(outer)
    before = [ast.unparse(s) for s in body[:k]]
    if 'frames = []' not in before or 'self.PerFrameFunctionalGroupsSequence = []' not in before:
        raise Unsupported('frames / PerFrameFunctionalGroupsSequence are no longer started empty before the loop')
    after = [ast.unparse(s) for s in body[k + 1:]]
    want_after = ['self.NumberOfFrames = len(frames)',
                  "if self.file_meta.TransferSyntaxUID.is_encapsulated:\n    pixel_data = encapsulate(frames)\nelse:\n    pixel_data = b''.join(frames)",
                  'setattr(self, pixel_data_attr, pixel_data)']
    if after != want_after:
        raise Unsupported('the statements after the frame loop changed: ' + str(after)[:300])
    # _encode_frame
    ef = find_func(tree, 'ParametricMap._encode_frame')
    eb = [ast.unparse(s) for s in strip_doc(ef.body)]
    want_ef = ("if self.file_meta.TransferSyntaxUID.is_encapsulated:\n    return encode_frame(pixel_array, "
               "transfer_syntax_uid=self.file_meta.TransferSyntaxUID, bits_allocated=self.BitsAllocated, "
               "bits_stored=self.BitsStored, photometric_interpretation=self.PhotometricInterpretation, "
               "pixel_representation=self.PixelRepresentation)\nelse:\n    return pixel_array.flatten().astype("
               "pixel_array.dtype.newbyteorder('<'), copy=False).tobytes()")
    if len(eb) != 2 or not eb[0].startswith('if pixel_array.ndim != 2:') or eb[1] != want_ef:
        raise Unsupported('ParametricMap._encode_frame changed: ' + str(eb)[:300])
    sel = lambda v: 'o' if v == ov else 'i'   # noqa: E731
    n_of = {0: 'shape0', 3: 'shape3'}
    text = f'''/-- `ParametricMap.__init__`: the frame loop `for {ov} in range(pixel_array.shape[{oa}]): for {iv} in
    range(pixel_array.shape[{ia}])`; `body o i` is what one iteration appends (`o` the outer, `i` the inner loop variable) -/
def pmFrameLoop {{α : Type}} (shape0 shape3 : Nat) (body : Nat → Nat → α) : List α :=
  (List.range {n_of[oa]}).flatMap (fun o => (List.range {n_of[ia]}).map (fun i => body o i))

/-- `plane = pixel_array[{ax0}, :, :, {ax3}]`: (index on axis 0, index on axis 3) -/
def pmPlaneSubscript (o i : Nat) : Nat × Nat := ({sel(ax0)}, {sel(ax3)})

/-- `plane_positions[{list(pos_idx)[0]}]`, `plane_position_values[{list(pos_idx)[0]}]` (position and dimension index of the frame) -/
def pmPositionIndex (o i : Nat) : Nat := {sel(list(pos_idx)[0])}

/-- `real_world_value_mappings[{map_idx}]` (per-frame functional group) -/
def pmMappingIndex (o i : Nat) : Nat := {sel(map_idx)}

/-- `has_multiple_mappings = pixel_array.shape[3] > {thr}` -/
def pmHasMultipleMappings (shape3 : Nat) : Bool := decide (shape3 > {thr})

/-- `real_world_value_mappings[{shared_idx}]` (shared functional groups, when not `has_multiple_mappings`) -/
def pmSharedMappingIndex : Nat := {shared_idx}'''
    return text, span_sha([outer] + hm + sh + body[k + 1:] + strip_doc(ef.body))


TARGETS['T19l'] = {'file': 'pm/sop.py', 'build': build_T19l}


# ------------------------------------------------------------------ T19t / T19q: expressions behind hand-written model parts
def build_T19t(tree):
    """`ParametricMap.__init__`: (a) the ranks taken with a flat / a nested mapping sequence and the axes whose length the number of
    mapping lists / plane positions is compared with (hand-written `Model/PMap.admission`); (b) the Dimension Index Value of a
    plane: 1-based position of the FIRST row of the sorted distinct values (`np.unique(.., axis=0)`) that equals the plane's value
    as a whole (`.all(axis=1)`) (hand-written `rankIn` / `dimensionIndex`)."""
    import re
    init = find_func(tree, 'ParametricMap.__init__')
    src = [s for s in ast.walk(init) if isinstance(s, ast.If)]
    flat = [s for s in src if re.fullmatch(r'pixel_array\.ndim in \((\d+(, \d+)*,?)\)', ast.unparse(s.test))
            and 'real_world_value_mappings' in ast.unparse(s)]
    if len(flat) != 1:
        raise Unsupported('rank test for a flat mapping sequence (`pixel_array.ndim in (..)`) not found')
    flat = flat[0]
    flat_ranks = [int(v) for v in re.findall(r'\d+', ast.unparse(flat.test).split(' in ')[1])]
    if len(flat.orelse) != 1 or not isinstance(flat.orelse[0], ast.If):
        raise Unsupported('rank test: elif for the nested mapping sequence not found')
    nested = flat.orelse[0]
    m = re.fullmatch(r'pixel_array\.ndim == (\d+)', ast.unparse(nested.test))
    if not m or len(nested.orelse) != 1 or not isinstance(nested.orelse[0], ast.Raise):
        raise Unsupported('rank test: `elif pixel_array.ndim == K: .. else: raise` changed')
    nested_rank = int(m.group(1))
    # count checks
    cm = [s for s in src if re.fullmatch(r'len\(real_world_value_mappings\) != pixel_array\.shape\[(\d)\]', ast.unparse(s.test))]
    cp = [s for s in src if re.fullmatch(r'len\(plane_positions\) != pixel_array\.shape\[(\d)\]', ast.unparse(s.test))]
    if len(cm) != 1 or len(cp) != 1 or not all(isinstance(s.body[0], ast.Raise) for s in cm + cp):
        raise Unsupported('count checks of mapping lists / plane positions changed')
    map_axis = int(ast.unparse(cm[0].test)[-2])
    pos_axis = int(ast.unparse(cp[0].test)[-2])
    # Rows / Columns range (VR US, not 0): `if not (LO <= pixel_array.shape[A] <= HI and LO <= pixel_array.shape[B] <= HI): raise ValueError`
    rng = [s for s in src if isinstance(s.test, ast.UnaryOp) and isinstance(s.test.op, ast.Not) and 'pixel_array.shape' in ast.unparse(s.test)
           and '<=' in ast.unparse(s.test)]
    if len(rng) != 1 or not isinstance(rng[0].body[0], ast.Raise) or rng[0].orelse:
        raise Unsupported('range check of Rows / Columns (`if not (1 <= pixel_array.shape[1] <= 65535 and ..): raise`) not found')
    bo = rng[0].test.operand
    if not (isinstance(bo, ast.BoolOp) and isinstance(bo.op, ast.And)):
        raise Unsupported('range check of Rows / Columns is not a conjunction')
    bounds = []
    for cmp_ in bo.values:
        m2 = re.fullmatch(r'(\d+) <= pixel_array\.shape\[(\d)\] <= (\d+)', ast.unparse(cmp_))
        if not m2:
            raise Unsupported('range check of Rows / Columns: conjunct changed: ' + ast.unparse(cmp_))
        bounds.append((int(m2.group(1)), int(m2.group(2)), int(m2.group(3))))
    if len({(b[0], b[2]) for b in bounds}) != 1:
        raise Unsupported('range check of Rows / Columns: the axes have different bounds')
    # ... and it must stand before the attributes are written from the array's shape
    rows_asg = [s for s in ast.walk(init) if isinstance(s, ast.Assign) and ast.unparse(s.targets[0]) == 'self.Rows']
    if len(rows_asg) != 1 or rows_asg[0].lineno < rng[0].lineno:
        raise Unsupported('range check of Rows / Columns no longer precedes `self.Rows = ..`')
    shape_lo, shape_hi, shape_axes = bounds[0][0], bounds[0][2], sorted(b[1] for b in bounds)
    # dimension index
    dpv = [s for s in ast.walk(init) if isinstance(s, ast.Assign) and ast.unparse(s.targets[0]) == 'dimension_position_values']
    want_dpv = '[np.unique(plane_position_values[:, index], axis=0) for index in range(plane_position_values.shape[1])]'
    if len(dpv) != 1 or ast.unparse(dpv[0].value) != want_dpv:
        raise Unsupported('dimension_position_values is no longer the sorted distinct values per indexed attribute')
    div = [s for s in ast.walk(init) if isinstance(s, ast.Assign) and ast.unparse(s.targets[0]) == 'frame_content_item.DimensionIndexValues']
    if len(div) != 1 or not isinstance(div[0].value, ast.ListComp):
        raise Unsupported('DimensionIndexValues is no longer a list comprehension')
    lc = div[0].value
    gen = lc.generators[0]
    if len(lc.generators) != 1 or ast.unparse(gen.target) not in ('idx, pos', '(idx, pos)') or not re.fullmatch(r'enumerate\(plane_position_values\[\w+\]\)', ast.unparse(gen.iter)) or gen.ifs:
        raise Unsupported('DimensionIndexValues: generator changed')
    elt = ast.unparse(lc.elt)
    m = re.fullmatch(r'int\(np\.where\(\(dimension_position_values\[idx\]\.reshape\(len\(dimension_position_values\[idx\]\), -1\) == '
                     r'np\.ravel\(pos\)\)\.all\(axis=1\)\)\[0\]\[(\d+)\]( \+ (\d+))?\)', elt)
    if not m:
        raise Unsupported('DimensionIndexValues: element expression changed: ' + elt[:200])
    nth, base = int(m.group(1)), int(m.group(3) or 0)
    text = f'''/-- `if pixel_array.ndim in (..)`: ranks taken with a FLAT sequence of mappings -/
def pmFlatRanks : List Nat := [{', '.join(map(str, flat_ranks))}]

/-- `elif pixel_array.ndim == K`: the rank taken with a NESTED sequence of mappings (anything else raises) -/
def pmNestedRank : Nat := {nested_rank}

/-- `len(real_world_value_mappings) != pixel_array.shape[K]` (after normalisation to 4-D) -/
def pmMappingCountAxis : Nat := {map_axis}

/-- `len(plane_positions) != pixel_array.shape[K]` -/
def pmPositionCountAxis : Nat := {pos_axis}

/-- `if not (LO <= pixel_array.shape[A] <= HI and ..): raise ValueError`: the axes (of the array normalised to 4-D) whose length must
    be describable by Rows / Columns, and the bounds -/
def pmShapeRangeAxes : List Nat := [{', '.join(map(str, shape_axes))}]
def pmShapeRangeLo : Nat := {shape_lo}
def pmShapeRangeHi : Nat := {shape_hi}

/-- Dimension Index Value: `np.where(<row of the sorted distinct values equals the plane's value as a whole>)[0][N] + B` -- which match -/
def pmDimIndexMatch : Nat := {nth}

/-- ... and the base `B` added to its 0-based position -/
def pmDimIndexBase : Nat := {base}'''
    return text, span_sha([flat, cm[0], cp[0], rng[0], dpv[0], div[0]])


TARGETS['T19t'] = {'file': 'pm/sop.py', 'build': build_T19t}


def build_T19q(tree):
    """`pixels._select_real_world_value_map`: order of the selector kinds, the subscript used for an integer selector, the attribute
    compared for a string selector, first match (`list.index`) for strings and codes (hand-written `Model/PMap.select`)."""
    import re
    fn = find_func(tree, '_select_real_world_value_map')
    body = strip_doc(fn.body)
    if len(body) != 1 or not isinstance(body[0], ast.If):
        raise Unsupported('_select_real_world_value_map is no longer one if / elif chain')
    chain, node = [], body[0]
    while True:
        chain.append(node)
        if len(node.orelse) == 1 and isinstance(node.orelse[0], ast.If):
            node = node.orelse[0]
        else:
            if node.orelse:
                raise Unsupported('_select_real_world_value_map: trailing else')
            break
    tests = [ast.unparse(c.test) for c in chain]
    if tests != ['isinstance(selector, int)', 'isinstance(selector, str)', 'isinstance(selector, (CodedConcept, Code))']:
        raise Unsupported('_select_real_world_value_map: selector kinds changed: ' + str(tests))
    b0 = [ast.unparse(s) for s in chain[0].body]
    m = re.fullmatch(r'try:\n    item = sequence\[selector( ([+-]) (\d+))?\]\nexcept IndexError:\n    return None', b0[0]) if len(b0) == 2 else None
    if not m or b0[1] != 'return item':
        raise Unsupported('_select_real_world_value_map: integer branch changed: ' + str(b0)[:200])
    off = int(m.group(3) or 0) * (-1 if m.group(2) == '-' else 1)
    b1 = [ast.unparse(s) for s in chain[1].body]
    m1 = re.fullmatch(r'labels = \[item\.(\w+) for item in sequence\]', b1[0]) if len(b1) == 3 else None
    if not m1 or b1[1] != 'try:\n    index = labels.index(selector)\nexcept ValueError:\n    return None' or b1[2] != 'return sequence[index]':
        raise Unsupported('_select_real_world_value_map: string branch changed: ' + str(b1)[:200])
    b2 = [ast.unparse(s) for s in chain[2].body]
    if len(b2) != 3 or b2[0] != 'units = [CodedConcept.from_dataset(item.MeasurementUnitsCodeSequence[0]) for item in sequence]' \
            or b2[1] != 'try:\n    index = units.index(selector)\nexcept ValueError:\n    return None' or b2[2] != 'return sequence[index]':
        raise Unsupported('_select_real_world_value_map: code branch changed: ' + str(b2)[:200])
    sign = '+' if off >= 0 else '-'
    text = f'''/-- `_select_real_world_value_map`, integer selector: the subscript of `sequence[..]` (Python indexing, `IndexError` -> `None`) -/
def rwvmSelectSubscript (selector : Int) : Int := selector {sign} {abs(off)}

/-- string selector: the attribute of the items that is compared; the FIRST item that matches is returned (`list.index`) -/
def rwvmSelectStringAttribute : String := "{m1.group(1)}"

/-- order in which the kinds of selector are tested -/
def rwvmSelectKinds : List String := ["int", "str", "code"]'''
    return text, span_sha(body)


TARGETS['T19q'] = {'file': 'pixels.py', 'build': build_T19q}


# ------------------------------------------------------------------ T19f: what the read entry points forward to the pixel transform
def build_T19f(tree):
    """`image.py`: for the public read entry points `get_frame`, `get_frames`, `get_volume` and the internal `_get_pixels_by_frame`
    every call of `_CombinedPixelTransform(..)` / `self._get_pixels_by_frame(..)` with the expressions passed for `frame_index`,
    `apply_real_world_transform`, `real_world_value_map_selector`; and where `get_frame`'s `frame_index` comes from.  The model's
    `readReal o f sel` hands the caller's selector and the frame's own index to the mapping search: `Proofs/PMapTie.read_forwarding_tie`
    states that on this table."""
    KEYS = ('frame_index', 'apply_real_world_transform', 'real_world_value_map_selector')
    rows, spans = [], []
    for cls, meth in (('_Image', 'get_frame'), ('_Image', 'get_frames'), ('_Image', '_get_pixels_by_frame'), ('Image', 'get_volume')):
        fn = find_func(tree, f'{cls}.{meth}')
        if fn.decorator_list:
            raise Unsupported(f'{meth} is wrapped by a decorator')
        calls = [n for n in ast.walk(fn) if isinstance(n, ast.Call)
                 and ast.unparse(n.func) in ('_CombinedPixelTransform', 'self._get_pixels_by_frame')]
        calls.sort(key=lambda n: n.lineno)
        if not calls:
            raise Unsupported(f'{meth} no longer reaches the pixel transform')
        for k, c in enumerate(calls):
            if any(kw.arg is None for kw in c.keywords):
                raise Unsupported(f'{meth}: **kwargs in the call of {ast.unparse(c.func)}')
            callee = ast.unparse(c.func).replace('self.', '') + f'#{k}'
            got = {kw.arg: ast.unparse(kw.value) for kw in c.keywords}
            for key in KEYS:
                rows.append((meth, callee, key, got.get(key, '<not passed>')))
            spans.append(c)
        if meth == 'get_frame':
            asg = [s for s in ast.walk(fn) if isinstance(s, ast.Assign) and ast.unparse(s.targets[0]) == 'frame_index']
            rows.append((meth, 'local', 'frame_index', ast.unparse(asg[0].value) if len(asg) == 1 else '<not one assignment>'))
            spans.extend(asg)
        # the parameters themselves must not be rebound on the way
        for name in ('real_world_value_map_selector', 'apply_real_world_transform'):
            if any(isinstance(n, ast.Name) and isinstance(n.ctx, ast.Store) and n.id == name for n in ast.walk(fn)):
                raise Unsupported(f'{meth}: parameter {name} is reassigned before it is forwarded')
    q = lambda s: '"' + s.replace('\\', '\\\\').replace('"', '\\"') + '"'   # noqa: E731
    text = lean_table('pmReadForwarding', 'List (String × String × String × String)',
                      ['(' + ', '.join(q(x) for x in r) + ')' for r in rows],
                      doc='(entry point, callee#k, keyword, expression passed): what `get_frame`, `get_frames`, `get_volume`, '
                          '`_get_pixels_by_frame` forward to `_CombinedPixelTransform` / `_get_pixels_by_frame`')
    return text, span_sha(spans)


TARGETS['T19f'] = {'file': 'image.py', 'build': build_T19f}
