"""Translation targets of C05 added in round 2 (the earlier ones - T1, T1b, T4, T11*, T12 - live in targets.py).

T11f  io.py: which offset table the lazy reader uses for encapsulated data and where the first frame starts
      (`_read_metadata` encapsulated branch, `_get_bot`, `_read_eot`), the seek of `read_frame_raw`.
T1c   image.py: how the OTHER readers of stored frames fetch their raw frame / cached frame (`get_frames`,
      `_get_pixels_by_frame` behind get_volume / get_total_pixel_matrix, the lazy branch of `pixel_array`,
      `get_raw_frame`'s delegation to the file reader), the conversion of the frame number (`operator.index`) in the index
      guards, and which attribute the cached branches read.
"""
from __future__ import annotations

import ast
import hashlib

from py2lean import Unsupported, find_func, span_sha, translate_block


def _ret(src):
    return [ast.fix_missing_locations(ast.parse('return ' + src).body[0])]


def _one(nodes, what):
    nodes = list(nodes)
    if len(nodes) != 1:
        raise Unsupported(f'expected exactly one {what}, found {len(nodes)}')
    return nodes[0]


def _q(t):
    return '"' + t.replace('\\', '\\\\').replace('"', '\\"') + '"'


def build_T11f(tree):
    texts, shas = [], []
    # ---- _get_bot: the tag after the table must be an item; stored table kept iff one entry per frame
    fn = find_func(tree, '_get_bot')
    src = [ast.unparse(s) for s in fn.body]
    need = ['basic_offset_table = _read_bot(fp)', 'first_frame_offset = fp.tell()', 'tag = TupleTag(fp.read_tag())',
            'fp.seek(first_frame_offset, 0)', 'return basic_offset_table']
    pos = -1
    for n in need:
        hits = [i for i, s in enumerate(src) if s == n and i > pos]
        if not hits:
            raise Unsupported(f'_get_bot: statement `{n}` not found in order')
        pos = hits[0]
    tagchk = _one([s for s in fn.body if isinstance(s, ast.If) and 'tag' in ast.unparse(s.test)], '_get_bot tag test')
    if ast.unparse(tagchk.test) != 'int(tag) != ItemTag' or not isinstance(tagchk.body[-1], ast.Raise):
        raise Unsupported('_get_bot: the test of the tag that follows the Basic Offset Table changed')
    rebuild = _one([s for s in fn.body if isinstance(s, ast.If) and '_build_bot' in ast.unparse(s)], '_get_bot rebuild test')
    if [ast.unparse(s) for s in rebuild.body if not ast.unparse(s).startswith('logger.')] != \
            ['basic_offset_table = _build_bot(fp, number_of_frames)'] or rebuild.orelse:
        raise Unsupported('_get_bot: the rebuild branch changed shape')
    t = ast.unparse(rebuild.test)
    if 'len(basic_offset_table)' not in t:
        raise Unsupported('_get_bot: the rebuild test no longer looks at len(basic_offset_table)')
    blk = ast.parse(f"if {t.replace('len(basic_offset_table)', 'n_stored')}:\n    return 1\nelse:\n    return 0").body
    texts.append(translate_block(blk, 'getBotChoice', [('n_stored', 'int'), ('number_of_frames', 'int')], {},
                                 doc='`_get_bot`: 1 = rebuild the table from the fragments (`_build_bot`), 0 = use the stored Basic Offset Table'))
    shas.append(span_sha(fn.body))
    # ---- _read_eot
    fn = find_func(tree, '_read_eot')
    body = [s for s in fn.body if not (isinstance(s, ast.Expr) and isinstance(s.value, ast.Constant))]
    if len(body) != 3 or ast.unparse(body[0]) != 'result = np.frombuffer(extended_offset_table, dtype=np.uint64).tolist()' \
            or ast.unparse(body[2]) != 'return result' or not isinstance(body[1], ast.If):
        raise Unsupported('_read_eot changed shape: ' + ' | '.join(ast.unparse(s)[:60] for s in body))
    t = ast.unparse(body[1].test)
    if 'len(result)' not in t or not isinstance(body[1].body[-1], ast.Raise) or body[1].orelse:
        raise Unsupported('_read_eot: length test changed')
    blk = ast.parse(f"if {t.replace('len(result)', 'n_entries')}:\n    raise ValueError('x')\nreturn 0").body
    texts.append(translate_block(blk, 'eotLengthCheck', [('n_entries', 'int'), ('number_of_frames', 'int')], {},
                                 doc='`_read_eot`: refusal unless the table has one entry per frame'))
    texts.append('/-- `_read_eot`: bytes per entry (`np.frombuffer(..., dtype=np.uint64)`) -/\ndef eotWordBytes : Nat := 8')
    shas.append(span_sha(body))
    # ---- _read_metadata, encapsulated branch
    fn = find_func(tree, 'ImageFileReader._read_metadata')
    enc = _one([n for n in ast.walk(fn) if isinstance(n, ast.If) and ast.unparse(n.test) == 'self.transfer_syntax_uid.is_encapsulated'],
               '_read_metadata encapsulated test')
    inner = _one([s for s in enc.body if isinstance(s, ast.If)], 'table choice in the encapsulated branch')
    if ast.unparse(inner.test) != "'ExtendedOffsetTable' in metadata" or enc.body[-1] is not inner:
        raise Unsupported('_read_metadata: the Extended Offset Table is no longer tried first')
    eot_src = [ast.unparse(s) for s in inner.body]
    if 'self._offset_table = _read_eot(metadata.ExtendedOffsetTable, number_of_frames)' not in eot_src:
        raise Unsupported('_read_metadata: _read_eot call changed')
    ffo = _one([s for s in inner.body if isinstance(s, ast.Assign) and ast.unparse(s.targets[0]) == 'self._first_frame_offset'],
               'first frame offset of the EOT branch')
    texts.append(translate_block([ast.fix_missing_locations(ast.Return(value=ffo.value))], 'eotFirstFrameOffset', [],
                                 {'self._pixel_data_offset': ('int', 'pixelDataOffset')},
                                 doc='`_read_metadata`, Extended Offset Table branch: offset of the first frame item from the first byte '
                                     'of the Pixel Data ELEMENT (12 header bytes + the 8 bytes of an empty Basic Offset Table item)'))
    bot_src = [ast.unparse(s) for s in inner.orelse]
    if len(inner.orelse) != 2 or not isinstance(inner.orelse[0], ast.Try) or \
            [ast.unparse(s) for s in inner.orelse[0].body] != ['self._offset_table = _get_bot(self._fp, number_of_frames)'] or \
            bot_src[1] != 'self._first_frame_offset = self._fp.tell()':
        raise Unsupported('_read_metadata: the Basic Offset Table branch changed: ' + ' | '.join(s[:70] for s in bot_src))
    nof = _one([n for n in ast.walk(fn) if isinstance(n, ast.Assign) and ast.unparse(n.targets[0]) == 'number_of_frames'],
               'assignment of number_of_frames')
    if ast.unparse(nof.value) != "int(getattr(metadata, 'NumberOfFrames', 1))":
        raise Unsupported('_read_metadata: number_of_frames is no longer int(getattr(metadata, "NumberOfFrames", 1))')
    chk = _one([s for s in fn.body if isinstance(s, ast.If) and 'len(self._offset_table)' in ast.unparse(s.test)], 'table length test')
    if not isinstance(chk.body[-1], ast.Raise) or chk.orelse or fn.body.index(chk) < fn.body.index(enc):
        raise Unsupported('_read_metadata: table length test changed')
    t = ast.unparse(chk.test)
    blk = ast.parse(f"if {t.replace('len(self._offset_table)', 'n_table')}:\n    raise ValueError('x')\nreturn 0").body
    texts.append(translate_block(blk, 'tableLengthCheck', [('n_table', 'int'), ('number_of_frames', 'int')], {},
                                 doc='`_read_metadata`: refusal unless the offset table has one entry per frame'))
    shas.append(span_sha([enc, chk, nof]))
    # ---- read_frame_raw: table entry and seek
    fn = find_func(tree, 'ImageFileReader.read_frame_raw')
    fo = _one([s for s in fn.body if isinstance(s, ast.Assign) and ast.unparse(s.targets[0]) == 'frame_offset'], 'frame_offset')
    if ast.unparse(fo.value) != 'self._offset_table[index]':
        raise Unsupported('read_frame_raw: frame_offset is no longer self._offset_table[index]')
    sk = _one([s for s in fn.body if isinstance(s, ast.Expr) and isinstance(s.value, ast.Call)
               and ast.unparse(s.value.func) == 'self._fp.seek'], 'seek of read_frame_raw')
    if len(sk.value.args) != 2 or ast.unparse(sk.value.args[1]) != '0' or fn.body.index(sk) != fn.body.index(fo) + 1:
        raise Unsupported('read_frame_raw: the absolute seek to the frame changed')
    texts.append(translate_block([ast.fix_missing_locations(ast.Return(value=sk.value.args[0]))], 'readSeekPosition',
                                 [('frame_offset', 'int')], {'self._first_frame_offset': ('int', 'firstFrameOffset')},
                                 doc='`read_frame_raw`: absolute position the reader seeks to for a frame'))
    shas.append(span_sha([fo, sk]))
    # _read_metadata, native branch: where the first frame starts (header of the Pixel Data element: implicit / explicit VR)
    fnm = find_func(tree, 'ImageFileReader._read_metadata')
    encm = _one([n for n in ast.walk(fnm) if isinstance(n, ast.If) and ast.unparse(n.test) == 'self.transfer_syntax_uid.is_encapsulated'],
                '_read_metadata encapsulated test')
    hdr = [x for x in encm.orelse if isinstance(x, ast.If) and ast.unparse(x.test) == 'self._fp.is_implicit_VR']
    ffo2 = [x for x in encm.orelse if isinstance(x, ast.Assign) and ast.unparse(x.targets[0]) == 'self._first_frame_offset']
    if len(hdr) != 1 or len(ffo2) != 1 or encm.orelse.index(ffo2[0]) != encm.orelse.index(hdr[0]) + 1:
        raise Unsupported('_read_metadata: native header offset block changed')
    blk = [hdr[0], ast.Return(value=ffo2[0].value)]
    for x in blk:
        ast.fix_missing_locations(x)
    texts.append(translate_block(blk, 'nativeFirstFrameOffset', [], {'self._fp.is_implicit_VR': ('bool', 'isImplicitVR'),
                                                                       'self._pixel_data_offset': ('int', 'pixelDataOffset')},
                                 doc='`_read_metadata`, native branch: file position of the first byte of the pixel data VALUE (element position + '
                                     'header: tag 4 + length 4 for implicit VR, tag 4 + VR 2 + reserved 2 + length 4 for explicit VR)'))
    shas.append(span_sha([hdr[0], ffo2[0]]))
    # ImageFileReader.__init__: which argument types are an open file object, which a path; everything else is a TypeError
    fn = find_func(tree, 'ImageFileReader.__init__')
    top = _one([n for n in fn.body if isinstance(n, ast.If) and ast.unparse(n.test).startswith('isinstance(filename,')], 'reader constructor dispatch')
    if not (len(top.orelse) == 1 and isinstance(top.orelse[0], ast.If) and len(top.orelse[0].orelse) == 1
            and isinstance(top.orelse[0].orelse[0], ast.Raise) and 'TypeError' in ast.unparse(top.orelse[0].orelse[0])):
        raise Unsupported('ImageFileReader.__init__: dispatch on the type of filename changed shape')

    def tn(call):
        if not (isinstance(call, ast.Call) and ast.unparse(call.func) == 'isinstance' and len(call.args) == 2 and ast.unparse(call.args[0]) == 'filename'):
            raise Unsupported('ImageFileReader.__init__: dispatch is no longer isinstance(filename, ...)')
        t = call.args[1]
        return [ast.unparse(e) for e in t.elts] if isinstance(t, ast.Tuple) else [ast.unparse(t)]
    fo, pa = tn(top.test), tn(top.orelse[0].test)
    if 'self._filename = Path(filename)' not in [ast.unparse(x) for x in top.orelse[0].body]:
        raise Unsupported('ImageFileReader.__init__: a path argument is no longer stored as Path(filename)')
    texts.append('/-- `ImageFileReader.__init__`: types taken as an open file object; types taken as a path (anything else: TypeError) -/\n'
                 'def readerFileObjectTypes : List String := [' + ', '.join(_q(x) for x in fo) + ']\n'
                 'def readerPathTypes : List String := [' + ', '.join(_q(x) for x in pa) + ']')
    shas.append(hashlib.sha256(repr((fo, pa)).encode()).hexdigest())
    # the conversion applied to the index by read_frame_raw / read_frame before anything else
    convs = []
    for q in ('ImageFileReader.read_frame_raw', 'ImageFileReader.read_frame'):
        f2 = find_func(tree, q)
        b2 = [s for s in f2.body if not (isinstance(s, ast.Expr) and isinstance(s.value, ast.Constant))]
        c = 'none'
        if isinstance(b2[0], ast.Assign) and ast.unparse(b2[0].targets[0]) == 'index' and isinstance(b2[0].value, ast.Call) \
                and [ast.unparse(a) for a in b2[0].value.args] == ['index'] and not b2[0].value.keywords:
            c = ast.unparse(b2[0].value.func)
        convs.append(c)
    texts.append('/-- `read_frame_raw` / `read_frame`: the function their first statement applies to `index` -/\n'
                 'def readerIndexConversion : List String := [' + ', '.join(_q(c) for c in convs) + ']')
    shas.append(hashlib.sha256(repr(convs).encode()).hexdigest())
    return '\n\n'.join(texts), hashlib.sha256(''.join(shas).encode()).hexdigest()


TARGETS = {
    'T11f': {'file': 'io.py', 'build': build_T11f},
}


def _fetch_block(fn, fname):
    """The `if self._pixel_array is None:` block of a frame loop that fetches raw bytes itself (get_frames,
    _get_pixels_by_frame): returns the expressions (lazy arg, raw arg, decode index, cache subscript, cached decode index,
    single-frame guard statement)."""
    hits = [n for n in ast.walk(fn) if isinstance(n, ast.If) and ast.unparse(n.test) == 'self._pixel_array is None'
            and any('read_frame_raw' in ast.unparse(s) for s in n.body)]
    outer = _one(hits, f'{fname}: fetch block `if self._pixel_array is None`')
    if len(outer.body) != 2 or not isinstance(outer.body[0], ast.If) or ast.unparse(outer.body[0].test) != 'self._file_reader is not None':
        raise Unsupported(f'{fname}: un-cached fetch no longer chooses between the file reader and get_raw_frame')
    lz, mem = outer.body[0].body, outer.body[0].orelse
    if len(lz) != 1 or len(mem) != 1:
        raise Unsupported(f'{fname}: un-cached fetch arms changed shape')

    def call_of(st, func, nargs):
        if not (isinstance(st, ast.Assign) and isinstance(st.value, ast.Call) and ast.unparse(st.value.func) == func
                and len(st.value.args) == nargs and not st.value.keywords):
            raise Unsupported(f'{fname}: expected `{ast.unparse(st.targets[0]) if isinstance(st, ast.Assign) else "?"} = {func}(...)`, found {ast.unparse(st)[:80]}')
        return st
    a = call_of(lz[0], 'self._file_reader.read_frame_raw', 1)
    b = call_of(mem[0], 'self.get_raw_frame', 1)
    if ast.unparse(a.targets[0]) != 'frame_bytes' or ast.unparse(b.targets[0]) != 'frame_bytes':
        raise Unsupported(f'{fname}: raw bytes are no longer bound to frame_bytes')
    dec = call_of(outer.body[1], 'frame_transform', 2)
    if ast.unparse(dec.value.args[0]) != 'frame_bytes' or ast.unparse(dec.targets[0]) != 'frame':
        raise Unsupported(f'{fname}: the transform is no longer applied to frame_bytes')
    if len(outer.orelse) != 2 or not isinstance(outer.orelse[0], ast.If) or ast.unparse(outer.orelse[0].test) != 'self.number_of_frames == 1':
        raise Unsupported(f'{fname}: cached branch changed shape')
    single, multi = outer.orelse[0].body, outer.orelse[0].orelse
    if len(single) != 1 or not isinstance(single[0], ast.If) or [ast.unparse(s) for s in single[0].body] != ['frame = self.pixel_array'] \
            or len(single[0].orelse) != 1 or not isinstance(single[0].orelse[0], ast.Raise):
        raise Unsupported(f'{fname}: single-frame cached branch changed shape')
    if len(multi) != 1 or not (isinstance(multi[0], ast.Assign) and isinstance(multi[0].value, ast.Subscript)
                               and ast.unparse(multi[0].value.value) == 'self.pixel_array' and ast.unparse(multi[0].targets[0]) == 'frame'):
        raise Unsupported(f'{fname}: the cached frame is no longer self.pixel_array[...] (the revalidating property)')
    cdec = call_of(outer.orelse[1], 'frame_transform', 2)
    if ast.unparse(cdec.value.args[0]) != 'frame':
        raise Unsupported(f'{fname}: the transform is no longer applied to the cached frame')
    guard = ast.If(test=single[0].test, body=_ret('0'), orelse=[single[0].orelse[0]])
    ast.fix_missing_locations(guard)
    return outer, a.value.args[0], b.value.args[0], dec.value.args[1], multi[0].value.slice, cdec.value.args[1], guard


def build_T1c(tree):
    texts, shas = [], []
    P = [('frame_index', 'int')]
    for qual, prefix in (('_Image.get_frames', 'frames'), ('_Image._get_pixels_by_frame', 'pixels')):
        fn = find_func(tree, qual)
        outer, lazy_arg, raw_arg, dindex, csub, cdindex, guard = _fetch_block(fn, qual)
        texts.append(translate_block(_ret(ast.unparse(lazy_arg)), f'{prefix}LazyArg', P, {},
                                     doc=f'`{qual}`: the index handed to `self._file_reader.read_frame_raw` (lazily read image)'))
        texts.append(translate_block(_ret('(' + ast.unparse(raw_arg) + ', False)'), f'{prefix}RawArgs', P, {},
                                     doc=f'`{qual}`: the arguments of `self.get_raw_frame` (one positional argument; as_index keeps its default False)'))
        texts.append(translate_block(_ret(ast.unparse(dindex)), f'{prefix}DecodeIndex', P, {},
                                     doc=f'`{qual}`: the frame index handed to the transform that decodes the raw bytes'))
        texts.append(translate_block(_ret(ast.unparse(csub)), f'{prefix}CacheIndex', P, {},
                                     doc=f'`{qual}`: subscript of the cached `pixel_array` (number_of_frames != 1)'))
        texts.append(translate_block([guard], f'{prefix}SingleGuard', P, {},
                                     doc=f'`{qual}`: single-frame image with a cached array: which frame_index is answered (0) / refused'))
        shas.append(span_sha([outer]))
    # get_frames: every requested number goes through _standardize_frame_index(frame_number, as_indices) inside the loop
    fn = find_func(tree, '_Image.get_frames')
    loop = _one([n for n in ast.walk(fn) if isinstance(n, ast.For) and ast.unparse(n.iter) == 'frame_numbers'], 'get_frames loop')
    first = loop.body[0]
    if ast.unparse(first) != 'frame_index = self._standardize_frame_index(frame_number, as_indices)' or ast.unparse(loop.target) != 'frame_number':
        raise Unsupported('get_frames: the loop no longer starts with frame_index = self._standardize_frame_index(frame_number, as_indices)')
    # get_raw_frame: delegation to the file reader with the standardised index, before the in-memory branches
    fn = find_func(tree, '_Image.get_raw_frame')
    body = [s for s in fn.body if not (isinstance(s, ast.Expr) and isinstance(s.value, ast.Constant))]
    if ast.unparse(body[0]) != 'frame_index = self._standardize_frame_index(frame_number, as_index)':
        raise Unsupported('get_raw_frame no longer starts by standardising the frame number')
    dele = body[1]
    if not (isinstance(dele, ast.If) and ast.unparse(dele.test) == 'self._file_reader is not None' and len(dele.body) == 1
            and isinstance(dele.body[0], ast.With) and [ast.unparse(i.context_expr) for i in dele.body[0].items] == ['self._file_reader']
            and len(dele.body[0].body) == 1 and isinstance(dele.body[0].body[0], ast.Return)):
        raise Unsupported('get_raw_frame: delegation to the file reader changed shape')
    call = dele.body[0].body[0].value
    if not (isinstance(call, ast.Call) and ast.unparse(call.func) == 'self._file_reader.read_frame_raw' and len(call.args) == 1 and not call.keywords):
        raise Unsupported('get_raw_frame: no longer returns self._file_reader.read_frame_raw(<index>)')
    texts.append(translate_block(_ret(ast.unparse(call.args[0])), 'rawLazyArg', P, {},
                                 doc='`get_raw_frame` on a lazily read image: the index handed to `self._file_reader.read_frame_raw`'))
    shas.append(span_sha(body[:2]))
    # pixel_array on a lazily read image: whole array = get_stored_frame(1) / get_stored_frames(), cached afterwards
    fn = find_func(tree, '_Image.pixel_array')
    lz = _one([n for n in ast.walk(fn) if isinstance(n, ast.If) and ast.unparse(n.test) == 'self._file_reader is not None'], 'pixel_array lazy test')
    inner = lz.body[0]
    want = ("if self._pixel_array is None:\n    if self.number_of_frames == 1:\n        pixel_array = self.get_stored_frame(1)\n"
            "    else:\n        pixel_array = self.get_stored_frames()\n    self._pixel_array = pixel_array\nelse:\n    return self._pixel_array")
    if len(lz.body) != 1 or ast.unparse(inner) != want or lz.orelse:
        raise Unsupported('pixel_array: the lazy branch changed: ' + ast.unparse(inner)[:200])
    rest = fn.body[fn.body.index(lz) + 1:]
    if [ast.unparse(s) for s in rest] != ['return super().pixel_array']:
        raise Unsupported('pixel_array no longer defers to pydicom after the lazy branch')
    texts.append('/-- `pixel_array` on a lazily read image (textually pinned): frame number handed to `get_stored_frame` for a single-frame '
                 'image; a multi-frame image calls `get_stored_frames()` with its defaults -/\ndef pixelArrayLazySingleNumber : Int := 1')
    shas.append(span_sha([lz] + rest))
    # the decode parameters of the frame transform: decode_frame(param=self.X) in __call__, self.X = image... in __init__
    call_fn = find_func(tree, '_CombinedPixelTransform.__call__')
    init_fn = find_func(tree, '_CombinedPixelTransform.__init__')
    dec = _one([n for n in ast.walk(call_fn) if isinstance(n, ast.Call) and ast.unparse(n.func) == 'decode_frame'], 'decode_frame call of the transform')
    if dec.args or any(k.arg is None for k in dec.keywords):
        raise Unsupported('transform: decode_frame is no longer called with keywords only')
    assigns = {}
    for n in ast.walk(init_fn):
        if isinstance(n, ast.Assign) and len(n.targets) == 1 and ast.unparse(n.targets[0]).startswith('self.'):
            assigns.setdefault(ast.unparse(n.targets[0]), []).append(ast.unparse(n.value))
    rows = []
    for k in sorted(dec.keywords, key=lambda k: k.arg):
        v = ast.unparse(k.value)
        if v.startswith('self.'):
            src = assigns.get(v, [])
            if len(src) != 1:
                raise Unsupported(f'transform: {v} is not assigned exactly once in __init__')
            v = src[0]
        rows.append((k.arg, v))
    texts.append('/-- the frame transform behind `get_frame(s)` / `get_volume` / `get_total_pixel_matrix`: parameter of `decode_frame` -> '
                 'expression it is fed from (attribute of the transform resolved to its assignment in `__init__`) -/\n'
                 'def transformDecodeArgs : List (String × String) :=\n  [' + ',\n   '.join(f'({_q(a)}, {_q(b)})' for a, b in rows) + ']')
    shas.append(hashlib.sha256(repr(rows).encode()).hexdigest())
    # Image.from_file, lazy branch: which argument types are wrapped and which are handed to the reader as they are
    fn = find_func(tree, '_Image.from_file')
    lz = _one([n for n in fn.body if isinstance(n, ast.If) and ast.unparse(n.test) == 'lazy_frame_retrieval'], 'from_file lazy test')
    disp = lz.body[0]

    def type_names(call):
        if not (isinstance(call, ast.Call) and ast.unparse(call.func) == 'isinstance' and len(call.args) == 2 and ast.unparse(call.args[0]) == 'fp'):
            raise Unsupported('from_file: dispatch is no longer isinstance(fp, ...)')
        t = call.args[1]
        return [ast.unparse(e) for e in t.elts] if isinstance(t, ast.Tuple) else [ast.unparse(t)]
    if not (isinstance(disp, ast.If) and [ast.unparse(x) for x in disp.body] == ['fp = DicomBytesIO(fp)'] and len(disp.orelse) == 1
            and isinstance(disp.orelse[0], ast.If) and isinstance(disp.orelse[0].test, ast.UnaryOp) and isinstance(disp.orelse[0].test.op, ast.Not)
            and [ast.unparse(x) for x in disp.orelse[0].body] == ['fp = DicomIO(fp)'] and not disp.orelse[0].orelse):
        raise Unsupported('from_file: the lazy dispatch on the type of fp changed shape')
    if [ast.unparse(x) for x in lz.body[1:]] != ['reader = ImageFileReader(fp)', 'metadata = reader._change_metadata_ownership()',
                                               'image = cls.from_dataset(metadata, copy=False)', 'image._file_reader = reader']:
        raise Unsupported('from_file: the lazy branch no longer builds the image around an ImageFileReader(fp)')
    if [ast.unparse(x) for x in lz.orelse] != ['image = cls.from_dataset(_wrapped_dcmread(fp), copy=False)']:
        raise Unsupported('from_file: the eager branch changed')
    a, b = type_names(disp.test), type_names(disp.orelse[0].test.operand)
    texts.append('/-- `Image.from_file(lazy_frame_retrieval=True)`: types wrapped in DicomBytesIO; types handed to the reader unchanged '
                 '(everything else is wrapped in DicomIO) -/\ndef fromFileBytesTypes : List String := [' + ', '.join(_q(x) for x in a)
                 + ']\ndef fromFilePassThroughTypes : List String := [' + ', '.join(_q(x) for x in b) + ']')
    shas.append(hashlib.sha256(repr((a, b)).encode()).hexdigest())
    # the conversion applied to the frame number before it is compared (accepts exactly the integer types)
    fn = find_func(tree, '_Image._standardize_frame_index')
    body = [s for s in fn.body if not (isinstance(s, ast.Expr) and isinstance(s.value, ast.Constant))]
    conv = 'none'
    if isinstance(body[0], ast.Assign) and ast.unparse(body[0].targets[0]) == 'frame_number' and isinstance(body[0].value, ast.Call) \
            and [ast.unparse(a) for a in body[0].value.args] == ['frame_number'] and not body[0].value.keywords:
        conv = ast.unparse(body[0].value.func)
    texts.append('/-- `_standardize_frame_index`: the function its first statement applies to `frame_number` ("none" if there is no such '
                 'statement) -/\ndef frameNumberConversion : String := ' + _q(conv))
    shas.append(hashlib.sha256(conv.encode()).hexdigest())
    return '\n\n'.join(texts), hashlib.sha256(''.join(shas).encode()).hexdigest()


TARGETS['T1c'] = {'file': 'image.py', 'build': build_T1c}


def build_T11g(tree):
    """io.ImageFileReader.__enter__ / __exit__: the open / close bookkeeping of the reader as functions on
    (enter depth, file open?) - `self.open()` opens a closed file, `self._fp.close(); self._fp = None` closes it."""
    import copy

    class R(ast.NodeTransformer):
        def visit_Attribute(self, node):
            u = ast.unparse(node)
            if u == 'self._enter_depth':
                return ast.copy_location(ast.Name(id='depth', ctx=node.ctx), node)
            if u == 'self._should_close':
                return ast.copy_location(ast.Name(id='should_close', ctx=node.ctx), node)
            return self.generic_visit(node)

        def visit_Expr(self, node):
            u = ast.unparse(node)
            if u == 'self.open()':
                return ast.parse('is_open = True').body[0]
            if u == 'self._fp.close()':
                return None
            return node

        def visit_Assign(self, node):
            if ast.unparse(node) == 'self._fp = None':
                return ast.parse('is_open = False').body[0]
            return self.generic_visit(node)

        def visit_Return(self, node):
            if ast.unparse(node) == 'return self':
                return ast.parse('return (depth, is_open)').body[0]
            return node
    texts, shas = [], []
    fn = find_func(tree, 'ImageFileReader.__enter__')
    src = [ast.unparse(x) for x in fn.body]
    if src != ['if self._enter_depth == 0:\n    self.open()', 'self._enter_depth += 1', 'return self']:
        raise Unsupported('ImageFileReader.__enter__ changed: ' + ' | '.join(src))
    stmts = [R().visit(copy.deepcopy(x)) for x in fn.body]
    for x in stmts:
        ast.fix_missing_locations(x)
    texts.append(translate_block(stmts, 'readerEnter', [('depth', 'int'), ('is_open', 'bool')], {},
                                 doc='`ImageFileReader.__enter__` on (enter depth, file open?)'))
    shas.append(span_sha(fn.body))
    fn = find_func(tree, 'ImageFileReader.__exit__')
    body = list(fn.body)
    if ast.unparse(body[0]) != 'self._enter_depth -= 1' or len(body) != 2 or not isinstance(body[1], ast.If) \
            or ast.unparse(body[1].test) != 'self._enter_depth < 1' or body[1].orelse:
        raise Unsupported('ImageFileReader.__exit__ changed shape')
    inner = body[1].body
    if len(inner) != 2 or ast.unparse(inner[0]) != 'if self._should_close:\n    self._fp.close()\n    self._fp = None' \
            or not (isinstance(inner[1], ast.If) and ast.unparse(inner[1].test) == 'except_value' and isinstance(inner[1].body[-1], ast.Raise)
                    and inner[1].body[-1].exc is None and not inner[1].orelse):
        raise Unsupported('ImageFileReader.__exit__: close / re-raise block changed')
    blk = [copy.deepcopy(body[0]), ast.If(test=copy.deepcopy(body[1].test), body=[copy.deepcopy(inner[0])], orelse=[])]
    stmts = [R().visit(x) for x in blk] + ast.parse('return (depth, is_open)').body
    for x in stmts:
        ast.fix_missing_locations(x)
    texts.append(translate_block(stmts, 'readerExit', [('depth', 'int'), ('is_open', 'bool'), ('should_close', 'bool')], {},
                                 doc='`ImageFileReader.__exit__` on (enter depth, file open?); an exception of the body is re-raised after '
                                     'the same bookkeeping (pinned textually)'))
    shas.append(span_sha(fn.body))
    # open(): opens only a closed file
    fn = find_func(tree, 'ImageFileReader.open')
    first = [x for x in fn.body if isinstance(x, ast.If) and ast.unparse(x.test) == 'self._fp is None']
    if len(first) != 1 or 'self._fp = DicomFile(str(self._filename), mode=\'rb\')' not in ast.unparse(first[0]):
        raise Unsupported('ImageFileReader.open no longer opens the path only when no file is open')
    shas.append(span_sha(first))
    return '\n\n'.join(texts), hashlib.sha256(''.join(shas).encode()).hexdigest()


TARGETS['T11g'] = {'file': 'io.py', 'build': build_T11g}


def build_T12b(tree):
    """frame.decode_frame, everything but the native 1-bit branch: the one-frame dataset handed to pydicom - which attribute
    is set from which parameter, under which condition; the pixel data element."""
    fn = find_func(tree, 'decode_frame')
    body = [x for x in fn.body if not (isinstance(x, ast.Expr) and isinstance(x.value, ast.Constant))]
    rows = []
    conv = {}

    def walk(stmts, cond):
        for st in stmts:
            if isinstance(st, ast.Assign) and len(st.targets) == 1:
                t = ast.unparse(st.targets[0])
                v = ast.unparse(st.value)
                if t.startswith('ds.') and t.count('.') == 1:
                    rows.append((t[3:], v, cond))
                elif isinstance(st.targets[0], ast.Name):
                    conv.setdefault(t, []).append(v)
            elif isinstance(st, ast.If):
                c = ast.unparse(st.test)
                if c.startswith('bits_allocated == 1 and'):
                    continue                                  # native 1-bit branch: target T12
                walk(st.body, (cond + ' and ' if cond else '') + c)
                walk(st.orelse, (cond + ' and ' if cond else '') + 'not (' + c + ')')
    walk(body, '')
    last = [ast.unparse(x) for x in body[-2:]]
    if last != ['array = ds.pixel_array', 'return array']:
        raise Unsupported('decode_frame no longer returns ds.pixel_array of the one-frame dataset')
    if not rows:
        raise Unsupported('decode_frame: no attribute of the one-frame dataset found')
    text = ('/-- `decode_frame` (not the native 1-bit branch): attribute of the one-frame dataset handed to pydicom, the expression it '
            'is set to, the condition under which -/\ndef decodeDatasetAttributes : List (String × String × String) :=\n  ['
            + ',\n   '.join(f'({_q(a)}, {_q(b)}, {_q(c)})' for a, b, c in rows) + ']\n\n'
            '/-- `decode_frame`: what its parameters are converted with before they are used (name -> expressions assigned to it) -/\n'
            'def decodeParameterConversions : List (String × List String) :=\n  ['
            + ',\n   '.join(f'({_q(k)}, [' + ', '.join(_q(x) for x in v) + '])' for k, v in sorted(conv.items())
                             if k in ('rows', 'columns', 'samples_per_pixel', 'bits_allocated', 'bits_stored', 'index',
                                      'pixel_representation', 'photometric_interpretation', 'planar_configuration')) + ']')
    return text, hashlib.sha256(repr((rows, sorted(conv.items()))).encode()).hexdigest()


TARGETS['T12b'] = {'file': 'frame.py', 'build': build_T12b}
