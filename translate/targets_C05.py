"""Translation targets of C05 added in round 2 (the earlier ones - T1, T1b, T4, T11*, T12 - live in targets.py).

T11f  io.py: which offset table the lazy reader uses for encapsulated data and where the first frame starts
      (`_read_metadata` encapsulated branch, `_get_bot`, `_read_eot`), the seek of `read_frame_raw`.
T1c   image.py: how the OTHER readers of stored frames fetch their raw frame / cached frame (`get_frames`,
      `_get_pixels_by_frame` behind get_volume / get_total_pixel_matrix, the lazy branch of `pixel_array`,
      `get_raw_frame`'s delegation to the file reader), the conversion of the frame number (`operator.index`) in the index
      guards, and which attribute the cached branches read.
"""
from __future__ import annotations

import ast
import hashlib

from py2lean import Unsupported, find_func, span_sha, translate_block


def _ret(src):
    return [ast.fix_missing_locations(ast.parse('return ' + src).body[0])]


def _one(nodes, what):
    nodes = list(nodes)
    if len(nodes) != 1:
        raise Unsupported(f'expected exactly one {what}, found {len(nodes)}')
    return nodes[0]


def _q(t):
    return '"' + t.replace('\\', '\\\\').replace('"', '\\"') + '"'


def build_T11f(tree):
    texts, shas = [], []
    # ---- _get_bot: the tag after the table must be an item; stored table kept iff one entry per frame
    fn = find_func(tree, '_get_bot')
    src = [ast.unparse(s) for s in fn.body]
    need = ['basic_offset_table = _read_bot(fp)', 'first_frame_offset = fp.tell()', 'tag = TupleTag(fp.read_tag())',
            'fp.seek(first_frame_offset, 0)', 'return basic_offset_table']
    pos = -1
    for n in need:
        hits = [i for i, s in enumerate(src) if s == n and i > pos]
        if not hits:
            raise Unsupported(f'_get_bot: statement `{n}` not found in order')
        pos = hits[0]
    tagchk = _one([s for s in fn.body if isinstance(s, ast.If) and 'tag' in ast.unparse(s.test)], '_get_bot tag test')
    if ast.unparse(tagchk.test) != 'int(tag) != ItemTag' or not isinstance(tagchk.body[-1], ast.Raise):
        raise Unsupported('_get_bot: the test of the tag that follows the Basic Offset Table changed')
    rebuild = _one([s for s in fn.body if isinstance(s, ast.If) and '_build_bot' in ast.unparse(s)], '_get_bot rebuild test')
    if [ast.unparse(s) for s in rebuild.body if not ast.unparse(s).startswith('logger.')] != \
            ['basic_offset_table = _build_bot(fp, number_of_frames)'] or rebuild.orelse:
        raise Unsupported('_get_bot: the rebuild branch changed shape')
    t = ast.unparse(rebuild.test)
    if 'len(basic_offset_table)' not in t:
        raise Unsupported('_get_bot: the rebuild test no longer looks at len(basic_offset_table)')
    blk = ast.parse(f"if {t.replace('len(basic_offset_table)', 'n_stored')}:\n    return 1\nelse:\n    return 0").body
    texts.append(translate_block(blk, 'getBotChoice', [('n_stored', 'int'), ('number_of_frames', 'int')], {},
                                 doc='`_get_bot`: 1 = rebuild the table from the fragments (`_build_bot`), 0 = use the stored Basic Offset Table'))
    shas.append(span_sha(fn.body))
    # ---- _read_eot
    fn = find_func(tree, '_read_eot')
    body = [s for s in fn.body if not (isinstance(s, ast.Expr) and isinstance(s.value, ast.Constant))]
    if len(body) != 3 or ast.unparse(body[0]) != 'result = np.frombuffer(extended_offset_table, dtype=np.uint64).tolist()' \
            or ast.unparse(body[2]) != 'return result' or not isinstance(body[1], ast.If):
        raise Unsupported('_read_eot changed shape: ' + ' | '.join(ast.unparse(s)[:60] for s in body))
    t = ast.unparse(body[1].test)
    if 'len(result)' not in t or not isinstance(body[1].body[-1], ast.Raise) or body[1].orelse:
        raise Unsupported('_read_eot: length test changed')
    blk = ast.parse(f"if {t.replace('len(result)', 'n_entries')}:\n    raise ValueError('x')\nreturn 0").body
    texts.append(translate_block(blk, 'eotLengthCheck', [('n_entries', 'int'), ('number_of_frames', 'int')], {},
                                 doc='`_read_eot`: refusal unless the table has one entry per frame'))
    texts.append('/-- `_read_eot`: bytes per entry (`np.frombuffer(..., dtype=np.uint64)`) -/\ndef eotWordBytes : Nat := 8')
    shas.append(span_sha(body))
    # ---- _read_metadata, encapsulated branch
    fn = find_func(tree, 'ImageFileReader._read_metadata')
    enc = _one([n for n in ast.walk(fn) if isinstance(n, ast.If) and ast.unparse(n.test) == 'self.transfer_syntax_uid.is_encapsulated'],
               '_read_metadata encapsulated test')
    inner = _one([s for s in enc.body if isinstance(s, ast.If)], 'table choice in the encapsulated branch')
    if ast.unparse(inner.test) != "'ExtendedOffsetTable' in metadata" or enc.body[-1] is not inner:
        raise Unsupported('_read_metadata: the Extended Offset Table is no longer tried first')
    eot_src = [ast.unparse(s) for s in inner.body]
    if 'self._offset_table = _read_eot(metadata.ExtendedOffsetTable, number_of_frames)' not in eot_src:
        raise Unsupported('_read_metadata: _read_eot call changed')
    ffo = _one([s for s in inner.body if isinstance(s, ast.Assign) and ast.unparse(s.targets[0]) == 'self._first_frame_offset'],
               'first frame offset of the EOT branch')
    texts.append(translate_block([ast.fix_missing_locations(ast.Return(value=ffo.value))], 'eotFirstFrameOffset', [],
                                 {'self._pixel_data_offset': ('int', 'pixelDataOffset')},
                                 doc='`_read_metadata`, Extended Offset Table branch: offset of the first frame item from the first byte '
                                     'of the Pixel Data ELEMENT (12 header bytes + the 8 bytes of an empty Basic Offset Table item)'))
    bot_src = [ast.unparse(s) for s in inner.orelse]
    if len(inner.orelse) != 2 or not isinstance(inner.orelse[0], ast.Try) or \
            [ast.unparse(s) for s in inner.orelse[0].body] != ['self._offset_table = _get_bot(self._fp, number_of_frames)'] or \
            bot_src[1] != 'self._first_frame_offset = self._fp.tell()':
        raise Unsupported('_read_metadata: the Basic Offset Table branch changed: ' + ' | '.join(s[:70] for s in bot_src))
    nof = _one([n for n in ast.walk(fn) if isinstance(n, ast.Assign) and ast.unparse(n.targets[0]) == 'number_of_frames'],
               'assignment of number_of_frames')
    if ast.unparse(nof.value) != "int(getattr(metadata, 'NumberOfFrames', 1))":
        raise Unsupported('_read_metadata: number_of_frames is no longer int(getattr(metadata, "NumberOfFrames", 1))')
    chk = _one([s for s in fn.body if isinstance(s, ast.If) and 'len(self._offset_table)' in ast.unparse(s.test)], 'table length test')
    if not isinstance(chk.body[-1], ast.Raise) or chk.orelse or fn.body.index(chk) < fn.body.index(enc):
        raise Unsupported('_read_metadata: table length test changed')
    t = ast.unparse(chk.test)
    blk = ast.parse(f"if {t.replace('len(self._offset_table)', 'n_table')}:\n    raise ValueError('x')\nreturn 0").body
    texts.append(translate_block(blk, 'tableLengthCheck', [('n_table', 'int'), ('number_of_frames', 'int')], {},
                                 doc='`_read_metadata`: refusal unless the offset table has one entry per frame'))
    shas.append(span_sha([enc, chk, nof]))
    # ---- read_frame_raw: table entry and seek
    fn = find_func(tree, 'ImageFileReader.read_frame_raw')
    fo = _one([s for s in fn.body if isinstance(s, ast.Assign) and ast.unparse(s.targets[0]) == 'frame_offset'], 'frame_offset')
    if ast.unparse(fo.value) != 'self._offset_table[index]':
        raise Unsupported('read_frame_raw: frame_offset is no longer self._offset_table[index]')
    sk = _one([s for s in fn.body if isinstance(s, ast.Expr) and isinstance(s.value, ast.Call)
               and ast.unparse(s.value.func) == 'self._fp.seek'], 'seek of read_frame_raw')
    if len(sk.value.args) != 2 or ast.unparse(sk.value.args[1]) != '0' or fn.body.index(sk) != fn.body.index(fo) + 1:
        raise Unsupported('read_frame_raw: the absolute seek to the frame changed')
    texts.append(translate_block([ast.fix_missing_locations(ast.Return(value=sk.value.args[0]))], 'readSeekPosition',
                                 [('frame_offset', 'int')], {'self._first_frame_offset': ('int', 'firstFrameOffset')},
                                 doc='`read_frame_raw`: absolute position the reader seeks to for a frame'))
    shas.append(span_sha([fo, sk]))
    return '\n\n'.join(texts), hashlib.sha256(''.join(shas).encode()).hexdigest()


TARGETS = {
    'T11f': {'file': 'io.py', 'build': build_T11f},
}
