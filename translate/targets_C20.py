"""Translation targets of C20 (tie T).

T20vr     valuerep.py string guards: the `if <test>: raise` chains, with the regular-expression literals parsed
          into the `HdVerif.VR.Re` fragment (anything outside the fragment => Unsupported => TRANSLATION-BROKEN)
T20uid    uid.py: the root literal of `UID.from_uuid`'s f-string and the prefix literal of `UID.__new__`
T20alias  the copy-or-alias data flow of every `from_dataset` / `from_sequence` converter and of
          `Segmentation._get_segment_pixel_array` as programs of `HdVerif.Aliasing` (see build_alias)
"""
from __future__ import annotations

import ast
import hashlib
import os

from py2lean import Unsupported, find_func, span_sha, strip_doc

ERR = {'ValueError': 'value', 'TypeError': 'type', 'IndexError': 'index', 'KeyError': 'key', 'RuntimeError': 'runtime',
       'AttributeError': 'attribute'}


# ----------------------------------------------------------------------------------------------- regex fragment
class _ReParser:
    """pattern string -> list of atoms ('rep', neg, ranges, lo, hi|None) | ('eol',) | ('eos',)"""

    def __init__(self, pat):
        self.p = pat
        self.i = 0

    def peek(self):
        return self.p[self.i] if self.i < len(self.p) else None

    def take(self):
        c = self.peek()
        if c is None:
            raise Unsupported(f'regex {self.p!r}: unexpected end')
        self.i += 1
        return c

    def escape(self, in_class):
        c = self.take()
        if c == 'x':
            h = self.take() + self.take()
            return ('chr', int(h, 16))
        if c in 'nrtfv':
            return ('chr', {'n': 10, 'r': 13, 't': 9, 'f': 12, 'v': 11}[c])
        if c == 'd':
            return ('set', [(48, 57)])
        if c == 'Z' and not in_class:
            return ('eos',)
        if c in '\\.^$*+?{}[]()|-/ _"\'':
            return ('chr', ord(c))
        raise Unsupported(f'regex {self.p!r}: escape \\{c} outside the fragment')

    def klass(self):
        neg = False
        if self.peek() == '^':
            self.take()
            neg = True
        ranges = []
        first = True
        while True:
            c = self.take()
            if c == ']' and not first:
                break
            first = False
            if c == '\\':
                e = self.escape(True)
                if e[0] == 'set':
                    ranges += e[1]
                    continue
                lo = e[1]
            else:
                lo = ord(c)
            if self.peek() == '-' and self.i + 1 < len(self.p) and self.p[self.i + 1] != ']':
                self.take()
                c2 = self.take()
                if c2 == '\\':
                    e = self.escape(True)
                    if e[0] != 'chr':
                        raise Unsupported(f'regex {self.p!r}: bad range')
                    hi = e[1]
                else:
                    hi = ord(c2)
                if hi < lo:
                    raise Unsupported(f'regex {self.p!r}: bad range')
                ranges.append((lo, hi))
            else:
                ranges.append((lo, lo))
        return neg, ranges

    def quant(self):
        c = self.peek()
        if c == '*':
            self.take()
            q = (0, None)
        elif c == '+':
            self.take()
            q = (1, None)
        elif c == '?':
            self.take()
            q = (0, 1)
        elif c == '{':
            j = self.p.index('}', self.i)
            body = self.p[self.i + 1:j]
            self.i = j + 1
            if ',' in body:
                a, b = body.split(',')
                q = (int(a or 0), int(b) if b.strip() else None)
            else:
                q = (int(body), int(body))
        else:
            return (1, 1)
        if self.peek() in ('?', '+'):
            raise Unsupported(f'regex {self.p!r}: lazy/possessive quantifier')
        return q

    def parse(self):
        atoms = []
        if self.peek() == '^':       # re.match / fullmatch are anchored anyway; for search it is not in the fragment
            self.take()
            atoms.append(('bol',))
        while self.peek() is not None:
            c = self.take()
            if c == '[':
                neg, ranges = self.klass()
                lo, hi = self.quant()
                atoms.append(('rep', neg, ranges, lo, hi))
            elif c == '.':
                lo, hi = self.quant()
                atoms.append(('rep', True, [(10, 10)], lo, hi))
            elif c == '$':
                atoms.append(('eol',))
            elif c == '\\':
                e = self.escape(False)
                if e[0] == 'eos':
                    atoms.append(('eos',))
                else:
                    ranges = e[1] if e[0] == 'set' else [(e[1], e[1])]
                    lo, hi = self.quant()
                    atoms.append(('rep', False, ranges, lo, hi))
            elif c in '()|*+?{}^':
                raise Unsupported(f'regex {self.p!r}: construct {c!r} outside the fragment')
            else:
                lo, hi = self.quant()
                atoms.append(('rep', False, [(ord(c), ord(c))], lo, hi))
        return atoms


def _canon_ranges(ranges):
    """sorted, overlapping / adjacent ranges merged: the class as a set, independent of how it is spelt"""
    out = []
    for lo, hi in sorted(ranges):
        if out and lo <= out[-1][1] + 1:
            out[-1] = (out[-1][0], max(out[-1][1], hi))
        else:
            out.append((lo, hi))
    return out


def re_to_lean(pat, allow_bol):
    atoms = _ReParser(pat).parse()
    out = []
    for k, a in enumerate(atoms):
        if a[0] == 'bol':
            if not allow_bol or k != 0:
                raise Unsupported(f'regex {pat!r}: ^ not supported here')
            continue
        if a[0] == 'eol':
            out.append('.eol')
        elif a[0] == 'eos':
            out.append('.eos')
        else:
            _, neg, ranges, lo, hi = a
            ranges = _canon_ranges(ranges)
            rs = ', '.join(f'({x}, {y})' for x, y in ranges)
            out.append(f".rep ⟨{'true' if neg else 'false'}, [{rs}]⟩ {lo} {'none' if hi is None else f'(some {hi})'}")
    return '[' + ', '.join(out) + ']'


# ----------------------------------------------------------------------------------------------- guard conditions
def _str_const(node):
    return isinstance(node, ast.Constant) and isinstance(node.value, str)


def cond_to_lean(test, var):
    """Python test over the single string parameter `var` -> Lean Bool term over `(s : List Char)`."""
    if isinstance(test, ast.BoolOp):
        op = ' && ' if isinstance(test.op, ast.And) else ' || '
        return '(' + op.join(cond_to_lean(v, var) for v in test.values) + ')'
    if isinstance(test, ast.UnaryOp) and isinstance(test.op, ast.Not):
        return f'(!{cond_to_lean(test.operand, var)})'
    if isinstance(test, ast.Compare) and len(test.ops) == 1:
        left, op, right = test.left, test.ops[0], test.comparators[0]
        # re.match(...) is None / is not None
        if isinstance(op, (ast.Is, ast.IsNot)) and isinstance(right, ast.Constant) and right.value is None \
                and isinstance(left, ast.Call) and ast.unparse(left.func) in ('re.match', 're.fullmatch', 're.search'):
            if len(left.args) != 2 or left.keywords or not _str_const(left.args[0]) \
                    or not (isinstance(left.args[1], ast.Name) and left.args[1].id == var):
                raise Unsupported(f'regex call outside the fragment: {ast.unparse(left)}')
            fn = {'re.match': 'reMatch', 're.fullmatch': 'reFullmatch', 're.search': 'reSearch'}[ast.unparse(left.func)]
            pat = re_to_lean(left.args[0].value, allow_bol=fn != 'reSearch')
            t = f'(VR.{fn} {pat} s)'
            return f'(!{t})' if isinstance(op, ast.Is) else t
        # len(s) <op> N
        if isinstance(left, ast.Call) and ast.unparse(left.func) == 'len' and len(left.args) == 1 \
                and isinstance(left.args[0], ast.Name) and left.args[0].id == var \
                and isinstance(right, ast.Constant) and isinstance(right.value, int):
            sym = {ast.Gt: '>', ast.GtE: '≥', ast.Lt: '<', ast.LtE: '≤', ast.Eq: '=', ast.NotEq: '≠'}.get(type(op))
            if sym is None:
                raise Unsupported(f'comparison outside the fragment: {ast.unparse(test)}')
            return f'(decide (s.length {sym} {right.value}))'
        # 'c' in s / 'c' not in s
        if isinstance(op, (ast.In, ast.NotIn)) and _str_const(left) and len(left.value) == 1 \
                and isinstance(right, ast.Name) and right.id == var:
            t = f'(s.contains (Char.ofNat {ord(left.value)}))'
            return t if isinstance(op, ast.In) else f'(!{t})'
        # s == '' / s != ''
        if isinstance(op, (ast.Eq, ast.NotEq)) and isinstance(left, ast.Name) and left.id == var and _str_const(right) \
                and right.value == '':
            return '(s.isEmpty)' if isinstance(op, ast.Eq) else '(!s.isEmpty)'
    raise Unsupported(f'guard condition outside the fragment: {ast.unparse(test)}')


def guard_to_lean(fn, lean_name, var, doc):
    """A guard is a chain of `if <test>: raise E(...)`; an `isinstance(var, str)` test is dropped (the model is typed)."""
    body = strip_doc(fn.body)
    lines = []
    kept = []
    for st in body:
        if not isinstance(st, ast.If) or st.orelse or len(st.body) != 1 or not isinstance(st.body[0], ast.Raise):
            raise Unsupported(f'{fn.name}: statement outside the guard fragment: {ast.unparse(st)[:80]}')
        exc = st.body[0].exc
        ename = exc.func.id if isinstance(exc, ast.Call) and isinstance(exc.func, ast.Name) else None
        if ename not in ERR:
            raise Unsupported(f'{fn.name}: raise of {ast.unparse(exc)[:40]}')
        if ast.unparse(st.test) in (f'not isinstance({var}, str)',):
            kept.append(st)
            continue
        lines.append(f'  if {cond_to_lean(st.test, var)} then .error .{ERR[ename]} else')
        kept.append(st)
    if not lines:
        raise Unsupported(f'{fn.name}: no guard left')
    text = f'/-- {doc} -/\ndef {lean_name} (s : List Char) : Except ErrKind Unit :=\n' + '\n'.join(lines) + '\n  .ok ()'
    return text, kept


GUARDS = [('_check_code_string', 'checkCodeString', 'value'), ('_check_short_string', 'checkShortString', 's'),
          ('_check_long_string', 'checkLongString', 's'), ('_check_short_text', 'checkShortText', 's'),
          ('_check_long_text', 'checkLongText', 's')]


def build_vr(tree):
    texts, spans = [], []
    for py, lean, var in GUARDS:
        fn = find_func(tree, py)
        args = [a.arg for a in fn.args.args]
        if args != [var]:
            raise Unsupported(f'{py}: signature changed to {args}')
        t, kept = guard_to_lean(fn, lean, var, f'`valuerep.{py}` (whole body; `isinstance` test dropped, the model is typed)')
        texts.append(t)
        spans += kept
    # check_person_name: the condition under which the warning is issued (it never refuses a str)
    fn = find_func(tree, 'check_person_name')
    warn_if = None
    for st in strip_doc(fn.body):
        if isinstance(st, ast.If) and any(isinstance(n, ast.Call) and ast.unparse(n.func) == 'warnings.warn' for n in ast.walk(st)):
            warn_if = st
        elif isinstance(st, ast.If):
            for n in ast.walk(st):
                if isinstance(n, ast.Raise) and 'isinstance' not in ast.unparse(st.test):
                    raise Unsupported('check_person_name: a refusal that is not the type test appeared')
    if warn_if is None:
        raise Unsupported('check_person_name: warning branch not found')
    texts.append('/-- `valuerep.check_person_name`: the condition under which it warns (it refuses no `str`) -/\n'
                 f'def personNameWarns (s : List Char) : Bool :=\n  {cond_to_lean(warn_if.test, "person_name")}')
    spans.append(warn_if.test)
    return '\n\n'.join(texts), span_sha(spans)


# ----------------------------------------------------------------------------------------------- uid.py
def build_uid(tree):
    fn = find_func(tree, 'UID.from_uuid')
    root = None
    render_text = ''
    for n in ast.walk(fn):
        if isinstance(n, ast.JoinedStr):
            vals = n.values
            # the expression as it stands: constant parts and the UUID's integer in plain decimal, in source order
            parts, ints = [], 0
            for v in vals:
                if _str_const(v):
                    parts.append('"' + v.value.replace('\\', '\\\\').replace('"', '\\"') + '".toList')
                elif isinstance(v, ast.FormattedValue) and ast.unparse(v.value) == 'UUID(uuid).int' and v.conversion == -1 \
                        and v.format_spec is None:
                    parts.append('Nat.toDigits 10 n')
                    ints += 1
                else:
                    raise Unsupported(f'UID.from_uuid: f-string part outside the fragment: {ast.unparse(n)}')
            if ints != 1 or not vals or not _str_const(vals[0]):
                raise Unsupported(f'UID.from_uuid: f-string shape changed: {ast.unparse(n)}')
            root = vals[0].value
            render_text = ('/-- the f-string of `UID.from_uuid` as it stands in the source, part by part (`n` = `UUID(uuid).int`) -/\n'
                           'def uuidRender (n : Nat) : List Char := ' + ' ++ '.join(parts) + '\n\n')
    if root is None:
        raise Unsupported('UID.from_uuid: f-string not found')
    new = find_func(tree, 'UID.__new__')
    prefix = None
    gen_ok = False
    for n in ast.walk(new):
        if isinstance(n, ast.Assign) and ast.unparse(n.targets[0]) == 'prefix' and _str_const(n.value):
            prefix = n.value.value
        if isinstance(n, ast.Call) and ast.unparse(n.func) == 'pydicom.uid.generate_uid':
            if len(n.args) == 0 and len(n.keywords) == 1 and n.keywords[0].arg == 'prefix' \
                    and ast.unparse(n.keywords[0].value) == 'prefix':
                gen_ok = True
            else:
                raise Unsupported(f'UID.__new__: generate_uid call changed: {ast.unparse(n)}')
    if prefix is None or not gen_ok:
        raise Unsupported('UID.__new__: prefix literal / generate_uid(prefix=prefix) not found')
    q = lambda s: '"' + s.replace('\\', '\\\\').replace('"', '\\"') + '"'  # noqa: E731
    text = (render_text + '/-- root of `UID.from_uuid`: the literal part of its f-string `f\'<root>{UUID(uuid).int}\'` -/\n'
            f'def uuidRoot : String := {q(root)}\n\n'
            '/-- prefix literal handed to `pydicom.uid.generate_uid(prefix=prefix)` by `UID.__new__` -/\n'
            f'def defaultPrefix : String := {q(prefix)}')
    return text, span_sha(strip_doc(fn.body) + strip_doc(new.body))


TARGETS = {
    'T20vr': {'file': 'valuerep.py', 'build': build_vr, 'imports': ['HdVerif.Model.VR']},
    'T20uid': {'file': 'uid.py', 'build': build_uid},
}


# ----------------------------------------------------------------------------------------------- alias flow (T20alias_*)
VIEW_METHODS = {'reshape', 'view', 'squeeze', 'transpose', 'swapaxes', 'ravel', 'byteswap', 'newbyteorder', 'get', 'setdefault',
                '__getitem__', 'values', 'items', 'keys', 'iterall', 'elements', 'data_element', 'group_dataset', 'getfield',
                'get_item', 'private_block', 'get_private_item', 'diagonal', 'pop', 'popitem', 'popleft', '__iter__', '__next__'}
VIEW_FUNCS = {'np.asarray', 'np.asanyarray', 'np.ascontiguousarray', 'np.asfortranarray', 'np.squeeze', 'np.moveaxis',
              'np.transpose', 'np.reshape', 'np.atleast_1d', 'np.atleast_2d', 'np.atleast_3d', 'np.broadcast_to',
              'np.expand_dims', 'np.swapaxes', 'np.ravel', 'getattr', 'iter', 'next', 'enumerate', 'zip', 'reversed',
              'np.frombuffer', 'memoryview', 'np.lib.stride_tricks.as_strided', 'np.lib.stride_tricks.sliding_window_view',
              'np.flip', 'np.flipud', 'np.fliplr', 'np.rot90', 'np.diagonal', 'np.split', 'np.array_split', 'np.nditer',
              'np.ndindex', 'np.real', 'np.imag', 'np.rollaxis', 'np.atleast_1d', 'np.require', 'np.asmatrix', 'np.asarray_chkfinite',
              'np.broadcast_arrays', 'np.hsplit', 'np.vsplit', 'np.dsplit', 'np.ndarray.view', 'vars', 
              'np.matrix_transpose', 'np.permute_dims', 'np.unstack', 'np.trim_zeros', 'np.fliplr'}
MUTATORS = {'append', 'extend', 'insert', 'add', 'add_new', 'pop', 'remove', 'clear', 'sort', 'reverse', 'update', 'fill',
            'partition', 'setdefault', 'appendleft', 'extendleft', 'popleft', 'rotate', 'discard', 'difference_update',
            'intersection_update', 'symmetric_difference_update', '__iadd__', '__isub__', '__imul__', '__itruediv__',
            '__ifloordiv__', '__imod__', '__ipow__', '__iand__', '__ior__', '__ixor__', '__ilshift__', '__irshift__', '__imatmul__',
            'set_original_encoding', 'setfield', 'move_to_end', 
            'itemset', 'put', 'resize', 'setflags', '__setitem__', '__delitem__', '__setattr__', '__delattr__', 'popitem',
            'decompress', 'compress', 'convert_pixel_data', 'walk', 'remove_private_tags', 'ensure_file_meta',
            'fix_meta_info', 'update_raw_element', 'set_pixel_data'}
MUTATOR_FUNCS = {'setattr', 'delattr', 'np.copyto', 'np.put', 'np.place', 'np.putmask', 'np.put_along_axis', 'np.fill_diagonal',
                 'random.shuffle', 'np.random.shuffle', 'heapq.heappush', 'heapq.heapify', 'bisect.insort'}
COPY_FLAG_FUNCS = {'np.array', 'np.asarray', 'np.asanyarray', 'np.astype', 'np.reshape', 'np.nan_to_num'}
ITER_FUNCS = {'iter', 'next', 'enumerate', 'zip', 'reversed'}
ITEM_METHODS = {'get', 'setdefault', '__getitem__', 'values', 'items', 'keys', 'iterall', 'elements', 'data_element', 'group_dataset',
                'pop', 'popitem', 'popleft', 'get_item', 'get_private_item', '__iter__', '__next__'}
# external callees whose result is NEW whatever they are given (everything else that is handed a tracked reference MAY return it,
# or a part of it): builtins / numpy / pydicom functions that compute a value, and methods that do
FRESH_FUNCS = {'isinstance', 'issubclass', 'len', 'hasattr', 'any', 'all', 'str', 'int', 'float', 'bool', 'bytes', 'bytearray', 'repr',
               'sum', 'range', 'abs', 'round', 'hash', 'id', 'type', 'callable', 'ord', 'chr', 'format', 'divmod', 'pow', 'print',
               'open', 'complex', 'operator.index', 'tag_for_keyword', 'keyword_for_tag', 'dictionary_VR', 'dictionary_VM',
               'format_number_as_ds', 'write_file_meta_info', 'encapsulate', 'encode_array', 'get_encoder', 'get_entry',
               'warnings.warn', 'logger.debug', 'logger.info', 'logger.warning', 'logger.error', 'dict.fromkeys', 'b\'\'.join',
               'Image.fromarray', 'ImageColor.getrgb', 'ImageCms.buildTransform', 'getProfileName', 'getProfileDescription',
               'isIntentSupported', 'Counter', 'BytesIO', 'Path', 'UUID', 'ProcessPoolExecutor', 'struct.pack', 'struct.unpack',
               'math.floor', 'math.ceil', 'math.sqrt', 'math.isclose', 'datetime.datetime.now', 'itertools.product'}
FRESH_PREFIXES = ('np.', 're.', 'math.', 'struct.', 'datetime.', 'logging.', 'logger.', 'warnings.', 'itertools.', 'os.', 'json.')
FRESH_METHODS = {'astype', 'flatten', 'tobytes', 'tolist', 'tostring', 'issubset', 'issuperset', 'difference', 'union',
                 'intersection', 'symmetric_difference', 'isdisjoint', 'join', 'encode', 'decode', 'save', 'strip', 'lstrip', 'rstrip',
                 'split', 'rsplit', 'splitlines', 'lower', 'upper', 'title', 'startswith', 'endswith', 'replace', 'format', 'find',
                 'index', 'count', 'any', 'all', 'sum', 'max', 'min', 'mean', 'std', 'var', 'prod', 'argmax', 'argmin', 'nonzero',
                 'cumsum', 'cumprod', 'dot', 'item', 'round', 'clip', 'conj', 'isoformat', 'strftime', 'date', 'time', 'total_seconds',
                 'to_json', 'to_json_dict', 'read', 'write', 'close', 'seek', 'tell', 'getvalue', 'execute', 'executemany', 'fetchall',
                 'fetchone', 'commit', 'is_integer', 'bit_length', 'hex', 'zfill', 'ljust', 'rjust', 'isdigit', 'isupper', 'islower',
                 'capitalize', 'most_common', 'total', 'submit', 'result', 'match', 'search', 'fullmatch', 'group',
                 'groups', 'dir', 'has_value_type', 'has_relationship_type', 'has_name', 'check', 'search_tree',
                 'isnumeric', 'tobitmap', 'getdata', 'getrgb', 'fromarray'}
# external callees that return AN ITEM of their (first) argument
ITEM_PICK_FUNCS = {'min', 'max', 'next', 'random.choice', 'random.sample', 'heapq.heappop', 'heapq.nsmallest', 'heapq.nlargest',
                   'statistics.median', 'reduce', 'functools.reduce'}
# external callees that return a NEW container holding the same parts (a shallow copy): its items / attributes are the original's
SHALLOW_FUNCS = {'copy.copy', 'copy', 'filter', 'map', 'pydicom.Sequence', 'Sequence', 'pydicom.sequence.Sequence', 'DataElementSequence',
                 'MultiValue', 'collections.deque', 'deque', 'itertools.chain', 'chain', 'itertools.islice', 'islice', 'OrderedDict',
                 'collections.OrderedDict', 'defaultdict'}
SHALLOW_METHODS = {'copy', '__copy__'}
# positional `out` of numpy functions / methods: index of the argument that is written and returned
_BIN_UFUNCS = ['add', 'subtract', 'multiply', 'divide', 'true_divide', 'floor_divide', 'power', 'mod', 'remainder', 'fmod', 'maximum',
               'minimum', 'fmax', 'fmin', 'logical_and', 'logical_or', 'logical_xor', 'bitwise_and', 'bitwise_or', 'bitwise_xor',
               'left_shift', 'right_shift', 'greater', 'greater_equal', 'less', 'less_equal', 'equal', 'not_equal', 'arctan2',
               'hypot', 'copysign', 'matmul', 'dot', 'take', 'compress']
_UN_UFUNCS = ['negative', 'positive', 'abs', 'absolute', 'fabs', 'sqrt', 'square', 'exp', 'exp2', 'log', 'log2', 'log10', 'floor', 'ceil',
              'rint', 'trunc', 'sign', 'logical_not', 'invert', 'bitwise_not', 'isnan', 'isfinite', 'isinf', 'sin', 'cos', 'tan',
              'reciprocal', 'conjugate', 'conj', 'fix']
OUT_POS_FUNCS = {**{'np.' + f: 2 for f in _BIN_UFUNCS}, **{'np.' + f: 1 for f in _UN_UFUNCS}, 'np.clip': 3, 'np.round': 2,
                 'np.around': 2, 'np.round_': 2, 'np.cumsum': 3, 'np.cumprod': 3, 'np.sum': 3, 'np.prod': 3, 'np.mean': 3, 'np.max': 2,
                 'np.min': 2, 'np.amax': 2, 'np.amin': 2, 'np.argmax': 2, 'np.argmin': 2, 'np.any': 2, 'np.all': 2, 'np.choose': 2,
                 'np.nan_to_num': 99}
OUT_POS_METHODS = {'clip': 2, 'round': 1, 'cumsum': 2, 'cumprod': 2, 'sum': 2, 'prod': 2, 'mean': 2, 'max': 1, 'min': 1, 'argmax': 1,
                   'argmin': 1, 'any': 1, 'all': 1, 'dot': 1, 'take': 2, 'compress': 2, 'choose': 1, 'std': 2, 'var': 2}
KEEPING_FUNCS = {'list', 'tuple', 'set', 'dict', 'frozenset', 'sorted'}     # results hold references to their arguments
MAX_CONDS = 11
INLINE_DEPTH = 6          # calls of own methods / private helpers are inlined up to this depth
CTOR_MAX_CONDS = 6        # constructors: beyond 2^5 paths the arms of branches are merged instead of enumerated
# converters that cannot re-class their argument and return a new container holding its items (validated by tie C:
# the correspondence compares 'same object / new object' of every converter with what its program predicts)
REBUILDERS = {'ContentSequence.from_sequence', 'MeasurementReport.from_sequence'}

FRESH = ('fresh',)


def _lean_e(e):
    if e[0] == 'var':
        return f'(.var {e[1]})'
    if e[0] == 'view':
        return f'(.view {e[1]} {_lean_e(e[2])})'
    if e[0] == 'join':
        return f'(.join {_lean_e(e[1])} {_lean_e(e[2])})'
    return '.fresh'


def _lean_s(st):
    k = st[0]
    if k == 'assign':
        return f'.assign {st[1]} {_lean_e(st[2])}'
    if k == 'write':
        return f'.write {_lean_e(st[1])}'
    if k == 'deep':
        return f'.writeDeep {_lean_e(st[1])}'
    if k == 'link':
        return f'.link {_lean_e(st[1])} {st[2]} {_lean_e(st[3])}'
    if k == 'ite':
        return f'.ite {st[1]} [{", ".join(_lean_s(x) for x in st[2])}] [{", ".join(_lean_s(x) for x in st[3])}]'
    if k == 'ret':
        return f'.ret {_lean_e(st[1])}'
    if k == 'widen':
        return '.widen [' + ', '.join(f'({x}, {_lean_e(e)})' for x, e in st[1]) + ']'
    return '.raise'


def _root_vars(e):
    if e[0] == 'view':
        return _root_vars(e[2])
    if e[0] == 'join':
        return _root_vars(e[1]) | _root_vars(e[2])
    return {e[1]} if e[0] == 'var' else set()


_SCALAR = {}


def _scalar_keyword(name):
    """DICOM keyword whose value is one immutable str / int / float / UID (VM 1, not a sequence, not bulk data)"""
    if name not in _SCALAR:
        ok = False
        if name[:1].isupper():
            try:
                from pydicom.datadict import dictionary_VM, dictionary_VR, tag_for_keyword
                tag = tag_for_keyword(name)
                if tag is not None:
                    ok = dictionary_VM(tag) == '1' and dictionary_VR(tag) in (
                        'AE', 'AS', 'CS', 'DA', 'DS', 'DT', 'FL', 'FD', 'IS', 'LO', 'LT', 'PN', 'SH', 'SL', 'SS', 'ST', 'TM', 'UC',
                        'UI', 'UL', 'UR', 'US', 'UT', 'SV', 'UV')
            except Exception:  # noqa: BLE001
                ok = False
        _SCALAR[name] = ok
    return _SCALAR[name]


_MULTI = {}


def _multi_scalar_keyword(name):
    """DICOM keyword whose value is a MultiValue of immutable str / numbers (not a sequence, not bulk data, VM > 1)"""
    if name not in _MULTI:
        ok = False
        if name[:1].isupper():
            try:
                from pydicom.datadict import dictionary_VM, dictionary_VR, tag_for_keyword
                tag = tag_for_keyword(name)
                if tag is not None:
                    ok = dictionary_VM(tag) != '1' and dictionary_VR(tag) in (
                        'AE', 'AS', 'CS', 'DA', 'DS', 'DT', 'FL', 'FD', 'IS', 'LO', 'PN', 'SH', 'SL', 'SS', 'TM', 'UC',
                        'UI', 'UL', 'US', 'SV', 'UV', 'US or SS')
            except Exception:  # noqa: BLE001
                ok = False
        _MULTI[name] = ok
    return _MULTI[name]


_DICOM_KW = {}


def _dicom_keyword(name):
    if name not in _DICOM_KW:
        try:
            from pydicom.datadict import tag_for_keyword
            _DICOM_KW[name] = name[:1].isupper() and tag_for_keyword(name) is not None
        except Exception:  # noqa: BLE001
            _DICOM_KW[name] = False
    return _DICOM_KW[name]


def _item_of(e):
    """an item of what `e` denotes; an item of an item is looked up under its own label"""
    if e[0] == 'view' and e[1] in (ITEM, NESTED):
        return ('view', NESTED, e[2])
    return ('view', ITEM, e)


def _is_fresh(e):
    if e[0] == 'view':
        return _is_fresh(e[2])
    if e[0] == 'join':
        return _is_fresh(e[1]) and _is_fresh(e[2])
    return e[0] == 'fresh'


SAME, ITEM, KEPT, ELEM, NESTED = 0, 1, 2, 3, 4    # NESTED: an item of an item (a dict of lists, a list of lists): kept apart
# from the items of the outer container, which lives in the same region.  ELEM: a DataElement object put into a data set with `add` (shared, not copied);
# labels: the same object seen differently / an item of a container / an argument a
#                               constructor call keeps somewhere inside its result (reached by deep writes only)


class _Alias:
    """Abstracts one function body into a program of HdVerif.Aliasing (see Model/Aliasing.lean)."""

    def __init__(self, fn):
        self.fn = fn
        params = [a.arg for a in fn.args.posonlyargs + fn.args.args + fn.args.kwonlyargs if a.arg not in ('self', 'cls')]
        params += [a.arg for a in (fn.args.vararg, fn.args.kwarg) if a is not None]      # *args / **kwargs hold caller objects too
        self.params = params
        self.vars = {p: i for i, p in enumerate(params)}
        self.has_copy = 'copy' in params
        self.conds = ['copy']            # condition 0 is reserved for the copy flag
        self.compenv = {}
        self.labels = {}                 # attribute name -> view / link label (>= 4)
        self.is_method = bool(fn.args.args) and fn.args.args[0].arg == 'self'
        self.scope = ''                  # prefix of the variables of the function being inlined
        self.stack = [id(fn)]            # functions being inlined (no recursion)
        self.ret_var = None              # inside an inlined body: the variable that collects returned values
        self.methods = {}                # name -> FunctionDef: methods reachable through self / cls / super()
        self.functions = {}              # name -> FunctionDef: private module-level helpers
        self.inlined = []
        self.external = set()            # external (pydicom / numpy / builtin) callees that receive a tracked reference
        self.unmodelled = set()          # internal callees that receive a tracked reference and are not inlined
        self.scope_cls = None            # class whose method body is being inlined (for self / super() inside it)
        self._next_cls = None
        self.local_funcs = {}            # nested function definitions (closures), by scoped name
        self.cls_name = None
        self.mvvars = set()              # variables bound to the value of a multi-valued non-sequence DICOM attribute
        self.itemvars = set()            # variables bound to an item of a container (an inner container of the same region)
        self.local_classes = {}
        self._lambdas = {}
        self.recursion_cut = set()       # recursive functions whose third level was not entered
        self.cut_actuals = {}            # id(function) -> [parameter -> expression handed to the level that was not entered]
        self.closure_parent = {}         # scope of a closure / lambda -> scope it was defined in (captured variables)
        self.shallow_of = {}             # variable bound to a shallow copy -> expression of the original (same parts)
        self.kept_vars = set()           # variables bound to an object an external constructor built from tracked references
        self.module_classes = {}         # classes of the module the function lives in (beside the package's)
        self.shared_vars = []            # objects that exist before the call and outlive it (module globals, class attributes,
        self.shared_names = []           # results of lru_cache'd helpers): extra parameters of the program

    def shared(self, name):
        """the variable standing for an object that outlives the call: a pseudo-parameter (must not be written either)"""
        key = '%shared:' + name
        if key not in self.vars:
            self.vars[key] = len(self.vars)
            self.shared_vars.append(self.vars[key])
            self.shared_names.append(name)
        return ('var', self.vars[key])

    def label(self, name):
        if name not in self.labels:
            self.labels[name] = len(self.labels) + 5
        return self.labels[name]

    def is_multi_scalar(self, e):
        if e[0] == 'var':
            return e[1] in self.mvvars
        if e[0] == 'view' and e[1] >= 5:
            name = {v: k for k, v in self.labels.items()}.get(e[1], '')
            return _multi_scalar_keyword(name)
        return False

    def all_attributes(self, b):
        """`vars(x)` / `x.__dict__`: the object's state - itself, and whatever was stored under any attribute so far"""
        j = ('view', SAME, b)
        for lab in sorted(set(self.labels.values())):
            j = ('join', j, ('view', lab, b))
        return j

    def may_be(self, cands, new=True):
        """a reference that is one of `cands` (or a new object)"""
        cands = [c for c in cands if not _is_fresh(c)]
        if not cands:
            return FRESH
        j = FRESH if new else cands[0]
        for c in (cands if new else cands[1:]):
            j = ('join', j, c)
        return j

    def shallow(self, pre, srcs):
        """a new container with the same parts as `srcs` (copy.copy, `.copy()`, filter, Sequence(lst) ...)"""
        srcs = [e for e in srcs if not _is_fresh(e)]
        if not srcs:
            return FRESH
        t = self.tmp()
        pre.append(('assign', t, FRESH))
        src = srcs[0]
        for e in srcs[1:]:
            src = ('join', src, e)
        src = self.through(src) if src[0] == 'var' else src
        pre.append(('link', ('var', t), ITEM, ('view', ITEM, src)))
        self.shallow_of[t] = src
        return ('var', t)

    def lambda_def(self, lam):
        """a lambda as a function definition (so that it can be inlined like a closure)"""
        key = id(lam)
        if key not in self._lambdas:
            fd = ast.FunctionDef(name=f'lambda_{lam.lineno}_{lam.col_offset}', args=lam.args,
                                 body=[ast.Return(value=lam.body)], decorator_list=[], returns=None, type_comment=None)
            ast.copy_location(fd, lam)
            ast.fix_missing_locations(fd)
            fd._def_scope = self.scope
            self._lambdas[key] = fd
        return self._lambdas[key]

    def inline_with(self, fdef, e):
        """the body of a local function / lambda with EVERY parameter bound to `e` (it is called by an external callee)"""
        if id(fdef) in self.stack or len(self.stack) > INLINE_DEPTH:
            return []
        params = [a.arg for a in fdef.args.posonlyargs + fdef.args.args + fdef.args.kwonlyargs]
        params += [a.arg for a in (fdef.args.vararg, fdef.args.kwarg) if a is not None]
        outer_scope, outer_ret, outer_cls = self.scope, self.ret_var, self.scope_cls
        self.inlined.append(fdef.name)
        self.scope = f'{fdef.name}#{len(self.inlined)}.'
        self.closure_parent[self.scope] = outer_scope
        self.stack.append(id(fdef))
        pre = [('assign', self.var(p_), e) for p_ in params]
        ret = self.tmp()
        pre.append(('assign', ret, FRESH))
        self.ret_var = ret
        try:
            pre += self.block(strip_doc(fdef.body))
        finally:
            self.scope, self.ret_var, self.scope_cls = outer_scope, outer_ret, outer_cls
            self.stack.pop()
        return pre

    def through(self, e):
        """the object `e` denotes, or - when `e` is a variable bound to a shallow copy - the original as well: the parts
        (attributes, items) of a shallow copy are the parts of the original"""
        if e[0] == 'var' and e[1] in self.shallow_of:
            return ('join', e, self.shallow_of[e[1]])
        return e

    def item_of(self, e):
        if self.is_multi_scalar(e):
            return FRESH                     # an item of a multi-valued (non-sequence) DICOM attribute: an immutable value
        """an item of what `e` denotes; when `e` itself is an item of a container (syntactically, or a variable that was bound to
        one) the item is looked up under the label of nested items"""
        if e[0] == 'var' and e[1] in self.itemvars:
            return ('view', NESTED, e)
        return _item_of(e)

    def var(self, name):
        name = self.scope + name if not name.startswith('%') else name
        if name not in self.vars:
            self.vars[name] = len(self.vars)
        return self.vars[name]

    def tmp(self):
        return self.var(f'%tmp{len(self.vars)}')

    def cond(self, text):
        self.conds.append(text)
        return len(self.conds) - 1

    @staticmethod
    def is_converter(call):
        f = call.func
        name = f.attr if isinstance(f, ast.Attribute) else (f.id if isinstance(f, ast.Name) else '')
        if name in ('from_dataset', 'from_sequence'):
            return 'public'
        if name.startswith('_from_dataset') or name.startswith('_from_sequence'):
            return 'private'
        return None

    def pack(self, pre, parts, label=ITEM):
        """a new container holding references to `parts`"""
        parts = [e for e in parts if not _is_fresh(e)]
        if not parts:
            return FRESH
        t = self.tmp()
        pre.append(('assign', t, FRESH))
        for e in parts:
            pre.append(('link', ('var', t), label, e))
        return ('var', t)

    # ---- expressions: returns (prefix statements, E)
    def expr(self, node):
        pre = []
        if node is None:
            return pre, FRESH
        if isinstance(node, ast.Name):
            if node.id in self.compenv:
                return pre, self.compenv[node.id]
            if self.scope + node.id in self.vars:
                return pre, ('var', self.vars[self.scope + node.id])
            sc = self.scope
            while sc in self.closure_parent:          # a closure / lambda reads (and writes through) what it captured
                sc = self.closure_parent[sc]
                if sc + node.id in self.vars:
                    return pre, ('var', self.vars[sc + node.id])
            if node.id in _package()['globals_mut']:
                return pre, self.shared(node.id)       # a mutable module global: exists before the call, shared by all calls
            return pre, FRESH
        if isinstance(node, ast.Attribute):
            p, b = self.expr(node.value)
            if node.attr == '__dict__':
                return p, self.all_attributes(b)     # the attribute dictionary IS the object's state
            if _scalar_keyword(node.attr):
                return p, FRESH          # a single-valued non-sequence DICOM attribute: an immutable str / number
            b = self.through(b)
            if node.attr in _package()['class_mut'] and isinstance(node.value, ast.Name):
                # a mutable class attribute reached through self / cls / the class: the instance's own or the shared one
                return p, ('join', ('view', self.label(node.attr), b), self.shared(node.attr))
            return p, ('view', self.label(node.attr), b)
        if isinstance(node, ast.Subscript):
            p, b = self.expr(node.value)
            p2, _ = self.expr(node.slice)
            return p + p2, self.item_of(self.through(b))
        if isinstance(node, ast.Starred):
            return self.expr(node.value)
        if isinstance(node, (ast.Tuple, ast.List, ast.Set)):
            parts = []
            for el in node.elts:
                p, e = self.expr(el)
                pre += p
                parts.append(e)
            return pre, self.pack(pre, parts)
        if isinstance(node, ast.Dict):
            parts = []
            for el in list(node.keys) + list(node.values):
                if el is not None:
                    p, e = self.expr(el)
                    pre += p
                    parts.append(e)
            return pre, self.pack(pre, parts)
        if isinstance(node, ast.IfExp):
            pt, _ = self.expr(node.test)
            pa, a = self.expr(node.body)
            pb, b = self.expr(node.orelse)
            t = self.tmp()
            c, swap = self.test(node.test)
            br_t = pa + [('assign', t, a)]
            br_e = pb + [('assign', t, b)]
            if swap:
                br_t, br_e = br_e, br_t
            return pt + [('ite', c, br_t, br_e)], ('var', t)
        if isinstance(node, ast.Call):
            fname = ast.unparse(node.func)
            args = list(node.args)
            kind = self.is_converter(node)
            if kind is not None and args:
                pa, a = self.expr(args[0])
                for extra in args[1:] + [k.value for k in node.keywords if k.arg != 'copy']:
                    pe, _ = self.expr(extra)
                    pa += pe
                ck = [k.value for k in node.keywords if k.arg == 'copy']
                if ast.unparse(node.func) in REBUILDERS:
                    # builds a new container around the items of its argument; the items are converted in place unless copied
                    t = self.tmp()
                    inplace = [('deep', a), ('assign', t, FRESH), ('link', ('var', t), ITEM, ('view', ITEM, a))]
                    if not ck or (isinstance(ck[0], ast.Constant) and ck[0].value is True):
                        return pa, FRESH
                    if isinstance(ck[0], ast.Constant) and ck[0].value is False:
                        return pa + inplace, ('var', t)
                    if isinstance(ck[0], ast.Name) and ck[0].id == 'copy' and self.has_copy and not self.scope:
                        return pa + [('ite', 0, [('assign', t, FRESH)], inplace)], ('var', t)
                    raise Unsupported(f'{self.fn.name}: converter call with copy={ast.unparse(ck[0])}')
                if kind == 'private' and not ck:
                    return pa + [('deep', a)], a           # in-place helper: converts and returns its argument
                if not ck or (isinstance(ck[0], ast.Constant) and ck[0].value is True):
                    return pa, FRESH
                if isinstance(ck[0], ast.Constant) and ck[0].value is False:
                    return pa + [('deep', a)], a
                if isinstance(ck[0], ast.Name) and ck[0].id == 'copy' and self.has_copy and not self.scope:
                    t = self.tmp()
                    return pa + [('ite', 0, [('assign', t, FRESH)], [('deep', a), ('assign', t, a)])], ('var', t)
                raise Unsupported(f'{self.fn.name}: converter call with copy={ast.unparse(ck[0])}')
            if fname in ('exec', 'eval', 'compile', '__import__'):
                raise Unsupported(f'{self.fn.name}: {fname}() cannot be abstracted')
            if isinstance(node.func, ast.Lambda):          # `(lambda a: ...)(x)`
                pi, ei = self.inline(node, self.lambda_def(node.func), None)
                return pre + pi, ei
            if isinstance(node.func, ast.Attribute) and node.func.attr in OUT_POS_METHODS \
                    and len(args) > OUT_POS_METHODS[node.func.attr]:
                # whatever class the receiver has: if it is an array, this positional argument is `out`
                po, o = self.expr(args[OUT_POS_METHODS[node.func.attr]])
                if not _is_fresh(o):
                    pre += po + [('write', o)]
            callee, bind_self = self.resolve(node)
            if callee is not None and callee.name in _package()['cached']:
                # an lru_cache'd helper: every call with the same arguments yields the SAME object, which outlives the call
                for a in args + [k.value for k in node.keywords]:
                    pe, _ = self.expr(a)
                    pre += pe
                return pre, self.shared('cache:' + callee.name)
            if callee is not None:
                pi, ei = self.inline(node, callee, bind_self)
                return pre + pi, ei
            vals = []
            for a in args + [k.value for k in node.keywords]:
                pe, e = self.expr(a)
                pre += pe
                vals.append(e)
            if fname in ('deepcopy', 'copy.deepcopy'):
                return pre, FRESH
            kwpos = {k.arg: len(args) + i for i, k in enumerate(node.keywords) if k.arg}

            def kwconst(name, value):
                ks = [k for k in node.keywords if k.arg == name]
                return bool(ks) and isinstance(ks[0].value, ast.Constant) and ks[0].value.value is value
            if 'out' in kwpos and not _is_fresh(vals[kwpos['out']]):
                # numpy `f(..., out=x)` / `x.max(out=y)`: the result is written into that object, and is that object
                pre.append(('write', vals[kwpos['out']]))
                return pre, ('view', SAME, vals[kwpos['out']])
            if fname in COPY_FLAG_FUNCS and args and kwconst('copy', False):
                return pre, ('view', SAME, vals[0])         # np.array(x, copy=False): x itself when nothing has to change
            if fname in ('cast', 'typing.cast') and len(args) == 2:
                return pre, vals[1]
            if fname.split('.')[-1] in ('Dataset', 'FileMetaDataset') and len(args) == 1 and not node.keywords:
                return pre, ('view', SAME, vals[0])    # pydicom: `Dataset(other)` shares the element dict of `other` - no copy
            if fname == 'vars' and args:
                return pre, self.all_attributes(vals[0])
            if fname in VIEW_FUNCS and args:
                if fname == 'getattr' and len(args) >= 2 and isinstance(args[1], ast.Constant) and isinstance(args[1].value, str):
                    return pre, ('view', self.label(args[1].value), vals[0])
                return pre, ('view', ITEM if fname in ITER_FUNCS or fname == 'getattr' else SAME, vals[0])
            if fname in MUTATOR_FUNCS and args:
                pre.append(('write', vals[0]))
                lab = self.label(args[1].value) if fname == 'setattr' and len(args) >= 2 and isinstance(args[1], ast.Constant) \
                    and isinstance(args[1].value, str) else ITEM
                for e in vals[1:]:
                    if not _is_fresh(e):
                        pre.append(('link', vals[0], lab, e))
                return pre, FRESH
            tracked = [e for e in vals if not _is_fresh(e)]
            # callables handed to an external callee (map / filter / sorted(key=) / walk ...): the callee may call them on (the items
            # of) anything else it is given - their bodies run once with every parameter bound to that
            for a in args + [k.value for k in node.keywords]:
                fdef = None
                if isinstance(a, ast.Lambda):
                    fdef = self.lambda_def(a)
                elif isinstance(a, ast.Name) and self.scope + a.id in self.local_funcs:
                    fdef = self.local_funcs[self.scope + a.id]
                if fdef is not None:
                    pool = [x for e in tracked for x in (e, self.item_of(e))]
                    recv0 = None
                    if isinstance(node.func, ast.Attribute):
                        pr0, recv0 = self.expr(node.func.value)
                        pre += pr0
                        if not _is_fresh(recv0):
                            pool += [recv0, self.item_of(recv0)]
                    if pool:
                        j = pool[0]
                        for x in pool[1:]:
                            j = ('join', j, x)
                        pre += self.inline_with(fdef, j)
            root = node.func
            while isinstance(root, (ast.Attribute, ast.Subscript)):
                root = root.value
            # `np.clip(...)`, `copy.copy(...)`: a function of a module, not a method of an object the function holds
            module_call = isinstance(node.func, ast.Attribute) and isinstance(root, ast.Name) and root.id not in ('self', 'cls') \
                and not self.rooted_in_variable(node.func.value) and root.id not in _package()['globals_mut']
            if isinstance(node.func, ast.Attribute) and not module_call:
                if ast.unparse(node.func.value) == 'super()' and self.scope + 'self' in self.vars:
                    pr, recv = [], ('var', self.vars[self.scope + 'self'])      # an inherited (external) method acts on self
                else:
                    pr, recv = self.expr(node.func.value)
                pre += pr
                meth = node.func.attr
                # positional `out` of numpy methods: `arr.clip(0, 1, arr)`
                if meth in OUT_POS_METHODS and len(args) > OUT_POS_METHODS[meth] and not _is_fresh(vals[OUT_POS_METHODS[meth]]):
                    o = vals[OUT_POS_METHODS[meth]]
                    pre.append(('write', o))
                    return pre, ('view', SAME, o)
                if meth in MUTATORS:
                    pre.append(('write', recv))
                    holder, lab = recv, ITEM
                    if recv[0] == 'view' and recv[1] in (ITEM, NESTED):
                        holder, lab = recv[2], NESTED          # `d[k].append(x)`: x becomes an item of an item of d
                    elif recv[0] == 'var' and recv[1] in self.itemvars:
                        lab = NESTED                           # `lst = d[k]; lst.append(x)`
                    for e in vals:
                        if not _is_fresh(e):
                            pre.append(('link', holder, ELEM if meth == 'add' else lab, e))
                            if meth in ('extend', 'update', 'extendleft', '__iadd__', '__ior__'):
                                pre.append(('link', holder, lab, ('view', ITEM, e)))
                    if meth in ITEM_METHODS:                   # `pop`, `setdefault`, `popitem`: hands out what was stored
                        return pre, self.item_of(self.through(recv))
                    return pre, FRESH
                if meth in VIEW_METHODS:
                    if kwconst('inplace', True) or (meth == 'byteswap' and args and isinstance(args[0], ast.Constant)
                                                    and args[0].value is True):
                        pre.append(('write', recv))         # `a.byteswap(inplace=True)`
                    if meth == 'private_block' and kwconst('create', True):
                        pre.append(('write', recv))
                    rb = self.through(recv)
                    return pre, (self.item_of(rb) if meth in ITEM_METHODS else ('view', SAME, rb))
                if kwconst('inplace', True) and not _is_fresh(recv):
                    pre.append(('write', recv))             # an external method asked to work in place
                    return pre, ('view', SAME, recv)
                if kwconst('copy', False) and not _is_fresh(recv):
                    return pre, ('view', SAME, recv)        # `a.astype(t, copy=False)`: a itself when nothing has to change
                if meth in SHALLOW_METHODS and not _is_fresh(recv):
                    return pre, self.shallow(pre, [recv])   # `ds.copy()`, `lst.copy()`: a new holder of the same parts
                if not _is_fresh(recv) or tracked:
                    self.external.add(fname.split('(')[0][-40:])
                if meth in FRESH_METHODS or (fname.startswith(FRESH_PREFIXES) and fname not in VIEW_FUNCS):
                    return pre, FRESH
                if recv[0] == 'var' and recv[1] in self.kept_vars and not _is_fresh(recv):
                    # an unknown method of an object that an external constructor built from tracked references: it may work on them
                    pre.append(('deep', recv))
                # an unknown external method: its result may be the receiver, a part of it, an argument, a part of one - or new
                cand = [x for e in ([recv] if not _is_fresh(recv) else []) + tracked for x in (self.through(e), self.item_of(self.through(e)))]
                return pre, self.may_be(cand)
            if tracked:
                self.external.add(fname.split('(')[0][-40:])       # not a highdicom function: assumed not to write its arguments
            last = fname.split('.')[-1]
            # positional `out` of numpy functions: `np.add(arr, 1, arr)`, `np.clip(arr, 0, 1, arr)`
            if fname in OUT_POS_FUNCS and len(args) > OUT_POS_FUNCS[fname] and not _is_fresh(vals[OUT_POS_FUNCS[fname]]):
                o = vals[OUT_POS_FUNCS[fname]]
                pre.append(('write', o))
                return pre, ('view', SAME, o)
            if isinstance(node.func, ast.Call) and ast.unparse(node.func.func) in ('operator.itemgetter', 'itemgetter',
                                                                                    'operator.attrgetter', 'attrgetter'):
                return pre, self.may_be([x for e in tracked for x in (self.item_of(self.through(e)), self.through(e))], new=False)
            if fname in ITEM_PICK_FUNCS or last in ('min', 'max', 'next'):
                return pre, self.may_be([x for e in tracked for x in (self.item_of(self.through(e)), self.through(e))], new=False)
            if fname in SHALLOW_FUNCS:
                return pre, self.shallow(pre, tracked)
            if last in KEEPING_FUNCS:
                return pre, self.pack(pre, vals + [('view', ITEM, self.through(e)) for e in vals if not _is_fresh(e)])   # list(x), sorted(x) …
            if last[:1].isupper() or last == 'cls':
                r = self.pack(pre, vals, KEPT)    # a constructor keeps references to what it is given
                if r[0] == 'var' and (last in _package()['classes'] or last in _EXTRA_CLASSES):
                    self.kept_vars.add(r[1])      # an object of a class of the package / module: its methods work on what it keeps
                return pre, r
            if fname in FRESH_FUNCS or last in FRESH_FUNCS or (fname.startswith(FRESH_PREFIXES) and fname not in VIEW_FUNCS):
                return pre, FRESH
            # an unknown external function: its result may be an argument, a part of one - or new
            return pre, self.may_be([x for e in tracked for x in (self.through(e), self.item_of(self.through(e)))])
        if isinstance(node, (ast.ListComp, ast.SetComp, ast.GeneratorExp, ast.DictComp)):
            saved = dict(self.compenv)
            body = []
            for g in node.generators:
                pi, it = self.expr(g.iter)
                body += pi
                for n in ast.walk(g.target):
                    if isinstance(n, ast.Name):
                        self.compenv[n.id] = self.item_of(it)
                for cnd in g.ifs:
                    pc, _ = self.expr(cnd)
                    body += pc
            elts = [node.key, node.value] if isinstance(node, ast.DictComp) else [node.elt]
            t = self.tmp()
            pre.append(('assign', t, FRESH))
            for el in elts:
                pe, e = self.expr(el)
                body += pe
                if not _is_fresh(e):
                    body.append(('link', ('var', t), ITEM, e))
            self.compenv = saved
            if body:      # executed zero or more times
                c = self.cond('comprehension: ' + ast.unparse(node)[:60])
                pre.append(('ite', c, body, []))
            return pre, ('var', t)
        if isinstance(node, (ast.Yield, ast.YieldFrom)):
            p, e = self.expr(node.value)
            if self.ret_var is not None:      # an inlined generator: what it yields is what iterating the call gives
                item = e if isinstance(node, ast.Yield) else ('view', ITEM, e)
                t = self.tmp()
                p = p + [('assign', t, FRESH), ('link', ('var', t), ITEM, item),
                         ('assign', self.ret_var, ('join', ('var', self.ret_var), ('var', t)))]
            return p, FRESH
        if isinstance(node, ast.NamedExpr):
            p, e = self.expr(node.value)
            return p + [('assign', self.var(node.target.id), e)], e
        for ch in ast.iter_child_nodes(node):       # arithmetic, comparisons, constants, f-strings: a new value
            if isinstance(ch, ast.expr):
                pe, _ = self.expr(ch)
                pre += pe
        return pre, FRESH

    def resolve(self, call):
        """the function definition a call refers to, if it is one we inline: a method reached through self / cls / super()
        (resolved along the bases, by name), a function of the package called by name, `Class.method(...)`, or `x.method(...)` on a
        local variable where exactly one class this module knows defines a method of that (non-generic) name;
        -> (FunctionDef | None, what `self` is bound to: 'self' | receiver expression | None).
        An internal callee that is NOT inlined although a tracked reference is passed to it is recorded in `self.unmodelled`."""
        f = call.func
        pkg = _package()
        target, bind = None, None
        internal = False
        if self.is_converter(call):
            return None, None
        if isinstance(f, ast.Attribute):
            base = ast.unparse(f.value)
            cls_name = getattr(self, 'cls_name', None)
            if base in ('self', 'cls', 'super()') and cls_name is not None and not self.scope_cls_unknown():
                here = self.scope_cls or cls_name
                if f.attr == '__init__' and base != 'super()':
                    return None, None
                target = _mro_lookup(here, f.attr, skip_own=(base == 'super()'))
                internal = target is not None
                bind = 'self' if base in ('self', 'super()') else None
                self._next_cls = None
                if target is not None:
                    # the class whose body we are about to enter (for super() inside it)
                    for cname, node in pkg['classes'].items():
                        if any(m is target for m in node.body):
                            self._next_cls = cname
            elif base in pkg['classes'] or base in _EXTRA_CLASSES:
                target = _mro_lookup(base, f.attr)
                internal = target is not None
                self._next_cls = base
            elif f.attr in pkg['methods'] and f.attr not in EXTERNAL_NAMES and self.rooted_in_variable(f.value):
                cands = pkg['methods'][f.attr]
                internal = True
                lc = getattr(self, 'local_classes', {})
                near = [c for c in cands if c[0] in lc and (lc[c[0]] is None or lc[c[0]] == c[2])]
                if len(near) > 1:
                    near = [c for c in near if lc[c[0]] == c[2]] or near
                pick = near if len(near) == 1 else (cands if len(cands) == 1 else [])
                if pick:
                    target, bind = pick[0][1], f.value
                    self._next_cls = pick[0][0]
        elif isinstance(f, ast.Name):
            sc, found = self.scope, None
            while True:
                if sc + f.id in self.local_funcs:
                    found = self.local_funcs[sc + f.id]
                    break
                if sc not in self.closure_parent:
                    break
                sc = self.closure_parent[sc]
            if found is not None:
                target, internal = found, True
            elif f.id in self.functions:
                target, internal = self.functions[f.id], True
            elif f.id in pkg['funcs'] and f.id not in self.vars:
                internal = True
                if len(pkg['funcs'][f.id]) == 1:
                    target = pkg['funcs'][f.id][0]
            self._next_cls = None
        if target is not None and self.stack.count(id(target)) == 1 and len(self.stack) <= INLINE_DEPTH + 1:
            pass        # a recursive call: the body once more (recursion is unrolled twice, like a loop) ...
        elif target is not None and self.stack.count(id(target)) >= 2:
            # ... and cut there: on the caller's objects the third level sees what the second saw (everything reachable from an
            # argument is one region); its result may be any of its arguments
            self.recursion_cut.add(target.name)
            # what the level that is not entered would be given, in terms of the variables of the level that calls it: the caller
            # (`inline`) widens that level's parameters with it and runs the body once more - recursion is treated like a loop
            params = [a.arg for a in target.args.posonlyargs + target.args.args + target.args.kwonlyargs if a.arg not in ('self', 'cls')]
            binding = {}
            for pname, a in list(zip(params, call.args)) + [(k.arg, k.value) for k in call.keywords if k.arg in params]:
                if isinstance(a, ast.Starred):
                    continue
                try:
                    pa, e = self.expr(a)
                except Unsupported:
                    continue
                if not pa and not _is_fresh(e):
                    binding[pname] = e
            if binding:
                self.cut_actuals.setdefault(id(target), []).append(binding)
            return None, None
        elif target is not None and len(self.stack) > INLINE_DEPTH:
            target = None
        if target is None and internal:
            # an internal callee we do not look into: sound only if nothing the caller holds is passed to it
            tracked = False
            for a in list(call.args) + [k.value for k in call.keywords] + (
                    [f.value] if isinstance(f, ast.Attribute) and ast.unparse(f.value) not in ('self', 'cls', 'super()') else []):
                try:
                    _, e = self.expr(a)
                except Unsupported:
                    e = ('var', -1)
                if not _is_fresh(e):
                    tracked = True
            if tracked:
                self.unmodelled.add(ast.unparse(f)[:60])
        return target, bind

    def scope_cls_unknown(self):
        return bool(self.scope) and self.scope_cls is None

    def rooted_in_variable(self, node):
        while isinstance(node, (ast.Attribute, ast.Subscript)):
            node = node.value
        if isinstance(node, ast.Call):
            return False
        if not isinstance(node, ast.Name):
            return False
        if node.id in self.compenv or self.scope + node.id in self.vars:
            return True
        sc = self.scope
        while sc in self.closure_parent:
            sc = self.closure_parent[sc]
            if sc + node.id in self.vars:
                return True
        return False

    def inline(self, call, callee, bind_self):
        """the body of `callee` in place of the call: parameters bound to the arguments (`*x` / `**x` forwarded: every parameter
        not bound otherwise may be an item of `x`; the callee's own `*args` / `**kwargs` collect the rest), returns collected in
        a variable; a closure / lambda sees the variables of the scope it was defined in"""
        pre = []
        recv = None
        if bind_self is not None and bind_self != 'self':
            pr, recv = self.expr(bind_self)
            pre += pr
        params = [a.arg for a in callee.args.posonlyargs + callee.args.args + callee.args.kwonlyargs]
        is_method = bool(params) and params[0] in ('self', 'cls')
        actual = {}
        pos = [p for p in params if p not in ('self', 'cls')] if is_method else params
        npos = len([p for p in (callee.args.posonlyargs + callee.args.args) if p.arg not in ('self', 'cls')])
        i, extra, spread = 0, [], []
        for a in call.args:
            if isinstance(a, ast.Starred):
                pe, e = self.expr(a.value)
                pre += pe
                if not _is_fresh(e):
                    spread.append(self.item_of(self.through(e)))
                continue
            pe, e = self.expr(a)
            pre += pe
            if i < npos:
                actual[pos[i]] = e
                i += 1
            else:
                extra.append(e)
        kw_extra, kw_spread = [], []
        for k in call.keywords:
            pe, e = self.expr(k.value)
            pre += pe
            if k.arg is None:
                if not _is_fresh(e):
                    kw_spread.append(e)
            elif k.arg in params:
                actual[k.arg] = e
            else:
                kw_extra.append(e)
        outer_scope, outer_ret, outer_cls = self.scope, self.ret_var, self.scope_cls
        outer_self = self.vars.get(outer_scope + 'self')
        next_cls = self._next_cls
        self.inlined.append(callee.name)
        self.scope = f'{callee.name}#{len(self.inlined)}.'
        if hasattr(callee, '_def_scope'):
            self.closure_parent[self.scope] = callee._def_scope
        self.scope_cls = next_cls
        self.stack.append(id(callee))
        maybe = spread + [self.item_of(self.through(e)) for e in kw_spread]
        for p in pos:
            e = actual.get(p, FRESH)
            if p not in actual and maybe:
                e = self.may_be(maybe)
            pre.append(('assign', self.var(p), e))
        if callee.args.vararg is not None:
            pre.append(('assign', self.var(callee.args.vararg.arg), self.pack(pre, extra + spread)))
        if callee.args.kwarg is not None:
            ke = self.pack(pre, kw_extra + [self.item_of(self.through(e)) for e in kw_spread])
            pre.append(('assign', self.var(callee.args.kwarg.arg), ke))
        if is_method and params[0] == 'self':
            if bind_self == 'self' and outer_self is not None:
                self.vars[self.scope + 'self'] = outer_self
            elif recv is not None:
                pre.append(('assign', self.var('self'), recv))
        ret = self.tmp()
        pre.append(('assign', ret, FRESH))
        self.ret_var = ret
        try:
            pre += self.block(strip_doc(callee.body))
            if self.stack.count(id(callee)) == 2 and self.cut_actuals.get(id(callee)):
                pairs = []
                for binding in self.cut_actuals.pop(id(callee)):
                    for pname, e in binding.items():
                        v = self.vars.get(self.scope + pname)
                        if v is not None:
                            pairs.append((v, e))
                if pairs:
                    # deeper levels: this level's parameters may also be what it hands down (a fixpoint, see `widen`), body again
                    pre.append(('widen', pairs))
                    pre += self.block(strip_doc(callee.body))
                    self.cut_actuals.pop(id(callee), None)
        finally:
            self.scope, self.ret_var, self.scope_cls = outer_scope, outer_ret, outer_cls
            self.stack.pop()
        return pre, ('var', ret)

    def test(self, node):
        """-> (condition index, swapped?)"""
        if isinstance(node, ast.Name) and node.id == 'copy' and self.has_copy and not self.scope:
            return 0, False
        if isinstance(node, ast.UnaryOp) and isinstance(node.op, ast.Not) and isinstance(node.operand, ast.Name) \
                and node.operand.id == 'copy' and self.has_copy and not self.scope:
            return 0, True
        return self.cond(ast.unparse(node)[:80]), False

    # ---- statements
    def assign_to(self, target, e, out):
        if isinstance(target, ast.Name):
            v = self.var(target.id)
            if e[0] == 'view' and e[1] in (ITEM, NESTED):
                self.itemvars.add(v)
            if self.is_multi_scalar(e):
                self.mvvars.add(v)
            self.shallow_of.pop(v, None)
            self.kept_vars.discard(v)
            if e[0] == 'var' and e[1] in self.shallow_of:
                self.shallow_of[v] = self.shallow_of[e[1]]
            if e[0] == 'var' and e[1] in self.kept_vars:
                self.kept_vars.add(v)
            out.append(('assign', v, e))
        elif isinstance(target, (ast.Tuple, ast.List)):
            for el in target.elts:
                self.assign_to(el, e if _is_fresh(e) else self.item_of(e), out)
        elif isinstance(target, (ast.Attribute, ast.Subscript)):
            p, b = self.expr(target.value)
            out += p
            out.append(('write', b))
            if isinstance(target, ast.Attribute):
                # pydicom: assigning an attribute that exists rewrites its DataElement in place - an element that was put
                # there with `add` is the very object another data set may hold
                out.append(('write', ('view', ELEM, b)))
                out.append(('link', b, self.label(target.attr), e))      # also for new values: `x.f` is then that object
                if not _is_fresh(e) and _dicom_keyword(target.attr):
                    # a data set: the same stored object is what `x["Keyword"]` and iteration over `x` reach (through the element)
                    out.append(('link', b, ITEM, e))
            elif not _is_fresh(e):
                out.append(('link', b, ITEM, e))
                out.append(('link', b, ELEM, e))       # `ds[tag] = elem` stores the element object itself, like `add`
        elif isinstance(target, ast.Starred):
            self.assign_to(target.value, e, out)
        else:
            raise Unsupported(f'{self.fn.name}: assignment target {ast.unparse(target)}')

    def block(self, stmts, top=False):
        out = []
        for st in stmts:
            if isinstance(st, ast.Expr):
                if isinstance(st.value, ast.Constant):
                    continue
                p, _ = self.expr(st.value)
                out += p
            elif isinstance(st, ast.Assign) and isinstance(st.value, ast.Lambda) and len(st.targets) == 1 \
                    and isinstance(st.targets[0], ast.Name):
                self.local_funcs[self.scope + st.targets[0].id] = self.lambda_def(st.value)      # `f = lambda a: ...`
            elif isinstance(st, ast.Assign):
                p, e = self.expr(st.value)
                out += p
                for t in st.targets:
                    self.assign_to(t, e, out)
            elif isinstance(st, ast.AnnAssign):
                if st.value is not None:
                    p, e = self.expr(st.value)
                    out += p
                    self.assign_to(st.target, e, out)
            elif isinstance(st, ast.AugAssign):
                p, v = self.expr(st.value)
                out += p
                if isinstance(st.target, ast.Name):
                    _, e = self.expr(st.target)
                    out.append(('write', e))          # in place for arrays / lists
                    if not _is_fresh(v) and isinstance(st.op, ast.Add):
                        out.append(('link', e, ITEM, ('view', ITEM, v)))   # list += items
                else:
                    # `x.f op= v` / `x[i] op= v`: the object stored there is changed in place (arrays, lists) and stored again
                    p2, b = self.expr(st.target.value)
                    out += p2
                    _, tgt = self.expr(st.target)
                    out.append(('write', tgt))
                    out.append(('write', b))
                    if not _is_fresh(v) and isinstance(st.op, ast.Add):
                        out.append(('link', tgt, ITEM, ('view', ITEM, v)))
            elif isinstance(st, ast.Delete):
                for t in st.targets:
                    if isinstance(t, (ast.Attribute, ast.Subscript)):
                        p, b = self.expr(t.value)
                        out += p
                        out.append(('write', b))
            elif isinstance(st, ast.If):
                pt, _ = self.expr(st.test)
                out += pt
                bt = self.block(st.body)
                be = self.block(st.orelse)
                # `if x is None` / `if x is not None`: in the arm where x is None it aliases nothing
                tst = st.test
                if isinstance(tst, ast.Compare) and len(tst.ops) == 1 and isinstance(tst.left, ast.Name) \
                        and isinstance(tst.comparators[0], ast.Constant) and tst.comparators[0].value is None \
                        and isinstance(tst.ops[0], (ast.Is, ast.IsNot)) and (self.scope + tst.left.id) in self.vars \
                        and (bt or be):
                    none_arm = [('assign', self.vars[self.scope + tst.left.id], FRESH)]
                    if isinstance(tst.ops[0], ast.Is):
                        bt = none_arm + bt
                    else:
                        be = none_arm + be
                if not bt and not be:
                    continue
                c, swap = self.test(st.test)
                if swap:
                    bt, be = be, bt
                out.append(('ite', c, bt, be))
            elif isinstance(st, (ast.For, ast.AsyncFor, ast.While)):
                body = []
                if not isinstance(st, ast.While):
                    p, it = self.expr(st.iter)
                    out += p
                    self.assign_to(st.target, self.item_of(it), body)
                else:
                    p, _ = self.expr(st.test)
                    out += p
                body += self.block(st.body)
                head = ast.unparse(st).split('\n')[0][:70]
                # the body runs zero or more times: two unrolled passes (the second under its own condition) - a reference
                # re-bound at the end of one iteration (`prev = item`) is what the next iteration works on
                body2 = []
                if not isinstance(st, ast.While):
                    self.assign_to(st.target, self.item_of(it), body2)
                body2 += self.block(st.body)
                # widening: before the second pass every variable the body re-binds from another loop-carried variable may hold
                # what ANY earlier iteration left there (`a = b; b = it`: a chain of any depth), so the pass stands for all later ones
                assigns = []

                def loop_assigns(p_):
                    for s_ in p_:
                        if s_[0] == 'assign':
                            assigns.append((s_[1], s_[2]))
                        elif s_[0] == 'widen':
                            assigns.extend(s_[1])
                        elif s_[0] == 'ite':
                            loop_assigns(s_[2])
                            loop_assigns(s_[3])
                loop_assigns(body)
                carried = {x for x, _ in assigns}
                carry = [(x, e) for x, e in assigns if _root_vars(e) & carried and not _is_fresh(e)]
                if carry:
                    body2 = [('widen', carry)] + body2       # iterated by the analysis until nothing grows
                c = self.cond('loop: ' + head)
                c2 = self.cond('loop, second pass: ' + head)
                out.append(('ite', c, body + [('ite', c2, body2, [])], []))
                out += self.block(st.orelse)
            elif isinstance(st, (ast.With, ast.AsyncWith)):
                for it in st.items:
                    p, e = self.expr(it.context_expr)
                    out += p
                    if it.optional_vars is not None:
                        self.assign_to(it.optional_vars, e, out)
                out += self.block(st.body)
            elif isinstance(st, ast.Try):
                out += self.block(st.body)
                for h in st.handlers:
                    hb = self.block(h.body)
                    if hb:
                        c = self.cond('except ' + (ast.unparse(h.type) if h.type else ''))
                        out.append(('ite', c, hb, []))
                out += self.block(st.orelse)
                out += self.block(st.finalbody)
            elif isinstance(st, ast.Return):
                p, e = self.expr(st.value)
                out += p
                if self.ret_var is not None:        # inlined: the value joins what the call may yield; execution is
                    out.append(('assign', self.ret_var, ('join', ('var', self.ret_var), e)))   # over-approximated as going on
                else:
                    out.append(('ret', e))
            elif isinstance(st, ast.Raise):
                if top:
                    out.append(('raise',))
                # a conditional refusal only removes behaviours; the theorems quantify over the continuing ones
            elif isinstance(st, (ast.Pass, ast.Assert, ast.Import, ast.ImportFrom, ast.Global, ast.Nonlocal, ast.Break,
                                 ast.Continue)):
                continue
            elif isinstance(st, ast.FunctionDef):
                st._def_scope = self.scope
                self.local_funcs[self.scope + st.name] = st       # a closure: inlined where it is called
            elif isinstance(st, ast.ClassDef):
                continue
            else:
                raise Unsupported(f'{self.fn.name}: statement {type(st).__name__}')
        return out

    # ---- clean-up: dead bindings, identical branches, dense condition numbers
    @staticmethod
    def _used(prog, used):
        for st in prog:
            k = st[0]
            if k == 'assign':
                if st[1] in used:
                    used |= _root_vars(st[2]) - {st[1]} if st[2][0] == 'join' else _root_vars(st[2])
            elif k in ('write', 'deep', 'ret'):
                used |= _root_vars(st[1])
            elif k == 'link':
                used |= _root_vars(st[1]) | _root_vars(st[3])
            elif k == 'widen':
                for x, e in st[1]:
                    if x in used:
                        used |= _root_vars(e)
            elif k == 'ite':
                _Alias._used(st[2], used)
                _Alias._used(st[3], used)

    @staticmethod
    def _prune(prog, used):
        out = []
        seen_writes = set()          # writes repeated before anything changed what they hit are idempotent
        for st in prog:
            k = st[0]
            if k in ('write', 'deep'):
                if st in seen_writes:
                    continue
                seen_writes.add(st)
            elif k == 'link':
                if ('L',) + st in seen_writes:
                    continue
                seen_writes = {x for x in seen_writes if x[0] == 'L'} | {('L',) + st}
            else:
                seen_writes = set()
            if k == 'widen':
                seen_writes = set()
                pairs = [(x, e) for x, e in st[1] if x in used and not _is_fresh(e)]
                if pairs:
                    out.append(('widen', pairs))
                continue
            if k == 'assign' and st[1] not in used:
                continue
            if k == 'assign' and _is_fresh(st[2]) and st[2] != FRESH:
                st = ('assign', st[1], FRESH)          # an attribute of a constant / new value: nothing the caller can see
            if k == 'ret' and _is_fresh(st[1]) and st[1] != FRESH:
                st = ('ret', FRESH)
            if k in ('write', 'deep') and _is_fresh(st[1]):
                continue                       # writing a value nobody else can see
            if k == 'link' and (_is_fresh(st[1]) or (_is_fresh(st[3]) and st[2] < 5)):
                continue
            if k == 'ite':
                t, e = _Alias._prune(st[2], used), _Alias._prune(st[3], used)
                if t == e:
                    out += t
                elif all(x[0] in ('write', 'deep', 'link') for x in t + e):
                    # writes and links only accumulate: doing both arms over-approximates either (and needs no condition)
                    out += t + e
                else:
                    out.append(('ite', st[1], t, e))
                continue
            out.append(st)
        return out

    def _flatten(self, prog):
        """merge the arms of branches without early exit: each arm runs on private copies of the variables it assigns
        (strong updates inside the arm), and at its end every such variable becomes `x | x_arm` (weak update at the join)"""
        def ren_e(e, m):
            if e[0] == 'var':
                return ('var', m.get(e[1], e[1]))
            if e[0] == 'view':
                return ('view', e[1], ren_e(e[2], m))
            if e[0] == 'join':
                return ('join', ren_e(e[1], m), ren_e(e[2], m))
            return e

        firsts = {}

        def arm(p, both=(), first=True):
            """`both`: variables assigned in either arm of this branch - after the branch they hold one of the two new values,
            not the old one (the first arm then overwrites, the second joins)"""
            m, out = {}, []
            for st in p:
                k = st[0]
                if k == 'assign':
                    e = ren_e(st[2], m)
                    t = self.tmp()
                    out.append(('assign', t, e))
                    m[st[1]] = t
                elif k in ('write', 'deep'):
                    out.append((k, ren_e(st[1], m)))
                elif k == 'link':
                    out.append(('link', ren_e(st[1], m), st[2], ren_e(st[3], m)))
                elif k == 'widen':
                    for x, _ in st[1]:          # the arm widens its private copies
                        if x not in m:
                            t = self.tmp()
                            out.append(('assign', t, ('var', x)))
                            m[x] = t
                    out.append(('widen', [(m[x], ren_e(e, m)) for x, e in st[1]]))
            for x, t in m.items():
                if x in both and not first:
                    # assigned in either arm: one of the two new values, not the old one (`firsts[x]`: the first arm's)
                    out.append(('assign', x, ('join', ('var', firsts[x]), ('var', t))))
                else:
                    out.append(('assign', x, ('join', ('var', x), ('var', t))))     # weak: the other arm starts from a superset
                    if first:
                        firsts[x] = t
            return out
        out = []
        for st in prog:
            if st[0] == 'ite':
                t, e = self._flatten(st[2]), self._flatten(st[3])
                if all(x[0] in ('assign', 'write', 'deep', 'link', 'widen') for x in t + e) and not (st[1] == 0 and self.has_copy):
                    def assigned(p_):
                        return {x[1] for x in p_ if x[0] == 'assign'} | {y for x in p_ if x[0] == 'widen' for y, _ in x[1]}
                    both = assigned(t) & assigned(e)
                    firsts.clear()
                    out += arm(t, both, True) + arm(e, both, False)
                else:
                    out.append(('ite', st[1], t, e))
            else:
                out.append(st)
        return out

    @staticmethod
    def _slice(prog, nparams):
        """keep what can matter for the questions asked: statements over variables that may denote (a part of) an argument
        (forward closure from the parameters through assignments; a holder of a link to such a variable counts too), and what
        the returned reference is computed from.  Everything else only ever touches objects the function allocated itself."""
        flat = []

        def walk(p):
            for st in p:
                if st[0] == 'ite':
                    walk(st[2])
                    walk(st[3])
                else:
                    flat.append(st)
        walk(prog)
        T = set(range(nparams))
        R = set()
        for st in flat:
            if st[0] == 'ret':
                R |= _root_vars(st[1])
        changed = True
        while changed:
            changed = False
            for st in flat:
                k = st[0]
                if k == 'assign':
                    rv = _root_vars(st[2])
                    if st[1] not in T and rv & T:
                        T.add(st[1])
                        changed = True
                    if st[1] in R and not rv <= R:
                        R |= rv
                        changed = True
                elif k == 'widen':
                    for x, e in st[1]:
                        rv = _root_vars(e)
                        if x not in T and rv & T:
                            T.add(x)
                            changed = True
                        if x in R and not rv <= R:
                            R |= rv
                            changed = True
                elif k == 'link':
                    a, b = _root_vars(st[1]), _root_vars(st[3])
                    if b & T and not a <= T:
                        T |= a
                        changed = True
                    if a & R and not b <= R:
                        R |= b
                        changed = True
        keep = T | R

        def cut(p):
            out = []
            for st in p:
                k = st[0]
                if k == 'assign':
                    if st[1] in keep:
                        out.append(st)
                elif k in ('write', 'deep'):
                    if _root_vars(st[1]) & T:
                        out.append(st)
                elif k == 'widen':
                    pairs = [(x, e) for x, e in st[1] if x in keep]
                    if pairs:
                        out.append(('widen', pairs))
                elif k == 'link':
                    if (_root_vars(st[1]) | _root_vars(st[3])) & keep:
                        out.append(st)
                elif k == 'ite':
                    t, e = cut(st[2]), cut(st[3])
                    if t or e:
                        out.append(('ite', st[1], t, e))
                else:
                    out.append(st)
            return out
        return cut(prog)

    def program(self, merge_arms=False):
        prog = []
        if self.is_method:
            prog.append(('assign', self.var('self'), FRESH))      # the object under construction is new
        prog += self.block(strip_doc(self.fn.body), top=True)
        if merge_arms:
            prog = self._flatten(prog)
        # pseudo-parameters (shared objects) become parameters n, n+1, ...: swap variable numbers
        n = len(self.params)
        perm = {}
        for i, sv in enumerate(self.shared_vars):
            a_, b_ = perm.get(sv, sv), n + i
            # swap the roles of the current holders of a_ and b_
            inv = {v: k for k, v in perm.items()}
            ka, kb = sv, inv.get(b_, b_)
            perm[ka], perm[kb] = b_, a_

        def ren_e(e):
            if e[0] == 'var':
                return ('var', perm.get(e[1], e[1]))
            if e[0] == 'view':
                return ('view', e[1], ren_e(e[2]))
            if e[0] == 'join':
                return ('join', ren_e(e[1]), ren_e(e[2]))
            return e

        def ren_p(p):
            out = []
            for st in p:
                k = st[0]
                if k == 'assign':
                    out.append(('assign', perm.get(st[1], st[1]), ren_e(st[2])))
                elif k in ('write', 'deep', 'ret'):
                    out.append((k, ren_e(st[1])))
                elif k == 'link':
                    out.append(('link', ren_e(st[1]), st[2], ren_e(st[3])))
                elif k == 'ite':
                    out.append(('ite', st[1], ren_p(st[2]), ren_p(st[3])))
                elif k == 'widen':
                    out.append(('widen', [(perm.get(x, x), ren_e(e)) for x, e in st[1]]))
                else:
                    out.append(st)
            return out
        if perm:
            prog = ren_p(prog)
        self.nparams = n + len(self.shared_vars)
        while True:
            used = set()
            n = -1
            while n != len(used):
                n = len(used)
                self._used(prog, used)
            new = self._prune(prog, used)
            if new == prog:
                break
            prog = new
        prog = self._slice(prog, self.nparams)
        # dense condition numbers
        order = []

        def collect(p):
            for st in p:
                if st[0] == 'ite':
                    if st[1] != 0 and st[1] not in order:
                        order.append(st[1])
                    collect(st[2])
                    collect(st[3])
        collect(prog)
        remap = {0: 0, **{c: i + 1 for i, c in enumerate(order)}}

        def ren(p):
            return [('ite', remap[st[1]], ren(st[2]), ren(st[3])) if st[0] == 'ite' else st for st in p]
        prog = ren(prog)
        self.cond_texts = ['copy'] + [self.conds[c] for c in order]
        limit = getattr(self, 'max_conds', MAX_CONDS)
        if len(self.cond_texts) > limit:
            raise Unsupported(f'{self.fn.name}: {len(self.cond_texts)} relevant conditions (limit {limit})')
        return prog


_BASE_CACHE = {}
_PKG = {}
# method names that highdicom classes share with pydicom / numpy / builtin containers: a call `x.<name>(...)` on an arbitrary
# receiver is not taken for the highdicom method
EXTERNAL_NAMES = {'get', 'append', 'extend', 'insert', 'copy', 'index', 'items', 'keys', 'values', 'update', 'pop', 'add', 'remove',
                  'sort', 'clear', 'count', 'find', 'format', 'join', 'split', 'strip', 'astype', 'reshape', 'flatten', 'tolist',
                  'tobytes', 'any', 'all', 'sum', 'max', 'min', 'save_as', 'to_json', 'to_json_dict', '__init__', 'decode',
                  'encode', 'read', 'write', 'close', 'seek', 'tell', 'group_dataset', 'walk', 'iterall', 'elements', 'title',
                  'lower', 'upper', 'startswith', 'endswith', 'replace', 'transpose', 'squeeze', 'view', 'item', 'fill', 'round',
                  'dot', 'mean', 'argmax', 'argmin', 'nonzero', 'ravel', 'setdefault', 'isoformat', 'strftime', 'date', 'time'}


def _package():
    """{'funcs': name -> [FunctionDef], 'methods': name -> [(class, FunctionDef)], 'classes': name -> ClassDef} over the package"""
    root = os.path.join(os.environ.get('HD_REPO', '/repo'), 'src', 'highdicom')
    if _PKG.get('root') == root:
        return _PKG
    funcs, methods, classes = {}, {}, {}
    cached, globals_mut, class_mut = set(), set(), set()

    def is_cached(fn):
        for d in fn.decorator_list:
            t = ast.unparse(d.func if isinstance(d, ast.Call) else d).split('.')[-1]
            if t in ('lru_cache', 'cache'):
                return True
        return False
    for dp, _, fs in sorted(os.walk(root)):
        for f in sorted(fs):
            if not f.endswith('.py') or f in ('_modules.py', '_iods.py', '_icc_profiles.py'):
                continue
            try:
                tree = ast.parse(open(os.path.join(dp, f)).read())
            except SyntaxError:
                continue
            mod = 'highdicom.' + os.path.relpath(os.path.join(dp, f), root)[:-3].replace(os.sep, '.')
            mod = mod[:-len('.__init__')] if mod.endswith('.__init__') else mod
            for node in tree.body:
                if isinstance(node, ast.FunctionDef):
                    funcs.setdefault(node.name, []).append(node)
                    if is_cached(node):
                        cached.add(node.name)
                elif isinstance(node, ast.ClassDef):
                    classes.setdefault(node.name, node)
                    for m in node.body:
                        if isinstance(m, ast.FunctionDef):
                            methods.setdefault(m.name, []).append((node.name, m, mod))
                            if is_cached(m):
                                cached.add(m.name)
                        elif isinstance(m, (ast.Assign, ast.AnnAssign)) and m.value is not None:
                            tg = m.targets[0] if isinstance(m, ast.Assign) else m.target
                            if isinstance(tg, ast.Name) and not _immutable_value(m.value):
                                class_mut.add(tg.id)
                elif isinstance(node, (ast.Assign, ast.AnnAssign)) and node.value is not None:
                    tg = node.targets[0] if isinstance(node, ast.Assign) else node.target
                    if isinstance(tg, ast.Name) and tg.id != '__all__' and not _immutable_value(node.value):
                        globals_mut.add(tg.id)
    _PKG.clear()
    _PKG.update(root=root, funcs=funcs, methods=methods, classes=classes, cached=cached, globals_mut=globals_mut,
                class_mut=class_mut)
    return _PKG


def _base_methods():
    """methods of SOPClass (base.py), reachable from every SOP class constructor through self / super()"""
    path = os.path.join(os.environ.get('HD_REPO', '/repo'), 'src', 'highdicom', 'base.py')
    try:
        key = (path, os.path.getmtime(path))
    except OSError:
        return {}
    if key not in _BASE_CACHE:
        out = {}
        for node in ast.parse(open(path).read()).body:
            if isinstance(node, ast.ClassDef) and node.name == 'SOPClass':
                out = {f.name: f for f in node.body if isinstance(f, ast.FunctionDef)}
        _BASE_CACHE.clear()
        _BASE_CACHE[key] = out
    return _BASE_CACHE[key]


_EXTRA_CLASSES = {}     # classes of the module being translated that the package scan does not know (the extractor's test corpus)


def _mro_lookup(cls_name, meth, skip_own=False, seen=None):
    """first definition of `meth` along the (name-resolved) bases of a package class; None if it ends in an external base"""
    pkg = _package()
    seen = seen or set()
    classes = pkg['classes'] if cls_name in pkg['classes'] else _EXTRA_CLASSES
    if cls_name in seen or cls_name not in classes:
        return None
    seen.add(cls_name)
    node = classes[cls_name]
    if not skip_own:
        for m in node.body:
            if isinstance(m, ast.FunctionDef) and m.name == meth:
                return m
    for b in node.bases:
        bn = ast.unparse(b).split('.')[-1]
        r = _mro_lookup(bn, meth, False, seen)
        if r is not None:
            return r
    return None


def _with_context(a, tree, cls_name):
    """give an extractor the definitions it may inline"""
    a.cls_name = cls_name
    _EXTRA_CLASSES.clear()
    _EXTRA_CLASSES.update({n.name: n for n in tree.body if isinstance(n, ast.ClassDef) and n.name not in _package()['classes']})
    a.functions = {n.name: n for n in tree.body if isinstance(n, ast.FunctionDef)}
    # names of classes this module defines or imports (to tell apart methods of the same name in different classes)
    local = {n.name: None for n in tree.body if isinstance(n, ast.ClassDef)}       # None: this module itself
    for n in ast.walk(tree):
        if isinstance(n, ast.ImportFrom) and n.module:
            for x in n.names:
                local[x.asname or x.name] = n.module
    a.local_classes = local
    return a


def _render_entry(qual, nparams, nconds, has_copy, prog, ident):
    """(auxiliary definitions, entry term): long programs are split into chunks so that no list literal gets too deep for the
    elaborator"""
    stmts = [_lean_s(x) for x in prog]
    chunk = 40
    if len(stmts) <= chunk and sum(len(x) for x in stmts) < 6000:
        return '', f'⟨"{qual}", {nparams}, {nconds}, {"true" if has_copy else "false"},\n   [{", ".join(stmts)}]⟩'
    aux, names = [], []
    for k in range(0, len(stmts), chunk):
        name = f'{ident}_part{k // chunk}'
        aux.append(f'set_option maxRecDepth 8000 in\ndef {name} : List Aliasing.Stmt :=\n  [' + ',\n   '.join(stmts[k:k + chunk]) + ']')
        names.append(name)
    return '\n\n'.join(aux) + '\n\n', (f'⟨"{qual}", {nparams}, {nconds}, {"true" if has_copy else "false"},\n   '
                                          + ' ++ '.join(names) + '⟩')


def _ident(tag, qual, k):
    return 'prog_' + tag + '_' + ''.join(c if c.isalnum() else '_' for c in qual) + f'_{k}'


def _functions(tree):
    """(qualified name, FunctionDef) of every converter classmethod and of the array helpers in one module"""
    out = []
    for node in tree.body:
        if isinstance(node, ast.ClassDef):
            for f in node.body:
                if isinstance(f, ast.FunctionDef) and f.name in ('from_dataset', 'from_sequence', 'extract_from_dataset',
                                                                  '_get_segment_pixel_array', '_check_and_cast_pixel_array'):
                    out.append((f'{node.name}.{f.name}', f))
    return out


def make_alias_target(tag):
    def build(tree):
        entries, skipped, spans, auxdefs = [], [], [], []
        for qual, fn in _functions(tree):
            try:
                a = _with_context(_Alias(fn), tree, qual.split('.')[0])
                try:
                    prog = a.program()
                except Unsupported as e:
                    if 'relevant conditions' not in str(e):
                        raise
                    a = _with_context(_Alias(fn), tree, qual.split('.')[0])   # too many paths: merge arms (not the copy branch)
                    prog = a.program(merge_arms=True)
                    qual += ' (arms merged)'
                if a.unmodelled:
                    raise Unsupported('passes a reference to internal callees that are not modelled: ' + ', '.join(sorted(a.unmodelled)))
            except Unsupported as e:
                skipped.append((qual, str(e)))
                continue
            spans.append(fn)
            conds = '; '.join(f'{i}: {c}' for i, c in enumerate(a.cond_texts) if i or a.has_copy)
            aux, term = _render_entry(qual, a.nparams, len(a.cond_texts), a.has_copy, prog, _ident(tag, qual, len(entries)))
            auxdefs.append(aux)
            info = (f'inlined {len(a.inlined)} internal calls: {", ".join(sorted(set(a.inlined)))[:600]}; external callees given a '
                    f'reference (assumed read-only): {", ".join(sorted(a.external))[:600]}'
                    + (f'; shared objects as extra parameters: {", ".join(a.shared_names)}' if a.shared_names else ''))
            entries.append(f'  -- {qual}({", ".join(a.params)})   conditions: {conds}\n  -- {info}\n  ' + term)
        if not entries and not skipped:
            raise Unsupported(f'no converter found for {tag}')
        text = (''.join(auxdefs) + f'/-- alias-flow programs extracted from the converters of `{tag}` -/\n'
                f'def alias_{tag} : List Aliasing.Entry := [\n' + ',\n'.join(entries) + '\n]\n\n'
                f'/-- converters of `{tag}` the extractor could not abstract (carried by the correspondence only) -/\n'
                + ''.join(f'-- skipped {q}: {why[:300]}\n' for q, why in skipped) +
                f'def aliasSkipped_{tag} : List String := [' + ', '.join(f'"{q}"' for q, _ in skipped) + ']')
        return text, span_sha(spans) + hashlib.sha256(repr(skipped).encode()).hexdigest()[:8]
    return build


ALIAS_FILES = {'content': 'content.py', 'seg_content': 'seg/content.py', 'seg_sop': 'seg/sop.py', 'ann_content': 'ann/content.py',
               'ann_sop': 'ann/sop.py', 'ko_content': 'ko/content.py', 'ko_sop': 'ko/sop.py', 'sr_coding': 'sr/coding.py',
               'sr_content': 'sr/content.py', 'sr_sop': 'sr/sop.py', 'sr_value_types': 'sr/value_types.py',
               'sr_templates': 'sr/templates.py', 'image': 'image.py'}
for _tag, _file in ALIAS_FILES.items():
    TARGETS[f'T20alias_{_tag}'] = {'file': _file, 'build': make_alias_target(_tag), 'imports': ['HdVerif.Model.Aliasing']}


# ----------------------------------------------------------------------------------------------- guard sites (T20sites)
GUARD_VR = {'_check_code_string': 'CS', '_check_short_string': 'SH', '_check_long_string': 'LO', '_check_short_text': 'ST',
            '_check_long_text': 'LT'}


def _names(e):
    return {n.id for n in ast.walk(e) if isinstance(n, ast.Name)}


def _guard_sites(tree):
    """(guard, argument text, keyword the guarded value is stored under | None, line) for every guard call of a module:
    the first later assignment `<obj>.<DICOM keyword> = <expression using the guarded variable>` in an enclosing block"""
    from pydicom.datadict import tag_for_keyword
    parents = {}
    for n in ast.walk(tree):
        for ch in ast.iter_child_nodes(n):
            parents[ch] = n
    out = []
    for n in ast.walk(tree):
        if not (isinstance(n, ast.Call) and isinstance(n.func, ast.Name) and n.func.id in GUARD_VR and n.args):
            continue
        vars_ = _names(n.args[0])
        st, found = n, None
        while st in parents and found is None:
            p = parents[st]
            if isinstance(p, ast.For) and st in p.body:
                vars_ |= _names(p.iter)            # the guarded loop variable ranges over this
            for field in ('body', 'orelse', 'finalbody'):
                blk = getattr(p, field, None)
                if isinstance(blk, list) and st in blk:
                    for later in blk[blk.index(st):]:
                        for a in ast.walk(later):
                            if isinstance(a, ast.Assign) and len(a.targets) == 1 and isinstance(a.targets[0], ast.Attribute) \
                                    and tag_for_keyword(a.targets[0].attr) is not None and (_names(a.value) & vars_):
                                found = a.targets[0].attr
                                break
                        if found:
                            break
            st = p
            if isinstance(p, ast.FunctionDef):
                break
        out.append((n.func.id, ast.unparse(n.args[0]), found, n.lineno))
    return out


def build_sites(_tree):
    """every call of a valuerep guard in the package, with the VR (pydicom dictionary) of the attribute the value goes to"""
    from pydicom.datadict import dictionary_VR, tag_for_keyword
    root = os.path.join(os.environ.get('HD_REPO', '/repo'), 'src', 'highdicom')
    rows, sig = [], []
    for dp, _, fs in sorted(os.walk(root)):
        for f in sorted(fs):
            if not f.endswith('.py') or f == 'valuerep.py':
                continue
            p = os.path.join(dp, f)
            rel = os.path.relpath(p, root)
            for g, arg, kw, ln in _guard_sites(ast.parse(open(p).read())):
                vr = dictionary_VR(tag_for_keyword(kw)) if kw else '?'
                rows.append(f'("{rel}: {g}({arg}) -> {kw}", "{GUARD_VR[g]}", "{vr}")')
                sig.append((rel, g, arg, kw, vr))
    if not rows:
        raise Unsupported('no guard call found in the package')
    text = ('/-- every place where a `valuerep` guard protects a value: (site, VR the guard checks, VR of the attribute the value\n'
            'is stored under according to the DICOM data dictionary) -/\n'
            'def guardSites : List (String × String × String) := [\n  ' + ',\n  '.join(rows) + '\n]')
    return text, hashlib.sha256(repr(sig).encode()).hexdigest()


TARGETS['T20sites'] = {'file': 'base.py', 'build': build_sites}


# ----------------------------------------------------------------------------------------------- constructors (T20ctor_*)
# internal machinery of image.py that is not a constructor / conversion of a DICOM object (pixel-transform planner, SQL table
# description, file entry point taking a path or file handle); mirrored by `excludedConstructors` in Model/AliasTables.lean
CTOR_EXCLUDE = {'_CombinedPixelTransform.__init__', '_SQLTableDefinition.__init__', '_Image.from_file'}


def _constructors(tree):
    out = []
    for node in tree.body:
        if isinstance(node, ast.ClassDef):
            for f in node.body:
                if f'{node.name}.{getattr(f, "name", "")}' in CTOR_EXCLUDE:
                    continue
                if isinstance(f, ast.FunctionDef) and (f.name == '__init__' or (
                        f.name.startswith('from_') and f.name not in ('from_dataset', 'from_sequence'))):
                    out.append((f'{node.name}.{f.name}', f))     # constructors proper and the alternative constructors
    return out


def make_ctor_target(tag):
    def build(tree):
        entries, skipped, spans, auxdefs = [], [], [], []
        for qual, fn in _constructors(tree):
            try:
                a = _with_context(_Alias(fn), tree, qual.split('.')[0])
                a.max_conds = CTOR_MAX_CONDS
                try:
                    prog = a.program()
                except Unsupported as e:
                    if 'relevant conditions' not in str(e):
                        raise
                    a = _with_context(_Alias(fn), tree, qual.split('.')[0])   # too many paths: merge the arms of its branches
                    a.max_conds = CTOR_MAX_CONDS
                    prog = a.program(merge_arms=True)
                    qual += ' (arms merged)'
                if a.unmodelled:
                    raise Unsupported('passes a reference to internal callees that are not modelled: ' + ', '.join(sorted(a.unmodelled)))
            except Unsupported as e:
                skipped.append((qual, str(e)))
                continue
            spans.append(fn)
            conds = '; '.join(f'{i}: {c}' for i, c in enumerate(a.cond_texts) if i)
            aux, term = _render_entry(qual, a.nparams, len(a.cond_texts), False, prog, _ident('c_' + tag, qual, len(entries)))
            auxdefs.append(aux)
            info = (f'inlined {len(a.inlined)} internal calls: {", ".join(sorted(set(a.inlined)))[:600]}; external callees given a '
                    f'reference (assumed read-only): {", ".join(sorted(a.external))[:600]}'
                    + (f'; shared objects as extra parameters: {", ".join(a.shared_names)}' if a.shared_names else ''))
            entries.append(f'  -- {qual}({", ".join(a.params)})   conditions: {conds[:1500]}\n  -- {info}\n  ' + term)
        if not entries and not skipped:
            raise Unsupported(f'no constructor found for {tag}')
        text = (''.join(auxdefs) + f'/-- alias-flow programs extracted from the constructors (`__init__`) of `{tag}`; `self` is a new object -/\n'
                f'def ctor_{tag} : List Aliasing.Entry := [\n' + ',\n'.join(entries) + '\n]\n\n'
                f'/-- constructors of `{tag}` beyond the extractor\'s limit of {MAX_CONDS - 1} relevant conditions (carried by the\n'
                f'correspondence only) -/\n'
                + ''.join(f'-- skipped {q}: {why[:300]}\n' for q, why in skipped) +
                f'def ctorSkipped_{tag} : List String := [' + ', '.join(f'"{q}"' for q, _ in skipped) + ']')
        return text, span_sha(spans) + hashlib.sha256(repr(skipped).encode()).hexdigest()[:8]
    return build


CTOR_FILES = {'base': 'base.py', 'content': 'content.py', 'seg_content': 'seg/content.py', 'seg_sop': 'seg/sop.py',
              'pm_content': 'pm/content.py', 'pm_sop': 'pm/sop.py', 'sc_sop': 'sc/sop.py', 'sr_coding': 'sr/coding.py',
              'sr_content': 'sr/content.py', 'sr_sop': 'sr/sop.py', 'sr_value_types': 'sr/value_types.py',
              'sr_templates': 'sr/templates.py', 'ko_content': 'ko/content.py', 'ko_sop': 'ko/sop.py',
              'ann_content': 'ann/content.py', 'ann_sop': 'ann/sop.py', 'pr_content': 'pr/content.py', 'pr_sop': 'pr/sop.py',
              'legacy_sop': 'legacy/sop.py', 'volume': 'volume.py', 'coding_schemes': 'coding_schemes.py', 'color': 'color.py',
              'image': 'image.py', 'io': 'io.py', 'spatial': 'spatial.py', 'sr_utils': 'sr/utils.py', 'uid': 'uid.py'}
for _tag, _file in CTOR_FILES.items():
    TARGETS[f'T20ctor_{_tag}'] = {'file': _file, 'build': make_ctor_target(_tag), 'imports': ['HdVerif.Model.Aliasing']}


# ----------------------------------------------------------------------------------------------- DS sites (T20ds)
def _classify_ds(node, fn, kw, depth=0):
    """how the right-hand side of an assignment to a DS attribute obtains its value:
    'formatted' (format_number_as_ds / DS(auto_format=True), element-wise for lists), 'copied' (the value of the same attribute
    of another data set, possibly deep-copied), 'constant' (a literal whose repr fits 16 characters), else 'raw'"""
    if isinstance(node, ast.Call):
        f = ast.unparse(node.func)
        if f.endswith('format_number_as_ds'):
            return 'formatted'
        if f in ('DS', 'pydicom.valuerep.DS', 'valuerep.DS') and any(
                k.arg == 'auto_format' and isinstance(k.value, ast.Constant) and k.value.value is True for k in node.keywords):
            return 'formatted'
        if f in ('deepcopy', 'copy.deepcopy', 'cast') and node.args:
            return _classify_ds(node.args[-1], fn, kw, depth)
        return 'raw'
    if isinstance(node, (ast.List, ast.Tuple)):
        kinds = {_classify_ds(e, fn, kw, depth) for e in node.elts}
        return kinds.pop() if len(kinds) == 1 else ('raw' if 'raw' in kinds else 'formatted')
    if isinstance(node, (ast.ListComp, ast.GeneratorExp)):
        return _classify_ds(node.elt, fn, kw, depth)
    if isinstance(node, ast.IfExp):
        kinds = {_classify_ds(node.body, fn, kw, depth), _classify_ds(node.orelse, fn, kw, depth)}
        return kinds.pop() if len(kinds) == 1 else ('raw' if 'raw' in kinds else 'formatted')
    if isinstance(node, ast.Attribute):
        return 'copied' if node.attr == kw else 'raw'
    if isinstance(node, ast.Subscript):
        return _classify_ds(node.value, fn, kw, depth)
    if isinstance(node, ast.Constant) and isinstance(node.value, (int, float)) and not isinstance(node.value, bool):
        return 'constant' if len(repr(node.value)) <= 16 else 'raw'
    if isinstance(node, ast.Name) and depth < 3 and fn is not None:
        kinds = set()
        for a in ast.walk(fn):
            if isinstance(a, ast.Assign) and any(isinstance(t, ast.Name) and t.id == node.id for t in a.targets):
                kinds.add(_classify_ds(a.value, fn, kw, depth + 1))
            elif isinstance(a, ast.Assign) and any(isinstance(t, (ast.Tuple, ast.List)) and any(
                    isinstance(el, ast.Name) and el.id == node.id for el in t.elts) for t in a.targets):
                # `x, y, z = (f(v) for v in ...)` / `x, y = a, b`: every component is obtained the way the elements are
                kinds.add(_classify_ds(a.value, fn, kw, depth + 1) if not isinstance(a.value, ast.Name) else 'raw')
        if kinds and 'raw' not in kinds:
            return kinds.pop() if len(kinds) == 1 else 'formatted'
        return 'raw'
    return 'raw'


def build_ds_sites(_tree):
    """every assignment `<obj>.<keyword> = <rhs>` of the package whose keyword has VR DS, with the way the value is obtained"""
    from pydicom.datadict import dictionary_VR, tag_for_keyword
    root = os.path.join(os.environ.get('HD_REPO', '/repo'), 'src', 'highdicom')
    rows, sig = [], []
    for dp, _, fs in sorted(os.walk(root)):
        for f in sorted(fs):
            if not f.endswith('.py'):
                continue
            p = os.path.join(dp, f)
            rel = os.path.relpath(p, root)
            tree = ast.parse(open(p).read())
            funcs = [n for n in ast.walk(tree) if isinstance(n, (ast.FunctionDef, ast.AsyncFunctionDef))]
            for fn in funcs:
                for a in ast.walk(fn):
                    if isinstance(a, ast.Assign) and len(a.targets) == 1 and isinstance(a.targets[0], ast.Attribute):
                        kw = a.targets[0].attr
                        tg = tag_for_keyword(kw)
                        if tg is None or dictionary_VR(tg) != 'DS':
                            continue
                        # the innermost function containing the statement
                        inner = [g for g in funcs if g is not fn and any(x is a for x in ast.walk(g)) and any(x is g for x in ast.walk(fn))]
                        if inner:
                            continue
                        kind = _classify_ds(a.value, fn, kw)
                        rows.append(f'("{rel}: {fn.name}: {kw}", "{kind}")')
                        sig.append((rel, fn.name, kw, kind, ast.unparse(a.value)))
                    elif isinstance(a, ast.Call) and ast.unparse(a.func).split('.')[-1] in ('DataElement', 'add_new') \
                            and len(a.args) >= 3 and isinstance(a.args[1], ast.Constant) and a.args[1].value == 'DS':
                        # an element built by hand: `DataElement(tag, 'DS', value)` / `ds.add_new(tag, 'DS', value)`
                        inner = [g for g in funcs if g is not fn and any(x is a for x in ast.walk(g)) and any(x is g for x in ast.walk(fn))]
                        if inner:
                            continue
                        kind = _classify_ds(a.args[2], fn, '')
                        rows.append(f'("{rel}: {fn.name}: {ast.unparse(a.func).split(".")[-1]}({ast.unparse(a.args[0])[:30]}, DS)", "{kind}")')
                        sig.append((rel, fn.name, 'element', kind, ast.unparse(a.args[2])))
    fl_rows = []
    for dp, _, fs in sorted(os.walk(root)):
        for f in sorted(fs):
            if not f.endswith('.py'):
                continue
            p = os.path.join(dp, f)
            rel = os.path.relpath(p, root)
            for a in ast.walk(ast.parse(open(p).read())):
                if isinstance(a, ast.Assign) and len(a.targets) == 1 and isinstance(a.targets[0], ast.Attribute):
                    kw = a.targets[0].attr
                    tg = tag_for_keyword(kw)
                    if tg is None or dictionary_VR(tg) != 'FL':
                        continue
                    rhs = ast.unparse(a.value)
                    # rounded to what the 32-bit element can hold: `x.astype(np.float32)...` or `float(np.float32(v))` per element
                    kind = 'rounded' if ('astype(np.float32)' in rhs or 'np.float32(' in rhs) else 'raw'
                    fl_rows.append(f'("{rel}: {kw}", "{kind}")')
                    sig.append((rel, kw, kind, rhs))
    if not rows:
        raise Unsupported('no assignment to a DS attribute found in the package')
    text = ('/-- every assignment to an attribute of value representation DS in the package: (site, how the value is obtained:\n'
            '`formatted` = through `format_number_as_ds` / `DS(auto_format=True)`, element by element for lists; `copied` = the value of the\n'
            'same attribute of another data set; `constant` = a literal of at most 16 characters; `raw` = anything else) -/\n'
            'def dsSites : List (String × String) := [\n  ' + ',\n  '.join(rows) + '\n]\n\n'
            '/-- every assignment to an attribute of value representation FL (32-bit float): `rounded` = the value passes through\n'
            '`np.float32` before it is stored (so the element holds what can be encoded), `raw` = anything else -/\n'
            'def flSites : List (String × String) := [\n  ' + ',\n  '.join(fl_rows) + '\n]')
    return text, hashlib.sha256(repr(sig).encode()).hexdigest()


TARGETS['T20ds'] = {'file': 'base.py', 'build': build_ds_sites}


# ----------------------------------------------------------------------------------------------- package coverage (T20pkg)
def build_pkg(_tree):
    """every converter and every constructor (incl. alternative constructors) defined by a class anywhere in the package, found by
    scanning all modules - independent of the file lists the alias tables are generated from"""
    root = os.path.join(os.environ.get('HD_REPO', '/repo'), 'src', 'highdicom')
    conv, ctor = [], []
    for dp, _, fs in sorted(os.walk(root)):
        for f in sorted(fs):
            if not f.endswith('.py'):
                continue
            tree = ast.parse(open(os.path.join(dp, f)).read())
            for node in tree.body:
                if isinstance(node, ast.ClassDef):
                    for m in node.body:
                        if isinstance(m, ast.FunctionDef):
                            if m.name in ('from_dataset', 'from_sequence', 'extract_from_dataset'):
                                conv.append(f'{node.name}.{m.name}')
                            elif m.name == '__init__' or m.name.startswith('from_'):
                                ctor.append(f'{node.name}.{m.name}')
    if not conv or not ctor:
        raise Unsupported('package scan found no converter / constructor')
    q = lambda xs: '[' + ',\n   '.join(f'"{x}"' for x in xs) + ']'  # noqa: E731
    text = ('/-- every `from_dataset` / `from_sequence` / `extract_from_dataset` a class of the package defines (scan of all modules) -/\n'
            f'def pkgConverters : List String :=\n  {q(conv)}\n\n'
            '/-- every `__init__` and alternative constructor (`from_*`) a class of the package defines (scan of all modules) -/\n'
            f'def pkgConstructors : List String :=\n  {q(ctor)}')
    return text, hashlib.sha256(repr((conv, ctor)).encode()).hexdigest()


TARGETS['T20pkg'] = {'file': 'base.py', 'build': build_pkg}


# ----------------------------------------------------------------------------------------------- converter call rules (T20calls)
def build_calls(_tree):
    """how converters are called inside the package (callee as written, the rule the alias extractor applies to the call), and the
    default of every converter's `copy` parameter - the extractor's call rules are only right if the callees behave like that"""
    root = os.path.join(os.environ.get('HD_REPO', '/repo'), 'src', 'highdicom')
    calls, defaults = set(), []
    for dp, _, fs in sorted(os.walk(root)):
        for f in sorted(fs):
            if not f.endswith('.py'):
                continue
            tree = ast.parse(open(os.path.join(dp, f)).read())
            for node in tree.body:
                if isinstance(node, ast.ClassDef):
                    for m in node.body:
                        if isinstance(m, ast.FunctionDef) and m.name in ('from_dataset', 'from_sequence'):
                            args = m.args.args + m.args.kwonlyargs
                            dflt = [None] * (len(m.args.args) - len(m.args.defaults)) + list(m.args.defaults) + list(m.args.kw_defaults)
                            for a, d in zip(args, dflt):
                                if a.arg == 'copy':
                                    ok = isinstance(d, ast.Constant) and d.value is True
                                    defaults.append((f'{node.name}.{m.name}', ok))
            for n in ast.walk(tree):
                if isinstance(n, ast.Call) and _Alias.is_converter(n) and n.args:
                    fname = ast.unparse(n.func)
                    ck = [k.value for k in n.keywords if k.arg == 'copy']
                    if fname in REBUILDERS:
                        rule = 'rebuild'
                    elif _Alias.is_converter(n) == 'private':
                        rule = 'private'
                    elif not ck:
                        rule = 'default'
                    elif isinstance(ck[0], ast.Constant) and ck[0].value is True:
                        rule = 'copy'
                    elif isinstance(ck[0], ast.Constant) and ck[0].value is False:
                        rule = 'inplace'
                    elif isinstance(ck[0], ast.Name) and ck[0].id == 'copy':
                        rule = 'flag'
                    else:
                        raise Unsupported(f'converter call with copy={ast.unparse(ck[0])}')
                    calls.add((fname, rule))
    if not calls or not defaults:
        raise Unsupported('no converter call / copy parameter found')
    text = ('/-- converter calls inside the package: (callee as written, rule of the alias extractor: `default` = no `copy` argument =>\n'
            'a new object, the argument untouched; `copy` = `copy=True`, same; `inplace` = `copy=False` => converted in place, the\n'
            'argument itself returned; `flag` = `copy=copy`, either; `rebuild` = a new container around the items, converted in place unless\n'
            'copied; `private` = an in-place helper) -/\n'
            'def converterCalls : List (String × String) := [\n  '
            + ',\n  '.join(f'("{c}", "{r}")' for c, r in sorted(calls)) + '\n]\n\n'
            '/-- every converter with a `copy` parameter: is its default `True` -/\n'
            'def converterCopyDefaults : List (String × Bool) := [\n  '
            + ',\n  '.join(f'("{c}", {"true" if d else "false"})' for c, d in defaults) + '\n]')
    return text, hashlib.sha256(repr((sorted(calls), defaults)).encode()).hexdigest()


TARGETS['T20calls'] = {'file': 'base.py', 'build': build_calls}


# ----------------------------------------------------------------------------------------------- pydicom's own rules (T20pyd)
PYD_VRS = ['CS', 'SH', 'LO', 'ST', 'LT', 'UI', 'PN']


def build_pyd(_tree):
    """pydicom's validation rule table for the text VRs the guards protect, regenerated from the *installed* pydicom's
    `valuerep.py` (MAX_VALUE_LEN, the validator function each VR is checked by, the CS regular expression, the shape of
    `validate_regex`).  Tie: the guards of highdicom are proved to accept only what these rules accept."""
    import pydicom.valuerep as pv
    src = open(pv.__file__).read()
    tree = ast.parse(src)
    tables = {}
    for node in tree.body:
        tgt = None
        if isinstance(node, ast.Assign) and len(node.targets) == 1 and isinstance(node.targets[0], ast.Name):
            tgt, val = node.targets[0].id, node.value
        elif isinstance(node, ast.AnnAssign) and isinstance(node.target, ast.Name) and node.value is not None:
            tgt, val = node.target.id, node.value
        if tgt in ('MAX_VALUE_LEN', 'VR_REGEXES', 'VALIDATORS') and isinstance(val, ast.Dict):
            tables[tgt] = val
    for need in ('MAX_VALUE_LEN', 'VR_REGEXES', 'VALIDATORS'):
        if need not in tables:
            raise Unsupported(f'pydicom.valuerep: table {need} not found as a dict literal')

    def entries(d):
        out = {}
        for k, v in zip(d.keys, d.values):
            if isinstance(k, ast.Constant) and isinstance(k.value, str):
                out[k.value] = v
        return out
    maxlen = {}
    for k, v in entries(tables['MAX_VALUE_LEN']).items():
        if not (isinstance(v, ast.Constant) and isinstance(v.value, int)):
            raise Unsupported(f'pydicom MAX_VALUE_LEN[{k}] is not an int literal')
        maxlen[k] = v.value
    regs = entries(tables['VR_REGEXES'])
    if 'CS' not in regs or not _str_const(regs['CS']):
        raise Unsupported('pydicom VR_REGEXES["CS"] is not a string literal')
    cs_re = re_to_lean(regs['CS'].value, True)
    vals = entries(tables['VALIDATORS'])
    kinds = []
    for vr in PYD_VRS:
        v = vals.get(vr)
        if v is None:
            kinds.append((vr, 'none'))
        elif isinstance(v, ast.Name):
            kinds.append((vr, v.id))
        else:
            kinds.append((vr, 'other'))
    # the shape of validate_vr_length / validate_regex the model mirrors
    fn = find_func(tree, 'validate_regex')
    text_fn = ast.unparse(fn)
    if 're.match(regex, value)' not in text_fn or 'value[-1] == newline' not in text_fn or 'if value:' not in text_fn:
        raise Unsupported('pydicom.valuerep.validate_regex changed shape')
    fl = find_func(tree, 'validate_vr_length')
    text_fl = ast.unparse(fl)
    if 'MAX_VALUE_LEN.get(vr, 0)' not in text_fl or 'value_length > max_length' not in text_fl or 'len(value)' not in text_fl:
        raise Unsupported('pydicom.valuerep.validate_vr_length changed shape')
    for name, must in (('validate_type_and_length', ['validate_vr_length(vr, value)']),
                       ('validate_length_and_type_and_regex', ['validate_vr_length(vr, value)', 'validate_regex(vr, value)',
                                                               'is_valid_len and is_valid_expr'])):
        t = ast.unparse(find_func(tree, name))
        if any(m not in t for m in must):
            raise Unsupported(f'pydicom.valuerep.{name} changed shape')
    text = ('/-- `pydicom.valuerep.MAX_VALUE_LEN` of the installed pydicom -/\n'
            'def pydMaxLen : List (String × Nat) := [' + ', '.join(f'("{k}", {v})' for k, v in sorted(maxlen.items())) + ']\n\n'
            '/-- which function of `pydicom.valuerep.VALIDATORS` checks a value of the VR -/\n'
            'def pydValidators : List (String × String) := [' + ', '.join(f'("{k}", "{v}")' for k, v in kinds) + ']\n\n'
            f'/-- `pydicom.valuerep.VR_REGEXES["CS"]` = `{regs["CS"].value}` (applied with `re.match`) -/\n'
            f'def pydRegexCS : VR.Re := {cs_re}')
    return text, hashlib.sha256(repr((sorted(maxlen.items()), kinds, regs['CS'].value, text_fn, text_fl)).encode()).hexdigest()


TARGETS['T20pyd'] = {'file': 'valuerep.py', 'build': build_pyd, 'imports': ['HdVerif.Model.VR']}


# ----------------------------------------------------------------------------------------------- state shared between calls (T20shared)
_IMMUTABLE_CALLS = {'tuple', 'frozenset', 'UID', 'Fraction', 'Decimal', 'str', 'int', 'float', 'bool', 'bytes', 'namedtuple',
                    'TypeVar', 'getLogger', 'logging.getLogger', 're.compile', 'property', 'staticmethod', 'classmethod', 'field'}


def _immutable_value(d):
    if isinstance(d, (ast.Constant, ast.Name, ast.Attribute, ast.Lambda, ast.JoinedStr)):
        return True
    if isinstance(d, ast.UnaryOp):
        return _immutable_value(d.operand)
    if isinstance(d, ast.BinOp):
        return _immutable_value(d.left) and _immutable_value(d.right)
    if isinstance(d, ast.Tuple):
        return all(_immutable_value(e) for e in d.elts)
    if isinstance(d, ast.Call):
        return ast.unparse(d.func) in _IMMUTABLE_CALLS and all(_immutable_value(a) for a in d.args)
    return False


def _mutated_names(fn):
    """names `x` such that the body of `fn` mutates `x` / `self.x` / `cls.x` / `C.x` in place: item or attribute assignment on it,
    augmented assignment of an item, a mutating method call, `del x[...]`; -> set of (qualifier | None, name)"""
    out = set()

    def base(n):
        if isinstance(n, ast.Name):
            return (None, n.id)
        if isinstance(n, ast.Attribute) and isinstance(n.value, ast.Name):
            return (n.value.id, n.attr)
        return None
    for n in ast.walk(fn):
        tgts = []
        if isinstance(n, ast.Assign):
            tgts = n.targets
        elif isinstance(n, (ast.AugAssign, ast.AnnAssign)):
            tgts = [n.target]
        elif isinstance(n, ast.Delete):
            tgts = n.targets
        for t in tgts:
            for el in (t.elts if isinstance(t, (ast.Tuple, ast.List)) else [t]):
                if isinstance(el, (ast.Subscript, ast.Attribute)) and base(el.value) is not None and \
                        not (isinstance(el, ast.Attribute) and isinstance(el.value, ast.Name) and el.value.id in ('self', 'cls')):
                    out.add(base(el.value))
                if isinstance(n, ast.AugAssign) and base(el) is not None and isinstance(el, ast.Attribute):
                    out.add(base(el))
        if isinstance(n, ast.Call) and isinstance(n.func, ast.Attribute) and n.func.attr in MUTATORS and base(n.func.value) is not None:
            out.add(base(n.func.value))
    return out


def build_shared(_tree):
    """objects that outlive one call and could carry state from one construction into the next: mutable default arguments,
    mutable class attributes, mutable module globals - with whether any function of the package mutates them in place"""
    root = os.path.join(os.environ.get('HD_REPO', '/repo'), 'src', 'highdicom')
    defaults, state = [], []
    nfun = 0
    for dp, _, fs in sorted(os.walk(root)):
        for f in sorted(fs):
            if not f.endswith('.py'):
                continue
            rel = os.path.relpath(os.path.join(dp, f), root)
            tree = ast.parse(open(os.path.join(dp, f)).read())
            funcs = [n for n in ast.walk(tree) if isinstance(n, (ast.FunctionDef, ast.AsyncFunctionDef))]
            nfun += len(funcs)
            mutated = set()
            for fn in funcs:
                mutated |= _mutated_names(fn)
                args = fn.args.posonlyargs + fn.args.args
                dflt = [None] * (len(args) - len(fn.args.defaults)) + list(fn.args.defaults)
                for a, d in list(zip(args, dflt)) + list(zip(fn.args.kwonlyargs, fn.args.kw_defaults)):
                    if d is not None and not _immutable_value(d):
                        defaults.append((f'{rel}: {fn.name}', a.arg))
            for node in tree.body:
                holders = [(None, node)] if isinstance(node, (ast.Assign, ast.AnnAssign)) else (
                    [(node.name, st) for st in node.body if isinstance(st, (ast.Assign, ast.AnnAssign))]
                    if isinstance(node, ast.ClassDef) else [])
                for cls, st in holders:
                    val = st.value
                    tg = st.targets[0] if isinstance(st, ast.Assign) else st.target
                    if val is None or not isinstance(tg, ast.Name) or _immutable_value(val):
                        continue
                    if tg.id == '__all__' or (tg.id.isupper() and cls is None and isinstance(val, ast.Call)
                                               and ast.unparse(val.func) in ('TypeVar',)):
                        continue
                    name = tg.id
                    hit = any(nm == name and (q is None if cls is None else q in ('self', 'cls', cls)) for q, nm in mutated)
                    state.append((f'{rel}: {cls + "." if cls else ""}{name}', 'mutated' if hit else 'constant'))
    if nfun < 300:
        raise Unsupported(f'package scan found only {nfun} functions')
    text = ('/-- parameters whose default value is a mutable object (evaluated once, shared by all calls): (function, parameter) -/\n'
            'def mutableDefaults : List (String × String) := [' + ', '.join(f'("{a}", "{b}")' for a, b in defaults) + ']\n\n'
            '/-- mutable objects that outlive a call (class attributes, module globals built from list / dict / set / call\n'
            'expressions): (where, `mutated` if some function of the module changes it in place, else `constant`) -/\n'
            'def sharedState : List (String × String) := [\n  ' + ',\n  '.join(f'("{a}", "{b}")' for a, b in state) + '\n]\n\n'
            f'/-- number of function definitions the scan looked at -/\ndef sharedScanFunctions : Nat := {nfun}')
    return text, hashlib.sha256(repr((defaults, state, nfun)).encode()).hexdigest()


TARGETS['T20shared'] = {'file': 'base.py', 'build': build_shared}


# ----------------------------------------------------------------------------------------------- negative tests of the extractor (T20neg)
def _corpus_entry(prelude, body, name, ident):
    """-> ('entry', aux, term) | ('refused', reason)"""
    import textwrap
    src = prelude % textwrap.indent(body, ' ' * 8)
    tree = ast.parse(src)
    cls = [n for n in tree.body if isinstance(n, ast.ClassDef) and n.name == 'K'][0]
    fn = cls.body[0]
    try:
        a = _with_context(_Alias(fn), tree, 'K')
        a.max_conds = CTOR_MAX_CONDS
        try:
            prog = a.program()
        except Unsupported as e:
            if 'relevant conditions' not in str(e):
                raise
            a = _with_context(_Alias(fn), tree, 'K')
            a.max_conds = CTOR_MAX_CONDS
            prog = a.program(merge_arms=True)
        if a.unmodelled:
            raise Unsupported('passes a reference to internal callees that are not modelled: ' + ', '.join(sorted(a.unmodelled)))
    except Unsupported as e:
        return ('refused', str(e))
    aux, term = _render_entry(name, a.nparams, len(a.cond_texts), False, prog, ident)
    return ('entry', aux, term)


def build_neg(_tree):
    """the corpus of synthetic constructors (translate/tests_C20/corpus.py) through the extractor as it stands"""
    import importlib.util
    path = os.path.join(os.path.dirname(os.path.abspath(__file__)), 'tests_C20', 'corpus.py')
    spec = importlib.util.spec_from_file_location('c20_corpus', path)
    mod = importlib.util.module_from_spec(spec)
    spec.loader.exec_module(mod)
    _PKG.clear()          # the corpus is extracted against the package as it stands
    auxs, neg, refused, twins, twin_refused = [], [], [], [], []
    for k, (name, body) in enumerate(mod.WRITERS.items()):
        r = _corpus_entry(mod.PRELUDE, body, name, f'prog_neg_{k}')
        if r[0] == 'refused':
            refused.append((name, r[1]))
        else:
            auxs.append(r[1])
            neg.append(f'  -- {body!r}\n  ' + r[2])
    for k, (name, body) in enumerate(mod.TWINS.items()):
        r = _corpus_entry(mod.PRELUDE, body, name, f'prog_twin_{k}')
        if r[0] == 'refused':
            twin_refused.append((name, r[1]))
        else:
            auxs.append(r[1])
            twins.append(f'  -- {body!r}\n  ' + r[2])
    if len(neg) + len(refused) < 100:
        raise Unsupported('corpus of writing constructors is missing or too small')
    text = (''.join(auxs) + '/-- constructors that WRITE an argument (translate/tests_C20/corpus.py: WRITERS), as the extractor abstracts them -/\n'
            'def negCorpus : List Aliasing.Entry := [\n' + ',\n'.join(neg) + '\n]\n\n'
            '/-- writing constructors the extractor refuses to abstract (they would land on the skipped list) -/\n'
            + ''.join(f'-- refused {n}: {why[:200]}\n' for n, why in refused) +
            'def negRefused : List String := [' + ', '.join(f'"{n}"' for n, _ in refused) + ']\n\n'
            '/-- constructors that write nothing the caller can see (TWINS), as the extractor abstracts them -/\n'
            'def twinCorpus : List Aliasing.Entry := [\n' + ',\n'.join(twins) + '\n]\n\n'
            '/-- twins the extractor refuses (must be none) -/\n'
            + ''.join(f'-- refused {n}: {why[:200]}\n' for n, why in twin_refused) +
            'def twinRefused : List String := [' + ', '.join(f'"{n}"' for n, _ in twin_refused) + ']')
    return text, hashlib.sha256(text.encode()).hexdigest()


TARGETS['T20neg'] = {'file': 'base.py', 'build': build_neg, 'imports': ['HdVerif.Model.Aliasing']}
