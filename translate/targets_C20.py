"""Translation targets of C20 (tie T).

T20vr     valuerep.py string guards: the `if <test>: raise` chains, with the regular-expression literals parsed
          into the `HdVerif.VR.Re` fragment (anything outside the fragment => Unsupported => TRANSLATION-BROKEN)
T20uid    uid.py: the root literal of `UID.from_uuid`'s f-string and the prefix literal of `UID.__new__`
T20alias  the copy-or-alias data flow of every `from_dataset` / `from_sequence` converter and of
          `Segmentation._get_segment_pixel_array` as programs of `HdVerif.Aliasing` (see build_alias)
"""
from __future__ import annotations

import ast
import hashlib
import os

from py2lean import Unsupported, find_func, span_sha, strip_doc

ERR = {'ValueError': 'value', 'TypeError': 'type', 'IndexError': 'index', 'KeyError': 'key', 'RuntimeError': 'runtime',
       'AttributeError': 'attribute'}


# ----------------------------------------------------------------------------------------------- regex fragment
class _ReParser:
    """pattern string -> list of atoms ('rep', neg, ranges, lo, hi|None) | ('eol',) | ('eos',)"""

    def __init__(self, pat):
        self.p = pat
        self.i = 0

    def peek(self):
        return self.p[self.i] if self.i < len(self.p) else None

    def take(self):
        c = self.peek()
        if c is None:
            raise Unsupported(f'regex {self.p!r}: unexpected end')
        self.i += 1
        return c

    def escape(self, in_class):
        c = self.take()
        if c == 'x':
            h = self.take() + self.take()
            return ('chr', int(h, 16))
        if c in 'nrtfv':
            return ('chr', {'n': 10, 'r': 13, 't': 9, 'f': 12, 'v': 11}[c])
        if c == 'd':
            return ('set', [(48, 57)])
        if c == 'Z' and not in_class:
            return ('eos',)
        if c in '\\.^$*+?{}[]()|-/ _"\'':
            return ('chr', ord(c))
        raise Unsupported(f'regex {self.p!r}: escape \\{c} outside the fragment')

    def klass(self):
        neg = False
        if self.peek() == '^':
            self.take()
            neg = True
        ranges = []
        first = True
        while True:
            c = self.take()
            if c == ']' and not first:
                break
            first = False
            if c == '\\':
                e = self.escape(True)
                if e[0] == 'set':
                    ranges += e[1]
                    continue
                lo = e[1]
            else:
                lo = ord(c)
            if self.peek() == '-' and self.i + 1 < len(self.p) and self.p[self.i + 1] != ']':
                self.take()
                c2 = self.take()
                if c2 == '\\':
                    e = self.escape(True)
                    if e[0] != 'chr':
                        raise Unsupported(f'regex {self.p!r}: bad range')
                    hi = e[1]
                else:
                    hi = ord(c2)
                if hi < lo:
                    raise Unsupported(f'regex {self.p!r}: bad range')
                ranges.append((lo, hi))
            else:
                ranges.append((lo, lo))
        return neg, ranges

    def quant(self):
        c = self.peek()
        if c == '*':
            self.take()
            q = (0, None)
        elif c == '+':
            self.take()
            q = (1, None)
        elif c == '?':
            self.take()
            q = (0, 1)
        elif c == '{':
            j = self.p.index('}', self.i)
            body = self.p[self.i + 1:j]
            self.i = j + 1
            if ',' in body:
                a, b = body.split(',')
                q = (int(a or 0), int(b) if b.strip() else None)
            else:
                q = (int(body), int(body))
        else:
            return (1, 1)
        if self.peek() in ('?', '+'):
            raise Unsupported(f'regex {self.p!r}: lazy/possessive quantifier')
        return q

    def parse(self):
        atoms = []
        if self.peek() == '^':       # re.match / fullmatch are anchored anyway; for search it is not in the fragment
            self.take()
            atoms.append(('bol',))
        while self.peek() is not None:
            c = self.take()
            if c == '[':
                neg, ranges = self.klass()
                lo, hi = self.quant()
                atoms.append(('rep', neg, ranges, lo, hi))
            elif c == '.':
                lo, hi = self.quant()
                atoms.append(('rep', True, [(10, 10)], lo, hi))
            elif c == '$':
                atoms.append(('eol',))
            elif c == '\\':
                e = self.escape(False)
                if e[0] == 'eos':
                    atoms.append(('eos',))
                else:
                    ranges = e[1] if e[0] == 'set' else [(e[1], e[1])]
                    lo, hi = self.quant()
                    atoms.append(('rep', False, ranges, lo, hi))
            elif c in '()|*+?{}^':
                raise Unsupported(f'regex {self.p!r}: construct {c!r} outside the fragment')
            else:
                lo, hi = self.quant()
                atoms.append(('rep', False, [(ord(c), ord(c))], lo, hi))
        return atoms


def _canon_ranges(ranges):
    """sorted, overlapping / adjacent ranges merged: the class as a set, independent of how it is spelt"""
    out = []
    for lo, hi in sorted(ranges):
        if out and lo <= out[-1][1] + 1:
            out[-1] = (out[-1][0], max(out[-1][1], hi))
        else:
            out.append((lo, hi))
    return out


def re_to_lean(pat, allow_bol):
    atoms = _ReParser(pat).parse()
    out = []
    for k, a in enumerate(atoms):
        if a[0] == 'bol':
            if not allow_bol or k != 0:
                raise Unsupported(f'regex {pat!r}: ^ not supported here')
            continue
        if a[0] == 'eol':
            out.append('.eol')
        elif a[0] == 'eos':
            out.append('.eos')
        else:
            _, neg, ranges, lo, hi = a
            ranges = _canon_ranges(ranges)
            rs = ', '.join(f'({x}, {y})' for x, y in ranges)
            out.append(f".rep ⟨{'true' if neg else 'false'}, [{rs}]⟩ {lo} {'none' if hi is None else f'(some {hi})'}")
    return '[' + ', '.join(out) + ']'


# ----------------------------------------------------------------------------------------------- guard conditions
def _str_const(node):
    return isinstance(node, ast.Constant) and isinstance(node.value, str)


def cond_to_lean(test, var):
    """Python test over the single string parameter `var` -> Lean Bool term over `(s : List Char)`."""
    if isinstance(test, ast.BoolOp):
        op = ' && ' if isinstance(test.op, ast.And) else ' || '
        return '(' + op.join(cond_to_lean(v, var) for v in test.values) + ')'
    if isinstance(test, ast.UnaryOp) and isinstance(test.op, ast.Not):
        return f'(!{cond_to_lean(test.operand, var)})'
    if isinstance(test, ast.Compare) and len(test.ops) == 1:
        left, op, right = test.left, test.ops[0], test.comparators[0]
        # re.match(...) is None / is not None
        if isinstance(op, (ast.Is, ast.IsNot)) and isinstance(right, ast.Constant) and right.value is None \
                and isinstance(left, ast.Call) and ast.unparse(left.func) in ('re.match', 're.fullmatch', 're.search'):
            if len(left.args) != 2 or left.keywords or not _str_const(left.args[0]) \
                    or not (isinstance(left.args[1], ast.Name) and left.args[1].id == var):
                raise Unsupported(f'regex call outside the fragment: {ast.unparse(left)}')
            fn = {'re.match': 'reMatch', 're.fullmatch': 'reFullmatch', 're.search': 'reSearch'}[ast.unparse(left.func)]
            pat = re_to_lean(left.args[0].value, allow_bol=fn != 'reSearch')
            t = f'(VR.{fn} {pat} s)'
            return f'(!{t})' if isinstance(op, ast.Is) else t
        # len(s) <op> N
        if isinstance(left, ast.Call) and ast.unparse(left.func) == 'len' and len(left.args) == 1 \
                and isinstance(left.args[0], ast.Name) and left.args[0].id == var \
                and isinstance(right, ast.Constant) and isinstance(right.value, int):
            sym = {ast.Gt: '>', ast.GtE: '≥', ast.Lt: '<', ast.LtE: '≤', ast.Eq: '=', ast.NotEq: '≠'}.get(type(op))
            if sym is None:
                raise Unsupported(f'comparison outside the fragment: {ast.unparse(test)}')
            return f'(decide (s.length {sym} {right.value}))'
        # 'c' in s / 'c' not in s
        if isinstance(op, (ast.In, ast.NotIn)) and _str_const(left) and len(left.value) == 1 \
                and isinstance(right, ast.Name) and right.id == var:
            t = f'(s.contains (Char.ofNat {ord(left.value)}))'
            return t if isinstance(op, ast.In) else f'(!{t})'
        # s == '' / s != ''
        if isinstance(op, (ast.Eq, ast.NotEq)) and isinstance(left, ast.Name) and left.id == var and _str_const(right) \
                and right.value == '':
            return '(s.isEmpty)' if isinstance(op, ast.Eq) else '(!s.isEmpty)'
    raise Unsupported(f'guard condition outside the fragment: {ast.unparse(test)}')


def guard_to_lean(fn, lean_name, var, doc):
    """A guard is a chain of `if <test>: raise E(...)`; an `isinstance(var, str)` test is dropped (the model is typed)."""
    body = strip_doc(fn.body)
    lines = []
    kept = []
    for st in body:
        if not isinstance(st, ast.If) or st.orelse or len(st.body) != 1 or not isinstance(st.body[0], ast.Raise):
            raise Unsupported(f'{fn.name}: statement outside the guard fragment: {ast.unparse(st)[:80]}')
        exc = st.body[0].exc
        ename = exc.func.id if isinstance(exc, ast.Call) and isinstance(exc.func, ast.Name) else None
        if ename not in ERR:
            raise Unsupported(f'{fn.name}: raise of {ast.unparse(exc)[:40]}')
        if ast.unparse(st.test) in (f'not isinstance({var}, str)',):
            kept.append(st)
            continue
        lines.append(f'  if {cond_to_lean(st.test, var)} then .error .{ERR[ename]} else')
        kept.append(st)
    if not lines:
        raise Unsupported(f'{fn.name}: no guard left')
    text = f'/-- {doc} -/\ndef {lean_name} (s : List Char) : Except ErrKind Unit :=\n' + '\n'.join(lines) + '\n  .ok ()'
    return text, kept


GUARDS = [('_check_code_string', 'checkCodeString', 'value'), ('_check_short_string', 'checkShortString', 's'),
          ('_check_long_string', 'checkLongString', 's'), ('_check_short_text', 'checkShortText', 's'),
          ('_check_long_text', 'checkLongText', 's')]


def build_vr(tree):
    texts, spans = [], []
    for py, lean, var in GUARDS:
        fn = find_func(tree, py)
        args = [a.arg for a in fn.args.args]
        if args != [var]:
            raise Unsupported(f'{py}: signature changed to {args}')
        t, kept = guard_to_lean(fn, lean, var, f'`valuerep.{py}` (whole body; `isinstance` test dropped, the model is typed)')
        texts.append(t)
        spans += kept
    # check_person_name: the condition under which the warning is issued (it never refuses a str)
    fn = find_func(tree, 'check_person_name')
    warn_if = None
    for st in strip_doc(fn.body):
        if isinstance(st, ast.If) and any(isinstance(n, ast.Call) and ast.unparse(n.func) == 'warnings.warn' for n in ast.walk(st)):
            warn_if = st
        elif isinstance(st, ast.If):
            for n in ast.walk(st):
                if isinstance(n, ast.Raise) and 'isinstance' not in ast.unparse(st.test):
                    raise Unsupported('check_person_name: a refusal that is not the type test appeared')
    if warn_if is None:
        raise Unsupported('check_person_name: warning branch not found')
    texts.append('/-- `valuerep.check_person_name`: the condition under which it warns (it refuses no `str`) -/\n'
                 f'def personNameWarns (s : List Char) : Bool :=\n  {cond_to_lean(warn_if.test, "person_name")}')
    spans.append(warn_if.test)
    return '\n\n'.join(texts), span_sha(spans)


# ----------------------------------------------------------------------------------------------- uid.py
def build_uid(tree):
    fn = find_func(tree, 'UID.from_uuid')
    root = None
    for n in ast.walk(fn):
        if isinstance(n, ast.JoinedStr):
            vals = n.values
            if len(vals) == 2 and _str_const(vals[0]) and isinstance(vals[1], ast.FormattedValue) \
                    and ast.unparse(vals[1].value) == 'UUID(uuid).int' and vals[1].conversion == -1 \
                    and vals[1].format_spec is None:
                root = vals[0].value
            else:
                raise Unsupported(f'UID.from_uuid: f-string shape changed: {ast.unparse(n)}')
    if root is None:
        raise Unsupported('UID.from_uuid: f-string not found')
    new = find_func(tree, 'UID.__new__')
    prefix = None
    gen_ok = False
    for n in ast.walk(new):
        if isinstance(n, ast.Assign) and ast.unparse(n.targets[0]) == 'prefix' and _str_const(n.value):
            prefix = n.value.value
        if isinstance(n, ast.Call) and ast.unparse(n.func) == 'pydicom.uid.generate_uid':
            if len(n.args) == 0 and len(n.keywords) == 1 and n.keywords[0].arg == 'prefix' \
                    and ast.unparse(n.keywords[0].value) == 'prefix':
                gen_ok = True
            else:
                raise Unsupported(f'UID.__new__: generate_uid call changed: {ast.unparse(n)}')
    if prefix is None or not gen_ok:
        raise Unsupported('UID.__new__: prefix literal / generate_uid(prefix=prefix) not found')
    q = lambda s: '"' + s.replace('\\', '\\\\').replace('"', '\\"') + '"'  # noqa: E731
    text = ('/-- root of `UID.from_uuid`: the literal part of its f-string `f\'<root>{UUID(uuid).int}\'` -/\n'
            f'def uuidRoot : String := {q(root)}\n\n'
            '/-- prefix literal handed to `pydicom.uid.generate_uid(prefix=prefix)` by `UID.__new__` -/\n'
            f'def defaultPrefix : String := {q(prefix)}')
    return text, span_sha(strip_doc(fn.body) + strip_doc(new.body))


TARGETS = {
    'T20vr': {'file': 'valuerep.py', 'build': build_vr, 'imports': ['HdVerif.Model.VR']},
    'T20uid': {'file': 'uid.py', 'build': build_uid},
}
