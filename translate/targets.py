"""Translation targets (tie T).  Each target builds Lean text from the *current* AST of one
source file.  `build(tree) -> (lean_text, sha256 of the translated source span)`.

A selector that no longer finds its block raises Unsupported => TRANSLATION-BROKEN.
"""
from __future__ import annotations

import ast
import hashlib

from py2lean import (Unsupported, find_func, span_sha, strip_doc,
                     translate_block)


# ---------------------------------------------------------------- selector helpers
def assigns_to(fn, names):
    """All assignment statements (in source order) inside `fn` whose targets are exactly
    names from `names` (tuple targets allowed)."""
    out = []
    for node in ast.walk(fn):
        if isinstance(node, ast.Assign) and len(node.targets) == 1:
            t = node.targets[0]
            tn = [t.id] if isinstance(t, ast.Name) else (
                [e.id for e in t.elts if isinstance(e, ast.Name)] if isinstance(t, ast.Tuple) else [])
            if tn and all(n in names for n in tn):
                out.append(node)
    out.sort(key=lambda n: (n.lineno, n.col_offset))
    found = set()
    for n in out:
        t = n.targets[0]
        found |= {t.id} if isinstance(t, ast.Name) else {e.id for e in t.elts}
    missing = set(names) - found
    if missing:
        raise Unsupported(f'assignments to {sorted(missing)} not found in {fn.name}')
    return out


def find_if(fn, needle):
    for node in ast.walk(fn):
        if isinstance(node, ast.If) and needle in ast.unparse(node.test):
            return node
    raise Unsupported(f'if-statement testing {needle!r} not found in {fn.name}')


def ret_tuple(names):
    return ast.parse('return (' + ', '.join(names) + ',)').body[0] if len(names) == 1 else \
        ast.parse('return (' + ', '.join(names) + ')').body[0]


def rewrite_returns(stmts, f):
    class R(ast.NodeTransformer):
        def visit_Return(self, node):
            return f(node)
    return [R().visit(s) for s in stmts]


def whole(qual, lean_name, params, attrs=None, doc=''):
    def build(tree):
        fn = find_func(tree, qual)
        body = strip_doc(fn.body)
        # signature check: every declared parameter must still exist
        have = {a.arg for a in fn.args.args + fn.args.kwonlyargs}
        for p, _ in params:
            if p not in have:
                raise Unsupported(f'parameter {p} no longer in {qual}')
        text = translate_block(body, lean_name, params, attrs or {}, doc=doc or f'`{qual}` (whole body)')
        return text, span_sha(body)
    return build


# ---------------------------------------------------------------- individual targets
def build_T4(tree):
    """native byte-range block of `_Image.get_raw_frame` -> (start, end)"""
    fn = find_func(tree, '_Image.get_raw_frame')
    iff = find_if(fn, 'is_encapsulated')
    block = iff.orelse
    if not block:
        raise Unsupported('native branch of get_raw_frame not found')

    def rr(node):
        v = node.value
        if isinstance(v, ast.Subscript) and isinstance(v.slice, ast.Slice) and ast.unparse(v.value) == 'self.PixelData':
            return ast.copy_location(ast.Return(value=ast.Tuple(elts=[v.slice.lower, v.slice.upper], ctx=ast.Load())), node)
        raise Unsupported('return of get_raw_frame native branch is not self.PixelData[a:b]')
    block2 = rewrite_returns([ast.parse(ast.unparse(s)).body[0] for s in block], rr)
    for s in block2:
        ast.fix_missing_locations(s)
    attrs = {
        'self.Rows': ('int', 'rows'), 'self.Columns': ('int', 'columns'),
        'self.SamplesPerPixel': ('int', 'samples'), 'self.BitsAllocated': ('int', 'bitsAllocated'),
        'self.PhotometricInterpretation': ('str', 'photometric'),
    }
    text = translate_block(block2, 'rawFrameRange', [('frame_index', 'int')], attrs,
                           doc='native branch of `_Image.get_raw_frame`: byte range `PixelData[start:end]` of frame `frame_index`')
    return text, span_sha(block)


def build_T12(tree):
    """`decode_frame`: bit offset of a native 1-bit frame inside its byte range"""
    fn = find_func(tree, 'decode_frame')
    iff = find_if(fn, 'bits_allocated == 1')
    stmts = [s for s in iff.body if isinstance(s, ast.Assign) and
             isinstance(s.targets[0], ast.Name) and s.targets[0].id in ('n_pixels', 'pixel_offset')]
    if len(stmts) != 2:
        raise Unsupported('n_pixels / pixel_offset assignments not found in decode_frame')
    # the slice actually taken
    sl = None
    for s in iff.body:
        if isinstance(s, ast.Assign) and isinstance(s.value, ast.Subscript) and isinstance(s.value.slice, ast.Slice) \
                and ast.unparse(s.value.value) == 'unpacked_frame':
            sl = s.value.slice
    if sl is None:
        raise Unsupported('unpacked_frame[a:b] not found in decode_frame')
    ret = ast.Return(value=ast.Tuple(elts=[sl.lower, sl.upper], ctx=ast.Load()))
    block = stmts + [ret]
    for s in block:
        ast.fix_missing_locations(s)
    text = translate_block(block, 'bitSlice',
                           [('index', 'int'), ('rows', 'int'), ('columns', 'int'), ('samples_per_pixel', 'int')], {},
                           doc='`decode_frame` 1-bit native branch: the slice `unpacked_frame[lo:hi]` that is taken')
    return text, span_sha(stmts) + hashlib.sha256(ast.unparse(sl).encode()).hexdigest()[:8]


def build_T11(tree):
    """io.ImageFileReader: bytes per uncompressed frame and the index guard of read_frame_raw"""
    cls = 'ImageFileReader'
    fn = find_func(tree, f'{cls}._bytes_per_frame_uncompressed')
    body = strip_doc(fn.body)
    attrs = {
        'self._pixels_per_frame': ('int', 'pixelsPerFrame'),
        'self.metadata.BitsAllocated': ('int', 'bitsAllocated'),
        'self.metadata.PhotometricInterpretation': ('str', 'photometric'),
        'self.metadata.Rows': ('int', 'rows'), 'self.metadata.Columns': ('int', 'columns'),
    }
    t1 = translate_block(body, 'lazyBytesPerFrame', [], attrs,
                         doc='`ImageFileReader._bytes_per_frame_uncompressed`')
    fn2 = find_func(tree, f'{cls}.read_frame_raw')
    body2 = strip_doc(fn2.body)
    guard = body2[0]
    if not (isinstance(guard, ast.If) and 'index' in ast.unparse(guard.test)):
        raise Unsupported('index guard of read_frame_raw not found as first statement')
    block = [guard, ast.parse('return index').body[0]]
    t2 = translate_block(block, 'lazyIndexGuard', [('index', 'int')],
                         {'self.number_of_frames': ('int', 'numberOfFrames')},
                         doc='`ImageFileReader.read_frame_raw`: the guard on `index` (result = accepted index)')
    # native offset table: `_read_metadata` builds offsets as i * bytes_per_frame?  located by name
    return t1 + '\n\n' + t2, span_sha(body) + span_sha([guard])[:8]


def build_T5(tree):
    """arithmetic of `_Image._iterate_indices_for_tiled_region`"""
    fn = find_func(tree, '_Image._iterate_indices_for_tiled_region')
    names = ['th', 'tw', 'oh', 'ow', 'row_offset_start', 'column_offset_start', 'v_frames', 'h_frames']
    stmts = assigns_to(fn, names)
    # (th, tw) first, regardless of order of appearance is kept in source order already
    y = [n for n in ast.walk(fn) if isinstance(n, ast.Yield)]
    if len(y) != 1 or not isinstance(y[0].value, ast.Tuple) or not isinstance(y[0].value.elts[0], ast.GeneratorExp):
        raise Unsupported('yield (generator, shape) not found')
    gen = y[0].value.elts[0]
    elt = gen.elt
    if not (isinstance(elt, ast.Tuple) and len(elt.elts) >= 3):
        raise Unsupported('generator element is not a tuple')
    tgt = gen.generators[0].target
    tnames = [e.id if isinstance(e, ast.Name) else (e.value.id if isinstance(e, ast.Starred) else None) for e in tgt.elts]
    if tnames[:2] != ['rp', 'cp']:
        raise Unsupported(f'generator target changed: {tnames}')
    where = None
    for node in ast.walk(fn):
        if isinstance(node, ast.Assign) and isinstance(node.targets[0], ast.Name) and node.targets[0].id == 'query_template':
            where = ast.unparse(node.value)
    if where is None:
        raise Unsupported('query_template not found')
    # the WHERE clause is part of the translated span: its shape is checked textually
    norm = ''.join(where.split())
    expected = ["L.RowPositionInTotalImagePixelMatrix>=", "{row_offset_start}", "L.RowPositionInTotalImagePixelMatrix<{row_end}",
                "L.ColumnPositionInTotalImagePixelMatrix>=", "{column_offset_start}",
                "L.ColumnPositionInTotalImagePixelMatrix<{column_end}"]
    pos = 0
    for e in expected:
        i = norm.find(e, pos)
        if i < 0:
            raise Unsupported(f'WHERE clause of tiled-region query changed (missing {e})')
        pos = i + len(e)
    ret = ast.Return(value=ast.Tuple(elts=[
        ast.Name(id='row_offset_start', ctx=ast.Load()), ast.Name(id='column_offset_start', ctx=ast.Load()),
        ast.Name(id='v_frames', ctx=ast.Load()), ast.Name(id='h_frames', ctx=ast.Load()),
        elt.elts[1], elt.elts[2]], ctx=ast.Load()))
    block = stmts + [ret]
    for s in block:
        ast.fix_missing_locations(s)
    attrs = {'self.Rows': ('int', 'tileRows'), 'self.Columns': ('int', 'tileCols')}
    text = translate_block(
        block, 'tiledRegion',
        [('row_start', 'int'), ('row_end', 'int'), ('column_start', 'int'), ('column_end', 'int'),
         ('rp', 'int'), ('cp', 'int')], attrs,
        doc='`_iterate_indices_for_tiled_region`: (row_offset_start, column_offset_start, v_frames, h_frames, '
            '((tile row slice),(tile col slice)), ((out row slice),(out col slice))) for a tile at 1-based (rp, cp); '
            'selection is rp in [row_offset_start, row_end) and cp in [column_offset_start, column_end)')
    return text, span_sha(stmts) + hashlib.sha256((ast.unparse(elt) + norm).encode()).hexdigest()[:8]


TARGETS = {
    'T1': {'file': 'image.py', 'build': whole(
        '_Image._standardize_frame_index', 'stdFrameIndex',
        [('frame_number', 'int'), ('as_index', 'bool')], {'self.number_of_frames': ('int', 'numberOfFrames')})},
    'T2': {'file': 'image.py', 'build': whole(
        '_Image._standardize_slice_indices', 'stdSliceIndices',
        [('slice_start', 'optint'), ('slice_end', 'optint'), ('n_vol_positions', 'int'), ('as_indices', 'bool')])},
    'T3': {'file': 'image.py', 'build': whole(
        '_Image._standardize_row_column_indices', 'stdRowColIndices',
        [('row_start', 'optint'), ('row_end', 'optint'), ('column_start', 'optint'), ('column_end', 'optint'),
         ('rows', 'int'), ('columns', 'int'), ('as_indices', 'bool'), ('outputs_as_indices', 'bool')])},
    'T4': {'file': 'image.py', 'build': build_T4},
    'T5': {'file': 'image.py', 'build': build_T5},
    'T11': {'file': 'io.py', 'build': build_T11},
    'T12': {'file': 'frame.py', 'build': build_T12},
}


def build_T11b(tree):
    """io.ImageFileReader._read_metadata: native offset-table entries"""
    fn = find_func(tree, 'ImageFileReader._read_metadata')
    comps = [n for n in ast.walk(fn) if isinstance(n, ast.ListComp)
             and len(n.generators) == 1 and 'number_of_frames' in ast.unparse(n.generators[0].iter)]
    bit = [c for c in comps if 'n_pixels' in ast.unparse(c.elt)]
    byte = [c for c in comps if '_bytes_per_frame_uncompressed' in ast.unparse(c.elt)]
    if len(bit) != 1 or len(byte) != 1:
        raise Unsupported('native offset-table comprehensions not found in _read_metadata')
    for c in (bit[0], byte[0]):
        g = c.generators[0]
        if not (isinstance(g.target, ast.Name) and g.target.id == 'i' and ast.unparse(g.iter) == 'range(number_of_frames)' and not g.ifs):
            raise Unsupported('offset-table comprehension no longer ranges i over range(number_of_frames)')
    b1 = [ast.Return(value=bit[0].elt)]
    b2 = [ast.Return(value=byte[0].elt)]
    for s in b1 + b2:
        ast.fix_missing_locations(s)
    t1 = translate_block(b1, 'lazyOffsetBit', [('i', 'int'), ('n_pixels', 'int')], {},
                         doc='`_read_metadata`: offset-table entry i for native 1-bit data')
    t2 = translate_block(b2, 'lazyOffsetByte', [('i', 'int')],
                         {'self._bytes_per_frame_uncompressed': ('int', 'bytesPerFrame')},
                         doc='`_read_metadata`: offset-table entry i for native data with >= 8 bits')
    return t1 + '\n\n' + t2, span_sha(b1 + b2)


TARGETS['T11b'] = {'file': 'io.py', 'build': build_T11b}


def build_T11c(tree):
    """io.ImageFileReader.read_frame_raw: number of bytes read for a native frame"""
    fn = find_func(tree, 'ImageFileReader.read_frame_raw')
    iff = find_if(fn, 'is_encapsulated')
    block = list(iff.orelse)
    if not block:
        raise Unsupported('native branch of read_frame_raw not found')
    last = block[-1]
    if not (isinstance(last, ast.Assign) and ast.unparse(last.targets[0]) == 'frame_data'
            and isinstance(last.value, ast.Call) and ast.unparse(last.value.func) == 'self._fp.read'
            and len(last.value.args) == 1):
        raise Unsupported('native branch no longer ends in frame_data = self._fp.read(n)')
    block2 = block[:-1] + [ast.Return(value=last.value.args[0])]
    for s in block2:
        ast.fix_missing_locations(s)
    attrs = {
        'self.metadata.BitsAllocated': ('int', 'bitsAllocated'),
        'self._pixels_per_frame': ('int', 'pixelsPerFrame'),
        'self._bytes_per_frame_uncompressed': ('int', 'bytesPerFrame'),
    }
    text = translate_block(block2, 'lazyReadLength', [('index', 'int'), ('frame_offset', 'int')], attrs,
                           doc='`read_frame_raw` native branch: number of bytes read at `frame_offset`')
    return text, span_sha(block)


TARGETS['T11c'] = {'file': 'io.py', 'build': build_T11c}


# ---- per-property target files: translate/targets_Cnn.py each define TARGETS = {...}
import glob as _glob
import importlib as _importlib
import os as _os
BROKEN_FILES = {}   # a per-property target file that does not load must not take the other properties down
for _f in sorted(_glob.glob(_os.path.join(_os.path.dirname(_os.path.abspath(__file__)), 'targets_C*.py'))):
    try:
        _m = _importlib.import_module(_os.path.basename(_f)[:-3])
        _importlib.reload(_m)
    except Exception as _e:  # noqa: BLE001
        BROKEN_FILES[_os.path.basename(_f)] = f'{type(_e).__name__}: {_e}'
        continue
    for _k, _v in _m.TARGETS.items():
        if _k in TARGETS:
            raise RuntimeError(f'duplicate translation target {_k} in {_f}')
        TARGETS[_k] = _v
