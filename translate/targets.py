"""Translation targets (tie T).  Each target builds Lean text from the *current* AST of one
source file.  `build(tree) -> (lean_text, sha256 of the translated source span)`.

A selector that no longer finds its block raises Unsupported => TRANSLATION-BROKEN.
"""
from __future__ import annotations

import ast
import hashlib

from py2lean import (Unsupported, find_func, span_sha, strip_doc,
                     translate_block)


# ---------------------------------------------------------------- selector helpers
def assigns_to(fn, names):
    """All assignment statements (in source order) inside `fn` whose targets are exactly
    names from `names` (tuple targets allowed)."""
    out = []
    for node in ast.walk(fn):
        if isinstance(node, ast.Assign) and len(node.targets) == 1:
            t = node.targets[0]
            tn = [t.id] if isinstance(t, ast.Name) else (
                [e.id for e in t.elts if isinstance(e, ast.Name)] if isinstance(t, ast.Tuple) else [])
            if tn and all(n in names for n in tn):
                out.append(node)
    out.sort(key=lambda n: (n.lineno, n.col_offset))
    found = set()
    for n in out:
        t = n.targets[0]
        found |= {t.id} if isinstance(t, ast.Name) else {e.id for e in t.elts}
    missing = set(names) - found
    if missing:
        raise Unsupported(f'assignments to {sorted(missing)} not found in {fn.name}')
    return out


def find_if(fn, needle):
    for node in ast.walk(fn):
        if isinstance(node, ast.If) and needle in ast.unparse(node.test):
            return node
    raise Unsupported(f'if-statement testing {needle!r} not found in {fn.name}')


def ret_tuple(names):
    return ast.parse('return (' + ', '.join(names) + ',)').body[0] if len(names) == 1 else \
        ast.parse('return (' + ', '.join(names) + ')').body[0]


def rewrite_returns(stmts, f):
    class R(ast.NodeTransformer):
        def visit_Return(self, node):
            return f(node)
    return [R().visit(s) for s in stmts]


def whole(qual, lean_name, params, attrs=None, doc=''):
    def build(tree):
        fn = find_func(tree, qual)
        body = strip_doc(fn.body)
        # signature check: every declared parameter must still exist
        have = {a.arg for a in fn.args.args + fn.args.kwonlyargs}
        for p, _ in params:
            if p not in have:
                raise Unsupported(f'parameter {p} no longer in {qual}')
        text = translate_block(body, lean_name, params, attrs or {}, doc=doc or f'`{qual}` (whole body)')
        return text, span_sha(body)
    return build


# ---------------------------------------------------------------- individual targets
def build_T4(tree):
    """native byte-range block of `_Image.get_raw_frame` -> (start, end)"""
    fn = find_func(tree, '_Image.get_raw_frame')
    iff = find_if(fn, 'is_encapsulated')
    block = iff.orelse
    if not block:
        raise Unsupported('native branch of get_raw_frame not found')

    def rr(node):
        v = node.value
        if isinstance(v, ast.Subscript) and isinstance(v.slice, ast.Slice) and ast.unparse(v.value) == 'self.PixelData':
            return ast.copy_location(ast.Return(value=ast.Tuple(elts=[v.slice.lower, v.slice.upper], ctx=ast.Load())), node)
        raise Unsupported('return of get_raw_frame native branch is not self.PixelData[a:b]')
    block2 = rewrite_returns([ast.parse(ast.unparse(s)).body[0] for s in block], rr)
    for s in block2:
        ast.fix_missing_locations(s)
    attrs = {
        'self.Rows': ('int', 'rows'), 'self.Columns': ('int', 'columns'),
        'self.SamplesPerPixel': ('int', 'samples'), 'self.BitsAllocated': ('int', 'bitsAllocated'),
        'self.PhotometricInterpretation': ('str', 'photometric'),
    }
    text = translate_block(block2, 'rawFrameRange', [('frame_index', 'int')], attrs,
                           doc='native branch of `_Image.get_raw_frame`: byte range `PixelData[start:end]` of frame `frame_index`')
    return text, span_sha(block)


def build_T12(tree):
    """`decode_frame`: bit offset of a native 1-bit frame inside its byte range"""
    fn = find_func(tree, 'decode_frame')
    iff = find_if(fn, 'bits_allocated == 1')
    stmts = [s for s in iff.body if isinstance(s, ast.Assign) and
             isinstance(s.targets[0], ast.Name) and s.targets[0].id in ('n_pixels', 'pixel_offset')]
    if len(stmts) != 2:
        raise Unsupported('n_pixels / pixel_offset assignments not found in decode_frame')
    # the slice actually taken
    sl = None
    for s in iff.body:
        if isinstance(s, ast.Assign) and isinstance(s.value, ast.Subscript) and isinstance(s.value.slice, ast.Slice) \
                and ast.unparse(s.value.value) == 'unpacked_frame':
            sl = s.value.slice
    if sl is None:
        raise Unsupported('unpacked_frame[a:b] not found in decode_frame')
    ret = ast.Return(value=ast.Tuple(elts=[sl.lower, sl.upper], ctx=ast.Load()))
    block = stmts + [ret]
    for s in block:
        ast.fix_missing_locations(s)
    text = translate_block(block, 'bitSlice',
                           [('index', 'int'), ('rows', 'int'), ('columns', 'int'), ('samples_per_pixel', 'int')], {},
                           doc='`decode_frame` 1-bit native branch: the slice `unpacked_frame[lo:hi]` that is taken')
    return text, span_sha(stmts) + hashlib.sha256(ast.unparse(sl).encode()).hexdigest()[:8]


def build_T11(tree):
    """io.ImageFileReader: bytes per uncompressed frame and the index guard of read_frame_raw"""
    cls = 'ImageFileReader'
    fn = find_func(tree, f'{cls}._bytes_per_frame_uncompressed')
    body = strip_doc(fn.body)
    attrs = {
        'self._pixels_per_frame': ('int', 'pixelsPerFrame'),
        'self.metadata.BitsAllocated': ('int', 'bitsAllocated'),
        'self.metadata.PhotometricInterpretation': ('str', 'photometric'),
        'self.metadata.Rows': ('int', 'rows'), 'self.metadata.Columns': ('int', 'columns'),
    }
    t1 = translate_block(body, 'lazyBytesPerFrame', [], attrs,
                         doc='`ImageFileReader._bytes_per_frame_uncompressed`')
    fn2 = find_func(tree, f'{cls}.read_frame_raw')
    body2 = strip_doc(fn2.body)
    # the guard is the first statement, possibly after conversions of the argument (`index = operator.index(index)`)
    lead = []
    while body2 and isinstance(body2[0], ast.Assign) and ast.unparse(body2[0].targets[0]) == 'index':
        lead.append(body2[0])
        body2 = body2[1:]
    guard = body2[0]
    if not (isinstance(guard, ast.If) and 'index' in ast.unparse(guard.test)):
        raise Unsupported('index guard of read_frame_raw not found as first statement')
    block = lead + [guard, ast.parse('return index').body[0]]
    t2 = translate_block(block, 'lazyIndexGuard', [('index', 'int')],
                         {'self.number_of_frames': ('int', 'numberOfFrames')},
                         doc='`ImageFileReader.read_frame_raw`: the guard on `index` (result = accepted index)')
    # native offset table: `_read_metadata` builds offsets as i * bytes_per_frame?  located by name
    return t1 + '\n\n' + t2, span_sha(body) + span_sha(lead + [guard])[:8]


def build_T5(tree):
    """arithmetic of `_Image._iterate_indices_for_tiled_region`"""
    fn = find_func(tree, '_Image._iterate_indices_for_tiled_region')
    names = ['th', 'tw', 'oh', 'ow', 'row_offset_start', 'column_offset_start', 'v_frames', 'h_frames']
    stmts = assigns_to(fn, names)
    # (th, tw) first, regardless of order of appearance is kept in source order already
    y = [n for n in ast.walk(fn) if isinstance(n, ast.Yield)]
    if len(y) != 1 or not isinstance(y[0].value, ast.Tuple) or not isinstance(y[0].value.elts[0], ast.GeneratorExp):
        raise Unsupported('yield (generator, shape) not found')
    gen = y[0].value.elts[0]
    elt = gen.elt
    if not (isinstance(elt, ast.Tuple) and len(elt.elts) >= 3):
        raise Unsupported('generator element is not a tuple')
    tgt = gen.generators[0].target
    tnames = [e.id if isinstance(e, ast.Name) else (e.value.id if isinstance(e, ast.Starred) else None) for e in tgt.elts]
    if tnames[:2] != ['rp', 'cp']:
        raise Unsupported(f'generator target changed: {tnames}')
    where = None
    for node in ast.walk(fn):
        if isinstance(node, ast.Assign) and isinstance(node.targets[0], ast.Name) and node.targets[0].id == 'query_template':
            where = ast.unparse(node.value)
    if where is None:
        raise Unsupported('query_template not found')
    # the WHERE clause is part of the translated span: the whole query template, the ORDER BY string and the two `.format`
    # calls are compared for EQUALITY after whitespace normalisation (an ordered-substring test would let arithmetic such as
    # `{row_end} - 1` appended to a fragment pass unnoticed)
    norm = ''.join(where.split())
    expected_template = (
        "f'SELECT{{selection_str}}FROMFrameLUTL{''.join(channel_join_lines)}WHERE("
        "L.RowPositionInTotalImagePixelMatrix>={row_offset_start}ANDL.RowPositionInTotalImagePixelMatrix<{row_end}"
        "ANDL.ColumnPositionInTotalImagePixelMatrix>={column_offset_start}ANDL.ColumnPositionInTotalImagePixelMatrix<{column_end}"
        "{filter_str.replace('WHERE','AND')}){{order_str}}'")
    if norm != expected_template:
        raise Unsupported('query template of the tiled-region query changed: ' + norm[:400])
    others = {}
    for node in ast.walk(fn):
        if isinstance(node, ast.Assign) and isinstance(node.targets[0], ast.Name) and \
                node.targets[0].id in ('order_str', 'counting_query', 'full_query'):
            others[node.targets[0].id] = ''.join(ast.unparse(node.value).split())
    expected_others = {
        'order_str': "'ORDERBYL.RowPositionInTotalImagePixelMatrix,L.ColumnPositionInTotalImagePixelMatrix'",
        'full_query': 'query_template.format(selection_str=selection_str,order_str=order_str)',
        'counting_query': "query_template.format(selection_str='COUNT(*)',order_str='')",
    }
    if others != expected_others:
        raise Unsupported(f'ORDER BY / format calls of the tiled-region query changed: {others}')
    # the generator iterates the executed full query and the missing-frame test compares the count query with v*h frames
    body_txt = ''.join(ast.unparse(fn).split())
    for needle in ("cursor=self._db_con.execute(full_query)", "forrp,cp,fi,*channelincursor", "finally:cursor.close()",
                   "found_number=next(self._db_con.execute(counting_query))[0]",
                   "number_of_output_frames=v_frames*h_frames",
                   "iffound_number!=number_of_output_frames:raiseRuntimeError("):
        if needle not in body_txt:
            raise Unsupported('tiled-region query use changed (missing ' + needle + ')')
    ret = ast.Return(value=ast.Tuple(elts=[
        ast.Name(id='row_offset_start', ctx=ast.Load()), ast.Name(id='column_offset_start', ctx=ast.Load()),
        ast.Name(id='v_frames', ctx=ast.Load()), ast.Name(id='h_frames', ctx=ast.Load()),
        elt.elts[1], elt.elts[2]], ctx=ast.Load()))
    block = stmts + [ret]
    for s in block:
        ast.fix_missing_locations(s)
    attrs = {'self.Rows': ('int', 'tileRows'), 'self.Columns': ('int', 'tileCols')}
    text = translate_block(
        block, 'tiledRegion',
        [('row_start', 'int'), ('row_end', 'int'), ('column_start', 'int'), ('column_end', 'int'),
         ('rp', 'int'), ('cp', 'int')], attrs,
        doc='`_iterate_indices_for_tiled_region`: (row_offset_start, column_offset_start, v_frames, h_frames, '
            '((tile row slice),(tile col slice)), ((out row slice),(out col slice))) for a tile at 1-based (rp, cp); '
            'selection is rp in [row_offset_start, row_end) and cp in [column_offset_start, column_end)')
    return text, span_sha(stmts) + hashlib.sha256((ast.unparse(elt) + norm).encode()).hexdigest()[:8]


TARGETS = {
    'T1': {'file': 'image.py', 'build': whole(
        '_Image._standardize_frame_index', 'stdFrameIndex',
        [('frame_number', 'int'), ('as_index', 'bool')], {'self.number_of_frames': ('int', 'numberOfFrames')})},
    'T2': {'file': 'image.py', 'build': whole(
        '_Image._standardize_slice_indices', 'stdSliceIndices',
        [('slice_start', 'optint'), ('slice_end', 'optint'), ('n_vol_positions', 'int'), ('as_indices', 'bool')])},
    'T3': {'file': 'image.py', 'build': whole(
        '_Image._standardize_row_column_indices', 'stdRowColIndices',
        [('row_start', 'optint'), ('row_end', 'optint'), ('column_start', 'optint'), ('column_end', 'optint'),
         ('rows', 'int'), ('columns', 'int'), ('as_indices', 'bool'), ('outputs_as_indices', 'bool')])},
    'T4': {'file': 'image.py', 'build': build_T4},
    'T5': {'file': 'image.py', 'build': build_T5},
    'T11': {'file': 'io.py', 'build': build_T11},
    'T12': {'file': 'frame.py', 'build': build_T12},
}


def build_T11b(tree):
    """io.ImageFileReader._read_metadata: native offset-table entries"""
    fn = find_func(tree, 'ImageFileReader._read_metadata')
    comps = [n for n in ast.walk(fn) if isinstance(n, ast.ListComp)
             and len(n.generators) == 1 and 'number_of_frames' in ast.unparse(n.generators[0].iter)]
    bit = [c for c in comps if 'n_pixels' in ast.unparse(c.elt)]
    byte = [c for c in comps if '_bytes_per_frame_uncompressed' in ast.unparse(c.elt)]
    if len(bit) != 1 or len(byte) != 1:
        raise Unsupported('native offset-table comprehensions not found in _read_metadata')
    for c in (bit[0], byte[0]):
        g = c.generators[0]
        if not (isinstance(g.target, ast.Name) and g.target.id == 'i' and ast.unparse(g.iter) == 'range(number_of_frames)' and not g.ifs):
            raise Unsupported('offset-table comprehension no longer ranges i over range(number_of_frames)')
    b1 = [ast.Return(value=bit[0].elt)]
    b2 = [ast.Return(value=byte[0].elt)]
    for s in b1 + b2:
        ast.fix_missing_locations(s)
    t1 = translate_block(b1, 'lazyOffsetBit', [('i', 'int'), ('n_pixels', 'int')], {},
                         doc='`_read_metadata`: offset-table entry i for native 1-bit data')
    t2 = translate_block(b2, 'lazyOffsetByte', [('i', 'int')],
                         {'self._bytes_per_frame_uncompressed': ('int', 'bytesPerFrame')},
                         doc='`_read_metadata`: offset-table entry i for native data with >= 8 bits')
    return t1 + '\n\n' + t2, span_sha(b1 + b2)


TARGETS['T11b'] = {'file': 'io.py', 'build': build_T11b}


def build_T11c(tree):
    """io.ImageFileReader.read_frame_raw: number of bytes read for a native frame"""
    fn = find_func(tree, 'ImageFileReader.read_frame_raw')
    iff = find_if(fn, 'is_encapsulated')
    block = list(iff.orelse)
    if not block:
        raise Unsupported('native branch of read_frame_raw not found')
    last = block[-1]
    if not (isinstance(last, ast.Assign) and ast.unparse(last.targets[0]) == 'frame_data'
            and isinstance(last.value, ast.Call) and ast.unparse(last.value.func) == 'self._fp.read'
            and len(last.value.args) == 1):
        raise Unsupported('native branch no longer ends in frame_data = self._fp.read(n)')
    block2 = block[:-1] + [ast.Return(value=last.value.args[0])]
    for s in block2:
        ast.fix_missing_locations(s)
    attrs = {
        'self.metadata.BitsAllocated': ('int', 'bitsAllocated'),
        'self._pixels_per_frame': ('int', 'pixelsPerFrame'),
        'self._bytes_per_frame_uncompressed': ('int', 'bytesPerFrame'),
    }
    text = translate_block(block2, 'lazyReadLength', [('index', 'int'), ('frame_offset', 'int')], attrs,
                           doc='`read_frame_raw` native branch: number of bytes read at `frame_offset`')
    return text, span_sha(block)


TARGETS['T11c'] = {'file': 'io.py', 'build': build_T11c}


# ---- per-property target files: translate/targets_Cnn.py each define TARGETS = {...}
import glob as _glob
import importlib as _importlib
import os as _os
BROKEN_FILES = {}   # a per-property target file that does not load must not take the other properties down
for _f in sorted(_glob.glob(_os.path.join(_os.path.dirname(_os.path.abspath(__file__)), 'targets_C*.py'))):
    try:
        _m = _importlib.import_module(_os.path.basename(_f)[:-3])
        _importlib.reload(_m)
    except Exception as _e:  # noqa: BLE001
        BROKEN_FILES[_os.path.basename(_f)] = f'{type(_e).__name__}: {_e}'
        continue
    for _k, _v in _m.TARGETS.items():
        if _k in TARGETS:
            raise RuntimeError(f'duplicate translation target {_k} in {_f}')
        TARGETS[_k] = _v


def build_T1b(tree):
    """call skeleton of `_Image.get_stored_frame` and `_Image.get_stored_frames`: which expressions reach
    `_standardize_frame_index`, `get_raw_frame`, `decode_frame(index=…)` and the cached-pixel-array subscript; the default
    frame ranges of the batch method.  (Audit A, C05-1/C05-2: the batch and cached paths were hand-modelled.)"""
    texts, shas = [], []
    for fname, prefix, flag in (('get_stored_frame', 'single', 'as_index'), ('get_stored_frames', 'batch', 'as_indices')):
        fn = find_func(tree, f'_Image.{fname}')
        params = [('frame_number', 'int'), (flag, 'bool'), ('frame_index', 'int')]

        def one(pred, what):
            hits = [n for n in ast.walk(fn) if pred(n)]
            if len(hits) != 1:
                raise Unsupported(f'{fname}: expected exactly one {what}, found {len(hits)}')
            return hits[0]
        std = one(lambda n: isinstance(n, ast.Call) and ast.unparse(n.func) == 'self._standardize_frame_index', 'call of _standardize_frame_index')
        if len(std.args) != 2 or std.keywords:
            raise Unsupported(f'{fname}: _standardize_frame_index no longer called with two positional arguments')
        raw = one(lambda n: isinstance(n, ast.Call) and ast.unparse(n.func) == 'self.get_raw_frame', 'call of get_raw_frame')
        rk = {k.arg: k.value for k in raw.keywords}
        if len(raw.args) != 1 or set(rk) != {'as_index'}:
            raise Unsupported(f'{fname}: get_raw_frame call shape changed')
        dec = one(lambda n: isinstance(n, ast.Call) and ast.unparse(n.func) == 'decode_frame', 'call of decode_frame')
        dk = {k.arg: ast.unparse(k.value) for k in dec.keywords}
        want = {'value': 'raw_frame', 'rows': 'self.Rows', 'columns': 'self.Columns', 'samples_per_pixel': 'self.SamplesPerPixel',
                'bits_allocated': 'self.BitsAllocated', 'transfer_syntax_uid': 'self.transfer_syntax_uid',
                'bits_stored': "self.get('BitsStored', self.BitsAllocated)",
                'photometric_interpretation': 'self.PhotometricInterpretation',
                'pixel_representation': 'self.PixelRepresentation',
                'planar_configuration': "self.get('PlanarConfiguration')"}
        for k, v in want.items():
            if dk.get(k) != v:
                raise Unsupported(f'{fname}: decode_frame({k}=…) is {dk.get(k)!r}, expected {v!r}')
        if dec.args or 'index' not in dk:
            raise Unsupported(f'{fname}: decode_frame call shape changed')
        dindex = [k.value for k in dec.keywords if k.arg == 'index'][0]
        cached = one(lambda n: isinstance(n, ast.If) and ast.unparse(n.test) == 'self.number_of_frames == 1', 'test number_of_frames == 1')

        def uncopy(v):
            # `<expr>.copy()` -> (<expr>, True): the cached frame may be handed out as a copy (fix d078db8)
            if isinstance(v, ast.Call) and isinstance(v.func, ast.Attribute) and v.func.attr == 'copy' and not v.args and not v.keywords:
                return v.func.value, True
            return v, False
        if not (len(cached.body) == 1 and isinstance(cached.body[0], ast.Assign) and ast.unparse(cached.body[0].targets[0]) == 'frame'
                and len(cached.orelse) == 1 and isinstance(cached.orelse[0], ast.Assign) and ast.unparse(cached.orelse[0].targets[0]) == 'frame'):
            raise Unsupported(f'{fname}: cached pixel-array branch changed shape')
        whole_v, copy1 = uncopy(cached.body[0].value)
        elem_v, copy2 = uncopy(cached.orelse[0].value)
        if not (ast.unparse(whole_v) == 'self.pixel_array' and isinstance(elem_v, ast.Subscript)
                and ast.unparse(elem_v.value) == 'self.pixel_array') or copy1 != copy2:
            raise Unsupported(f'{fname}: cached pixel-array branch changed shape')
        csub = elem_v.slice
        stacks = ast.unparse(fn.body[-1]) == 'return np.stack(output_frames)'
        texts.append(f'/-- `{fname}`: the frame taken from the cached array is handed out as a copy (`.copy()` in both arms of the cached '
                     f'branch, or the frames are stacked into a new array by `np.stack`) -/\ndef {prefix}CachedIsCopy : Bool := '
                     + ('true' if (copy1 or stacks) else 'false'))
        outer = one(lambda n: isinstance(n, ast.If) and ast.unparse(n.test) == 'self._pixel_array is None' and cached in ast.walk(n),
                    'test self._pixel_array is None')
        if cached not in outer.orelse:
            raise Unsupported(f'{fname}: cached branch is no longer the else-arm of `self._pixel_array is None`')

        def ret(*exprs):
            r = ast.Return(value=ast.Tuple(elts=list(exprs), ctx=ast.Load()) if len(exprs) > 1 else exprs[0])
            ast.fix_missing_locations(r)
            return [r]
        texts.append(translate_block(ret(std.args[0], std.args[1]), f'{prefix}StdArgs', params, {},
                                     doc=f'`{fname}`: the arguments handed to `_standardize_frame_index`'))
        texts.append(translate_block(ret(raw.args[0], rk['as_index']), f'{prefix}RawArgs', params, {},
                                     doc=f'`{fname}`: the arguments handed to `get_raw_frame` (which standardises them again)'))
        texts.append(translate_block(ret(dindex), f'{prefix}DecodeIndex', params, {},
                                     doc=f'`{fname}`: `decode_frame(..., index=…)`'))
        texts.append(translate_block(ret(csub), f'{prefix}CacheIndex', params, {},
                                     doc=f'`{fname}`: subscript of the cached `pixel_array` (taken when number_of_frames != 1)'))
        shas.append(span_sha([std, raw, dec, cached]))
    # default ranges of the batch method
    fn = find_func(tree, '_Image.get_stored_frames')
    none_if = [n for n in fn.body if isinstance(n, ast.If) and ast.unparse(n.test) == 'frame_numbers is None']
    if len(none_if) != 1 or len(none_if[0].body) != 1 or not isinstance(none_if[0].body[0], ast.If) or none_if[0].orelse:
        raise Unsupported('get_stored_frames: default-range block changed shape')
    inner = none_if[0].body[0]

    def rng(stmts):
        if len(stmts) != 1 or not isinstance(stmts[0], ast.Assign) or ast.unparse(stmts[0].targets[0]) != 'frame_numbers':
            raise Unsupported('get_stored_frames: default-range assignment changed')
        v = stmts[0].value
        if not (isinstance(v, ast.Call) and ast.unparse(v.func) == 'range' and len(v.args) == 2):
            raise Unsupported('get_stored_frames: default frame numbers are no longer range(a, b)')
        r = ast.Return(value=ast.Tuple(elts=list(v.args), ctx=ast.Load()))
        ast.fix_missing_locations(r)
        return [r]
    blk = ast.If(test=inner.test, body=rng(inner.body), orelse=rng(inner.orelse))
    ast.fix_missing_locations(blk)
    texts.append(translate_block([blk], 'batchDefaultRange', [('as_indices', 'bool')],
                                 {'self.number_of_frames': ('int', 'numberOfFrames')},
                                 doc='`get_stored_frames(frame_numbers=None)`: the half-open range (a, b) of `range(a, b)`'))
    shas.append(span_sha([none_if[0]]))
    return '\n\n'.join(texts), hashlib.sha256(''.join(shas).encode()).hexdigest()


TARGETS['T1b'] = {'file': 'image.py', 'build': build_T1b}


def build_T11d(tree):
    """io._build_bot loop and the fragment walk of ImageFileReader.read_frame_raw, expression by expression: the start
    markers, the refusal of item lengths, the offset recorded per item, how far the loop moves to the next item, the
    choice between frame and fragment offsets; `stop_at`, the advance `n += …`, the order break-test / append.  The
    hand-written loops of Model/Offsets.lean are proved to use exactly these (Proofs/OffsetsTie.lean)."""
    texts, shas = [], []
    # ---- module constants
    consts = {}
    for st in tree.body:
        if isinstance(st, ast.Assign) and len(st.targets) == 1 and isinstance(st.targets[0], ast.Name):
            consts[st.targets[0].id] = st.value
    sm = consts.get('_START_MARKERS')
    if not isinstance(sm, ast.Set):
        raise Unsupported('_START_MARKERS is no longer a set display')
    rows = []
    for e in sm.elts:
        v = consts.get(e.id) if isinstance(e, ast.Name) else e
        if not (isinstance(v, ast.Constant) and isinstance(v.value, bytes)):
            raise Unsupported('_START_MARKERS element is not a bytes constant')
        rows.append(list(v.value))
    rows.sort()
    texts.append('/-- `io._START_MARKERS` (sorted) -/\ndef startMarkers : List (List Nat) :=\n  ['
                 + ', '.join('[' + ', '.join(str(b) for b in r) + ']' for r in rows) + ']')
    shas.append(hashlib.sha256(repr(rows).encode()).hexdigest())
    # ---- _build_bot
    fn = find_func(tree, '_build_bot')
    loops = [n for n in fn.body if isinstance(n, ast.While)]
    if len(loops) != 1 or ast.unparse(loops[0].test) != 'True':
        raise Unsupported('_build_bot: expected exactly one `while True` loop')
    body = loops[0].body
    src = [ast.unparse(s) for s in body]

    def stmt(pred, what, seq=body):
        hits = [s for s in seq if pred(s)]
        if len(hits) != 1:
            raise Unsupported(f'_build_bot: expected exactly one {what}, found {len(hits)}')
        return hits[0]
    # reads in the loop, in order: position, tag, length, two marker bytes, relative seek
    reads = [s for s in src if 'fp.' in s and not s.startswith('if ')]
    want_reads = ['frame_position = fp.tell()', 'tag = TupleTag(fp.read_tag())', 'length = fp.read_UL()',
                  'first_two_bytes = fp.read(2)']
    if reads[:4] != want_reads or len(reads) != 5:
        raise Unsupported(f'_build_bot: the sequence of reads in the loop changed: {reads}')
    seek = stmt(lambda s: isinstance(s, ast.Expr) and isinstance(s.value, ast.Call) and ast.unparse(s.value.func) == 'fp.seek',
                'relative seek')
    if len(seek.value.args) != 2 or ast.unparse(seek.value.args[1]) != '1' or body[-1] is not seek:
        raise Unsupported('_build_bot: the loop no longer ends in fp.seek(<n>, 1)')
    lencheck = stmt(lambda s: isinstance(s, ast.If) and 'length' in ast.unparse(s.test) and 'tag' not in ast.unparse(s.test), 'length test')

    class DropSeek(ast.NodeTransformer):
        def visit_Expr(self, node):
            return None if ast.unparse(node).startswith('fp.seek(initial_position') else node
    lc = DropSeek().visit(ast.parse(ast.unparse(lencheck)).body[0])
    blk = [lc, ast.parse('return 0').body[0]]
    for s in blk:
        ast.fix_missing_locations(s)
    texts.append(translate_block(blk, 'botLengthCheck', [('length', 'int')], {},
                                 doc='`_build_bot`: which item lengths are refused (OSError), 0 otherwise'))
    cur = stmt(lambda s: isinstance(s, ast.Assign) and ast.unparse(s.targets[0]) == 'current_offset', 'assignment of current_offset')
    texts.append(translate_block([ast.fix_missing_locations(ast.Return(value=cur.value))], 'botOffset',
                                 [('frame_position', 'int'), ('initial_position', 'int')], {},
                                 doc='`_build_bot`: the offset recorded for the item that starts at `frame_position`'))
    # position of the next item: 4 (tag) + 4 (UL length) + 2 (marker bytes read) + the relative seek
    nxt = ast.parse('return frame_position + 4 + 4 + 2 + (' + ast.unparse(seek.value.args[0]) + ')').body[0]
    texts.append(translate_block([nxt], 'botNextPosition', [('frame_position', 'int'), ('length', 'int')], {},
                                 doc='`_build_bot`: where the next iteration reads its tag (read_tag = 4 bytes, read_UL = 4 bytes, '
                                     'read(2), then `fp.seek(…, 1)`)'))
    app = [s for s in body if 'append' in ast.unparse(s)]
    if [ast.unparse(s) for s in app] != ['fragment_offset_values.append(current_offset)',
                                         'if first_two_bytes in _START_MARKERS:\n    frame_offset_values.append(current_offset)']:
        raise Unsupported('_build_bot: what is appended to the two offset lists changed')
    tail = fn.body[fn.body.index(loops[0]) + 1:]
    choice = [s for s in tail if isinstance(s, ast.If)]
    if len(choice) != 1:
        raise Unsupported('_build_bot: choice between frame and fragment offsets not found')
    ctext = ast.unparse(choice[0])
    for a, b in (('len(frame_offset_values)', 'n_frame_offsets'), ('len(fragment_offset_values)', 'n_fragment_offsets'),
                 ('basic_offset_table = frame_offset_values', 'return 0'), ('basic_offset_table = fragment_offset_values', 'return 1')):
        if a not in ctext:
            raise Unsupported(f'_build_bot: `{a}` no longer part of the final choice')
        ctext = ctext.replace(a, b)
    texts.append(translate_block(ast.parse(ctext).body, 'botChoice',
                                 [('n_frame_offsets', 'int'), ('n_fragment_offsets', 'int'), ('number_of_frames', 'int')], {},
                                 doc='`_build_bot`: 0 = the marker-identified frame offsets, 1 = all fragment offsets, ValueError otherwise'))
    shas.append(span_sha(body + tail))
    # ---- read_frame_raw, encapsulated branch
    fn = find_func(tree, 'ImageFileReader.read_frame_raw')
    iff = find_if(fn, 'is_encapsulated')
    enc = iff.body
    tr = [s for s in enc if isinstance(s, ast.Try)]
    if len(tr) != 1 or len(tr[0].body) != 1 or len(tr[0].handlers) != 1 or ast.unparse(tr[0].handlers[0].type) != 'IndexError':
        raise Unsupported('read_frame_raw: try/except IndexError around stop_at not found')
    a1, a2 = tr[0].body[0], tr[0].handlers[0].body[-1]
    if not (isinstance(a1, ast.Assign) and ast.unparse(a1.targets[0]) == 'stop_at' and isinstance(a1.value, ast.BinOp)
            and isinstance(a1.value.left, ast.Subscript) and ast.unparse(a1.value.left.value) == 'self._offset_table'):
        raise Unsupported('read_frame_raw: stop_at is no longer self._offset_table[…] - …')
    if not (isinstance(a2, ast.Assign) and ast.unparse(a2.targets[0]) == 'stop_at'):
        raise Unsupported('read_frame_raw: stop_at of the last frame not found')
    texts.append(translate_block([ast.fix_missing_locations(ast.Return(value=a1.value.left.slice))], 'readNextEntry', [('index', 'int')], {},
                                 doc='`read_frame_raw`: which table entry bounds frame `index`'))
    e = ast.parse('return next_offset ' + {ast.Sub: '-', ast.Add: '+'}.get(type(a1.value.op), '?') + ' (' + ast.unparse(a1.value.right) + ')').body[0]
    texts.append(translate_block([e], 'readStopAt', [('next_offset', 'int'), ('frame_offset', 'int')], {},
                                 doc='`read_frame_raw`: `stop_at` when there is a next table entry'))
    texts.append(translate_block([ast.fix_missing_locations(ast.Return(value=a2.value))], 'readStopAtLast', [], {},
                                 doc='`read_frame_raw`: `stop_at` for the last frame'))
    wl = [s for s in enc if isinstance(s, ast.While)]
    if len(wl) != 1 or ast.unparse(wl[0].test) != 'True':
        raise Unsupported('read_frame_raw: fragment loop not found')
    wsrc = [ast.unparse(s) for s in wl[0].body]
    want = ['tag = TupleTag(self._fp.read_tag())',
            'if n == stop_at or int(tag) == SequenceDelimiterTag:\n    break',
            None,
            'length = self._fp.read_UL()',
            'fragments.append(self._fp.read(length))',
            None]
    if len(wsrc) != len(want) or any(w is not None and w != s for w, s in zip(want, wsrc)):
        raise Unsupported(f'read_frame_raw: fragment loop changed shape: {wsrc}')
    aug = wl[0].body[-1]
    if not (isinstance(aug, ast.AugAssign) and ast.unparse(aug.target) == 'n'):
        raise Unsupported('read_frame_raw: the loop no longer ends in an update of n')
    e = ast.parse('return n ' + {ast.Add: '+', ast.Sub: '-'}.get(type(aug.op), '?') + ' (' + ast.unparse(aug.value) + ')').body[0]
    texts.append(translate_block([e], 'readAdvance', [('n', 'int'), ('length', 'int')], {},
                                 doc='`read_frame_raw`: the running byte count after a fragment of `length` bytes'))
    n0 = [s for s in enc if isinstance(s, ast.Assign) and ast.unparse(s.targets[0]) == 'n']
    if len(n0) != 1:
        raise Unsupported('read_frame_raw: initial value of n not found')
    texts.append(translate_block([ast.fix_missing_locations(ast.Return(value=n0[0].value))], 'readStart', [], {},
                                 doc='`read_frame_raw`: the running byte count before the first fragment'))
    shas.append(span_sha(enc))
    return '\n\n'.join(texts), hashlib.sha256(''.join(shas).encode()).hexdigest()


TARGETS['T11d'] = {'file': 'io.py', 'build': build_T11d}


def build_T11e(tree):
    """io.ImageFileReader.read_frame: which expression is handed to each parameter of decode_frame (forwarding table);
    the frame data come from read_frame_raw(index) with the same index."""
    fn = find_func(tree, 'ImageFileReader.read_frame')
    calls = [n for n in ast.walk(fn) if isinstance(n, ast.Call) and ast.unparse(n.func) == 'decode_frame']
    if len(calls) != 1:
        raise Unsupported(f'read_frame: expected exactly one decode_frame call, found {len(calls)}')
    c = calls[0]
    if len(c.args) != 1 or any(k.arg is None for k in c.keywords):
        raise Unsupported('read_frame: decode_frame is no longer called as decode_frame(<data>, keyword=…)')
    data_src = [n for n in ast.walk(fn) if isinstance(n, ast.Assign) and ast.unparse(n.targets[0]) == ast.unparse(c.args[0])]
    if len(data_src) != 1:
        raise Unsupported('read_frame: the frame data handed to decode_frame are not assigned exactly once')
    rows = [('value', ast.unparse(data_src[0].value))] + sorted((k.arg, ast.unparse(k.value)) for k in c.keywords)
    q = lambda t: '"' + t.replace('\\', '\\\\').replace('"', '\\"') + '"'   # noqa: E731
    text = ('/-- `ImageFileReader.read_frame`: parameter of `decode_frame` ↦ source expression handed to it -/\n'
            'def readerDecodeArgs : List (String × String) :=\n  [' + ',\n   '.join(f'({q(a)}, {q(b)})' for a, b in rows) + ']')
    return text, hashlib.sha256(repr(rows).encode()).hexdigest()


TARGETS['T11e'] = {'file': 'io.py', 'build': build_T11e}
