"""Tie T: symbolic execution of a loop-free, typed fragment of Python into Lean 4.

Each target (translate/targets.py) names a function of /repo's *current* source, a block
selector, typed inputs and (optionally) named outputs.  The block is executed symbolically
into a pure decision tree in `Except ErrKind _`:

  * SSA `let`s for every assignment, `if c then a else b` merges at joins;
  * terminals (`raise` / `return`) are collected in program order with their path condition;
  * parameters typed `optint` are case-split up front, `is None` is then static;
  * `and` / `or` / `not` on static values are short-circuited statically.

Number semantics: Python `int` = `Int`; `//`, `%` = `Int.fdiv`, `Int.fmod`; a bool used as a
number is coerced; `/` yields `Rat`; `int()`, `np.floor`, `np.ceil`, `math.ceil`, `math.floor`,
`% 1` on rationals are truncation, `Rat.floor`, `Rat.ceil` and the fractional part -- emitted
faithfully (that e.g. floor(frac(k/8)*8) = k mod 8 is a Lean lemma, not a translator convention).

Anything outside the fragment raises `Unsupported` => the target is reported TRANSLATION-BROKEN.
"""
from __future__ import annotations

import ast
import hashlib
import itertools
import os
import sys

ERR = {'ValueError': 'value', 'IndexError': 'index', 'TypeError': 'type',
       'RuntimeError': 'runtime', 'KeyError': 'key', 'AttributeError': 'attribute',
       'AssertionError': 'other', 'NotImplementedError': 'other'}

HERE = os.path.dirname(os.path.abspath(__file__))
VERIF_ROOT = os.path.dirname(HERE)
GEN_DIR = os.path.join(VERIF_ROOT, 'lean', 'HdVerif', 'Generated')


class Unsupported(Exception):
    pass


LEAN_T = {'int': 'Int', 'bool': 'Bool', 'rat': 'Rat', 'str': 'String'}
OPT_T = {'optint': 'int', 'optrat': 'rat', 'optstr': 'str'}   # optional parameters, case-split up front


class SymExec:
    def __init__(self, attr_params, consts=None):
        self.lets = []          # (name, expr)
        self.terms = []         # (pc_expr, kind, payload)
        self.counter = itertools.count()
        self.attr_params = attr_params   # 'self.Rows' -> ('int','rows')
        self.consts = consts or {}

    def fresh(self, base, typ, expr):
        name = f"{base}_{next(self.counter)}"
        self.lets.append((name, expr))
        return (typ, name)

    # ---- coercions
    def as_int(self, v):
        t, e = v
        if t == 'int':
            return e
        if t == 'bool':
            return f"(if {e} then (1:Int) else 0)"
        raise Unsupported(f"expected int, got {t}")

    def as_rat(self, v):
        t, e = v
        if t == 'rat':
            return e
        if t in ('int', 'bool'):
            return f"(({self.as_int(v)} : Int) : Rat)"
        raise Unsupported(f"expected number, got {t}")

    def as_bool(self, v):
        t, e = v
        if t == 'bool':
            return e
        if t == 'int':      # truthiness of an int
            return f"({e} != 0)"
        if t == 'none':
            return 'false'
        raise Unsupported(f"expected bool, got {t}")

    # ---- expressions
    def ev(self, node, env):
        key = None
        try:
            key = ast.unparse(node)
        except Exception:  # noqa: BLE001
            pass
        if key is not None and key in self.attr_params and not isinstance(node, ast.Name):
            return self.attr_params[key]
        if isinstance(node, ast.Constant):
            v = node.value
            if v is None:
                return ('none', None)
            if isinstance(v, bool):
                return ('bool', 'true' if v else 'false')
            if isinstance(v, int):
                return ('int', f"({v} : Int)")
            if isinstance(v, float):
                from fractions import Fraction
                fr = Fraction(repr(v))
                return ('rat', f"(({fr.numerator} : Rat) / {fr.denominator})")
            if isinstance(v, str):
                return ('str', '"' + v.replace('\\', '\\\\').replace('"', '\\"') + '"')
            raise Unsupported(ast.dump(node))
        if isinstance(node, ast.Name):
            if node.id in env:
                return env[node.id]
            if node.id in self.attr_params:
                return self.attr_params[node.id]
            if node.id in self.consts:
                return self.consts[node.id]
            raise Unsupported(f"unknown name {node.id}")
        if isinstance(node, ast.Attribute):
            raise Unsupported(f"attribute {key}")
        if isinstance(node, ast.Subscript):
            base = self.ev(node.value, env)
            if base[0] == 'tuple' and isinstance(node.slice, ast.Constant) and isinstance(node.slice.value, int):
                return base[1][node.slice.value]
            raise Unsupported(f"subscript {key}")
        if isinstance(node, ast.UnaryOp):
            v = self.ev(node.operand, env)
            if isinstance(node.op, ast.Not):
                b = self.as_bool(v)
                if b in ('true', 'false'):
                    return ('bool', 'false' if b == 'true' else 'true')
                return ('bool', f"(!{b})")
            if isinstance(node.op, ast.USub):
                if v[0] == 'rat':
                    return ('rat', f"(-{v[1]})")
                return ('int', f"(-{self.as_int(v)})")
            if isinstance(node.op, ast.UAdd):
                return v
            raise Unsupported(ast.dump(node))
        if isinstance(node, ast.BinOp):
            l = self.ev(node.left, env)
            r = self.ev(node.right, env)
            op = {ast.Add: '+', ast.Sub: '-', ast.Mult: '*'}.get(type(node.op))
            if op:
                if l[0] == 'rat' or r[0] == 'rat':
                    return ('rat', f"({self.as_rat(l)} {op} {self.as_rat(r)})")
                return ('int', f"({self.as_int(l)} {op} {self.as_int(r)})")
            if isinstance(node.op, ast.Div):
                return ('rat', f"({self.as_rat(l)} / {self.as_rat(r)})")
            if isinstance(node.op, ast.FloorDiv):
                if l[0] == 'rat' or r[0] == 'rat':
                    return ('rat', f"((Rat.floor ({self.as_rat(l)} / {self.as_rat(r)}) : Int) : Rat)")
                return ('int', f"(Int.fdiv {self.as_int(l)} {self.as_int(r)})")
            if isinstance(node.op, ast.Mod):
                if l[0] == 'rat' or r[0] == 'rat':
                    if isinstance(node.right, ast.Constant) and node.right.value == 1:
                        x = self.fresh('t', 'rat', self.as_rat(l))[1]
                        return ('rat', f"({x} - ((Rat.floor {x} : Int) : Rat))")
                    raise Unsupported('rational modulo other than 1')
                return ('int', f"(Int.fmod {self.as_int(l)} {self.as_int(r)})")
            if isinstance(node.op, ast.Pow):
                if isinstance(node.right, ast.Constant) and isinstance(node.right.value, int) and node.right.value >= 0:
                    if l[0] == 'rat':
                        return ('rat', f"({l[1]} ^ {node.right.value})")
                    return ('int', f"({self.as_int(l)} ^ {node.right.value})")
                if isinstance(node.left, ast.Constant) and node.left.value == 2 and r[0] == 'int':
                    return ('int', f"((2 : Int) ^ (Int.toNat {r[1]}))")
            raise Unsupported(ast.dump(node)[:120])
        if isinstance(node, ast.BoolOp):
            is_and = isinstance(node.op, ast.And)
            vals = []
            for v in node.values:
                b = self.as_bool(self.ev(v, env))
                if b == ('false' if is_and else 'true'):
                    if not vals:
                        return ('bool', b)          # static short circuit
                    vals.append(b)
                    break
                if b == ('true' if is_and else 'false'):
                    continue
                vals.append(b)
            if not vals:
                return ('bool', 'true' if is_and else 'false')
            if len(vals) == 1:
                return ('bool', vals[0])
            op = ' && ' if is_and else ' || '
            return ('bool', '(' + op.join(vals) + ')')
        if isinstance(node, ast.Compare):
            parts = []
            left = self.ev(node.left, env)
            for op, comp in zip(node.ops, node.comparators):
                right = self.ev(comp, env)
                parts.append(self.compare(left, op, right))
                left = right
            parts = [p for p in parts if p != 'true']
            if 'false' in parts:
                return ('bool', 'false')
            if not parts:
                return ('bool', 'true')
            if len(parts) == 1:
                return ('bool', parts[0])
            return ('bool', '(' + ' && '.join(parts) + ')')
        if isinstance(node, ast.IfExp):
            c = self.as_bool(self.ev(node.test, env))
            if c == 'true':
                return self.ev(node.body, env)
            if c == 'false':
                return self.ev(node.orelse, env)
            a = self.ev(node.body, env)
            b = self.ev(node.orelse, env)
            if a[0] == 'rat' or b[0] == 'rat':
                return ('rat', f"(if {c} then {self.as_rat(a)} else {self.as_rat(b)})")
            if a[0] == 'bool' and b[0] == 'bool':
                return ('bool', f"(if {c} then {a[1]} else {b[1]})")
            return ('int', f"(if {c} then {self.as_int(a)} else {self.as_int(b)})")
        if isinstance(node, ast.Call):
            return self.call(node, env)
        if isinstance(node, (ast.Tuple, ast.List)):
            return ('tuple', [self.ev(e, env) for e in node.elts])
        raise Unsupported(ast.dump(node)[:120])

    def compare(self, l, op, r):
        if isinstance(op, (ast.Is, ast.IsNot)):
            if r[0] != 'none' and l[0] != 'none':
                raise Unsupported('is on non-None')
            res = (l[0] == 'none') == (r[0] == 'none')
            if isinstance(op, ast.IsNot):
                res = not res
            return 'true' if res else 'false'
        if isinstance(op, (ast.In, ast.NotIn)) and r[0] == 'tuple' and l[0] != 'tuple':
            # membership in a literal tuple / list: disjunction of equalities
            eqs = [self.compare(l, ast.Eq(), e) for e in r[1]]
            if 'true' in eqs:
                disj = 'true'
            else:
                eqs = [e for e in eqs if e != 'false']
                disj = 'false' if not eqs else (eqs[0] if len(eqs) == 1 else '(' + ' || '.join(eqs) + ')')
            if isinstance(op, ast.In):
                return disj
            return {'true': 'false', 'false': 'true'}.get(disj, f"(!{disj})")
        if l[0] == 'tuple' and r[0] == 'tuple' and isinstance(op, (ast.Eq, ast.NotEq)):
            # tuples of equal length: elementwise (in)equality
            if len(l[1]) != len(r[1]):
                return 'false' if isinstance(op, ast.Eq) else 'true'
            eqs = [self.compare(a, ast.Eq(), b) for a, b in zip(l[1], r[1])]
            conj = '(' + ' && '.join(eqs) + ')' if eqs else 'true'
            return conj if isinstance(op, ast.Eq) else f"(!{conj})"
        if l[0] == 'none' or r[0] == 'none':
            if isinstance(op, ast.Eq):
                return 'true' if l[0] == r[0] else 'false'
            if isinstance(op, ast.NotEq):
                return 'false' if l[0] == r[0] else 'true'
            raise Unsupported('ordering None')
        sym = {ast.Eq: '==', ast.NotEq: '!=', ast.Lt: '<', ast.LtE: '<=', ast.Gt: '>', ast.GtE: '>='}.get(type(op))
        if sym is None:
            raise Unsupported('comparison operator')
        if l[0] == 'str' or r[0] == 'str':
            if l[0] != r[0] or sym not in ('==', '!='):
                raise Unsupported('string comparison')
            return f"({l[1]} {sym} {r[1]})"
        if l[0] == 'rat' or r[0] == 'rat':
            a, b = self.as_rat(l), self.as_rat(r)
        elif l[0] == 'bool' and r[0] == 'bool' and sym in ('==', '!='):
            return f"({l[1]} {sym} {r[1]})"
        else:
            a, b = self.as_int(l), self.as_int(r)
        if sym in ('==', '!='):
            return f"({a} {sym} {b})"
        return f"(decide ({a} {sym} {b}))"

    def call(self, node, env):
        fn = ast.unparse(node.func)
        args = node.args
        if fn == 'cast':
            return self.ev(args[1], env)
        if fn in ('min', 'max'):
            vals = [self.ev(a, env) for a in args]
            if len(vals) == 1 and vals[0][0] == 'tuple':
                vals = vals[0][1]
            if any(v[0] == 'rat' for v in vals):
                es = [self.as_rat(v) for v in vals]
                t = 'rat'
            else:
                es = [self.as_int(v) for v in vals]
                t = 'int'
            acc = es[0]
            for e in es[1:]:
                acc = f"({fn} {acc} {e})"
            return (t, acc)
        if fn in ('np.round', 'numpy.round', 'np.around', 'numpy.around', 'round') and len(args) == 1 and not node.keywords:
            # round half to even (numpy and Python 3); needs spec key 'imports': ['HdVerif.Model.Round']
            x = self.as_rat(self.ev(args[0], env))
            if fn == 'round':
                return ('int', f"(HdVerif.roundHalfEven {x})")
            return ('rat', f"((HdVerif.roundHalfEven {x} : Int) : Rat)")
        if fn in ('abs', 'np.abs', 'numpy.abs'):
            v = self.ev(args[0], env)
            if v[0] == 'rat':
                return ('rat', f"(if {v[1]} < 0 then -{v[1]} else {v[1]})")
            a = self.as_int(v)
            return ('int', f"(if {a} < 0 then -{a} else {a})")
        if fn == 'int':
            v = self.ev(args[0], env)
            if v[0] == 'rat':
                x = self.fresh('t', 'rat', v[1])[1]
                return ('int', f"(if {x} < 0 then Rat.ceil {x} else Rat.floor {x})")
            return ('int', self.as_int(v))
        if fn == 'operator.index':
            # accepts every integer type and nothing else: the identity on the fragment's `int`
            v = self.ev(args[0], env)
            if v[0] not in ('int', 'bool'):
                raise Unsupported('operator.index on a non-integer')
            return ('int', self.as_int(v))
        if fn == 'bool':
            return ('bool', self.as_bool(self.ev(args[0], env)))
        if fn == 'float':
            return ('rat', self.as_rat(self.ev(args[0], env)))
        if fn in ('np.floor', 'numpy.floor'):
            x = self.as_rat(self.ev(args[0], env))
            return ('rat', f"((Rat.floor {x} : Int) : Rat)")
        if fn in ('np.ceil', 'numpy.ceil'):
            x = self.as_rat(self.ev(args[0], env))
            return ('rat', f"((Rat.ceil {x} : Int) : Rat)")
        if fn == 'math.floor':
            x = self.as_rat(self.ev(args[0], env))
            return ('int', f"(Rat.floor {x})")
        if fn == 'math.ceil':
            x = self.as_rat(self.ev(args[0], env))
            return ('int', f"(Rat.ceil {x})")
        if fn == 'slice':
            return ('tuple', [self.ev(a, env) for a in args])
        if fn == 'divmod':
            a = self.as_int(self.ev(args[0], env))
            b = self.as_int(self.ev(args[1], env))
            return ('tuple', [('int', f"(Int.fdiv {a} {b})"), ('int', f"(Int.fmod {a} {b})")])
        if fn in ('np.clip', 'numpy.clip') and len(args) == 3 and not node.keywords:
            # numpy.clip(a, lo, hi) = minimum(hi, maximum(a, lo))
            vals = [self.ev(a, env) for a in args]
            if any(v[0] == 'rat' for v in vals):
                x, lo, hi = (self.as_rat(v) for v in vals)
                return ('rat', f"(min (max {x} {lo}) {hi})")
            x, lo, hi = (self.as_int(v) for v in vals)
            return ('int', f"(min (max {x} {lo}) {hi})")
        if isinstance(node.func, ast.Attribute) and node.func.attr == 'is_integer' and not args:
            v = self.ev(node.func.value, env)
            if v[0] == 'rat':
                x = self.fresh('t', 'rat', v[1])[1]
                return ('bool', f"({x} == ((Rat.floor {x} : Int) : Rat))")
            if v[0] in ('int', 'bool'):
                return ('bool', 'true')
        raise Unsupported(f"call {fn}")

    # ---- statements; pc is a Lean Bool expr
    def block(self, stmts, env, pc):
        for st in stmts:
            env, pc = self.stmt(st, env, pc)
            if pc == 'false':
                break
        return env, pc

    @staticmethod
    def conj(a, b):
        if a == 'true':
            return b
        if b == 'true':
            return a
        if a == 'false' or b == 'false':
            return 'false'
        return f"({a} && {b})"

    def bind(self, name, val):
        if val[0] in ('int', 'bool', 'rat'):
            return self.fresh(name, val[0], val[1])
        if val[0] == 'tuple':
            return ('tuple', [self.bind(f'{name}{i}', v) for i, v in enumerate(val[1])])
        return val

    def assign(self, tgt, val, env):
        if isinstance(tgt, ast.Name):
            env[tgt.id] = self.bind(tgt.id, val)
        elif isinstance(tgt, (ast.Tuple, ast.List)) and val[0] == 'tuple' and len(tgt.elts) == len(val[1]):
            for t, v in zip(tgt.elts, val[1]):
                self.assign(t, v, env)
        else:
            raise Unsupported('assign target ' + ast.unparse(tgt))

    def stmt(self, st, env, pc):
        if isinstance(st, ast.Expr):
            if isinstance(st.value, ast.Constant):
                return env, pc  # docstring
            if isinstance(st.value, ast.Call):
                fn = ast.unparse(st.value.func)
                if fn.startswith('logger.') or fn.startswith('warnings.') or fn == 'print':
                    return env, pc
            raise Unsupported('expression statement ' + ast.unparse(st)[:80])
        if isinstance(st, ast.Pass):
            return env, pc
        if isinstance(st, (ast.Assign, ast.AnnAssign)):
            if isinstance(st, ast.AnnAssign):
                if st.value is None:
                    return env, pc
                targets = [st.target]
            else:
                targets = st.targets
            val = self.ev(st.value, env)
            env = dict(env)
            for tgt in targets:
                self.assign(tgt, val, env)
            return env, pc
        if isinstance(st, ast.AugAssign):
            node = ast.BinOp(left=st.target, op=st.op, right=st.value)
            ast.copy_location(node, st)
            val = self.ev(node, env)
            env = dict(env)
            self.assign(st.target, val, env)
            return env, pc
        if isinstance(st, ast.Raise):
            exc = st.exc
            name = ast.unparse(exc.func) if isinstance(exc, ast.Call) else ast.unparse(exc)
            kind = ERR.get(name, 'other')
            self.terms.append((pc, 'raise', kind))
            return env, 'false'
        if isinstance(st, ast.Assert):
            c = self.as_bool(self.ev(st.test, env))
            if c == 'true':
                return env, pc
            if c == 'false':
                self.terms.append((pc, 'raise', 'other'))
                return env, 'false'
            cname = self.fresh('a', 'bool', c)[1]
            self.terms.append((self.conj(pc, f"(!{cname})"), 'raise', 'other'))
            return env, self.conj(pc, cname)
        if isinstance(st, ast.Return):
            val = self.ev(st.value, env) if st.value is not None else ('none', None)
            self.terms.append((pc, 'return', val))
            return env, 'false'
        if isinstance(st, ast.If):
            c = self.as_bool(self.ev(st.test, env))
            if c == 'true':
                return self.block(st.body, env, pc)
            if c == 'false':
                return self.block(st.orelse, env, pc)
            cname = self.fresh('c', 'bool', c)[1]
            env_t, pc_t = self.block(st.body, env, self.conj(pc, cname))
            env_f, pc_f = self.block(st.orelse, env, self.conj(pc, f"(!{cname})"))
            merged = dict(env)
            for k in list(dict.fromkeys(list(env_t) + list(env_f))):
                vt = env_t.get(k)
                vf = env_f.get(k)
                if vt == vf:
                    merged[k] = vt
                    continue
                if pc_t == 'false':
                    merged[k] = vf
                    continue
                if pc_f == 'false':
                    merged[k] = vt
                    continue
                merged[k] = self.merge(k, cname, vt, vf)
            if pc_t == 'false' and pc_f == 'false':
                newpc = 'false'
            elif pc_t == 'false':
                newpc = pc_f
            elif pc_f == 'false':
                newpc = pc_t
            else:
                newpc = pc
            return merged, newpc
        raise Unsupported(type(st).__name__ + ': ' + ast.unparse(st)[:80])

    def merge(self, k, cname, vt, vf):
        if vt is None or vf is None:
            # defined on one path only: poison (using it later is an error)
            return ('undefined', k)
        if vt[0] == 'tuple' and vf[0] == 'tuple' and len(vt[1]) == len(vf[1]):
            return ('tuple', [self.merge(f'{k}{i}', cname, a, b) for i, (a, b) in enumerate(zip(vt[1], vf[1]))])
        if vt[0] == 'rat' or vf[0] == 'rat':
            return self.fresh(k, 'rat', f"if {cname} then {self.as_rat(vt)} else {self.as_rat(vf)}")
        if vt[0] == 'bool' and vf[0] == 'bool':
            return self.fresh(k, 'bool', f"if {cname} then {vt[1]} else {vf[1]}")
        if vt[0] in ('int', 'bool') and vf[0] in ('int', 'bool'):
            return self.fresh(k, 'int', f"if {cname} then {self.as_int(vt)} else {self.as_int(vf)}")
        if vt[0] == 'none' or vf[0] == 'none':
            return ('undefined', k)
        raise Unsupported(f'cannot merge {k}: {vt} / {vf}')


def lean_value(v):
    t, e = v
    if t == 'tuple':
        return '(' + ', '.join(lean_value(x) for x in e) + ')'
    if t in ('none', 'undefined', 'str'):
        if t == 'str':
            return e
        raise Unsupported(f'cannot return value of type {t}')
    return e


def lean_type(v):
    t, e = v
    if t == 'tuple':
        return '(' + ' × '.join(lean_type(x) for x in e) + ')'
    if t in LEAN_T:
        return LEAN_T[t]
    raise Unsupported(f'cannot return value of type {t}')


def translate_block(stmts, lean_name, params, attr_params, consts=None, doc=''):
    """params: list of (python name, 'int'|'bool'|'optint'|'str'|'rat')."""
    opt = [p for p, t in params if t in OPT_T]
    sigparts = []
    for p, t in params:
        sigparts.append(f"({p} : Option {LEAN_T[OPT_T[t]]})" if t in OPT_T else f"({p} : {LEAN_T[t]})")
    seen = set()
    for k, (t, n) in attr_params.items():
        if n in seen:
            continue
        seen.add(n)
        sigparts.append(f"({n} : {LEAN_T[t]})")
    sig = ' '.join(sigparts)
    ret_types = set()
    bodies = []

    def gen(i, assignment, indent):
        pad = '  ' * indent
        if i == len(opt):
            se = SymExec(attr_params, consts)
            env = {}
            for p, t in params:
                if t in OPT_T:
                    env[p] = ('none', None) if assignment[p] is None else (OPT_T[t], f"{p}_v")
                else:
                    env[p] = (t, p)
            _, pc = se.block(stmts, env, 'true')
            if pc != 'false':
                raise Unsupported('block can fall through without return')
            lines = [f"{pad}let {n} := {e}" for n, e in se.lets]
            chain = ''
            closed = False
            for pc, kind, payload in se.terms:
                if kind == 'raise':
                    res = f".error .{payload}"
                else:
                    res = f".ok {lean_value(payload)}"
                    ret_types.add(lean_type(payload))
                if pc == 'true':
                    chain += res
                    closed = True
                    break
                chain += f"if {pc} then {res} else\n{pad}"
            if not closed:
                chain += ".error .other"
            lines.append(pad + chain)
            return lines
        p = opt[i]
        lines = [f"{pad}match {p} with"]
        a = dict(assignment)
        a[p] = None
        lines.append(f"{pad}| none =>")
        lines += gen(i + 1, a, indent + 1)
        a = dict(assignment)
        a[p] = 'some'
        lines.append(f"{pad}| some {p}_v =>")
        lines += gen(i + 1, a, indent + 1)
        return lines

    body = gen(0, {}, 1)
    if len(ret_types) != 1:
        raise Unsupported(f'return types differ or absent: {ret_types}')
    ret = ret_types.pop()
    head = (f"/-- {doc} -/\n" if doc else '') + f"def {lean_name} {sig} : Except ErrKind {ret} :="
    return head + '\n' + '\n'.join(body)


def find_func(tree, qual):
    node = tree
    for p in qual.split('.'):
        for n in node.body:
            if isinstance(n, (ast.ClassDef, ast.FunctionDef)) and n.name == p:
                node = n
                break
        else:
            raise Unsupported(f'function {qual} not found')
    return node


def strip_doc(body):
    if body and isinstance(body[0], ast.Expr) and isinstance(body[0].value, ast.Constant) and isinstance(body[0].value.value, str):
        return body[1:]
    return body


def span_sha(stmts):
    txt = '\n'.join(ast.unparse(s) for s in stmts)
    return hashlib.sha256(txt.encode()).hexdigest()


def lean_table(name, typ, rows, doc=''):
    return (f"/-- {doc} -/\n" if doc else '') + f"def {name} : {typ} :=\n  [" + ',\n   '.join(rows) + "]"


HEADER = ("-- GENERATED by translate/py2lean.py from /repo's current source; do not edit.\n"
          "import HdVerif.Model.Basic\nset_option linter.unusedVariables false\nnamespace HdVerif.Gen\nopen HdVerif\n\n")
FOOTER = "\n\nend HdVerif.Gen\n"


def regenerate(target_ids, repo):
    """(Re)write Generated/<T>.lean for the given targets from `repo`/src/highdicom.
    Returns {T: {ok, error?, sha, file, changed}}."""
    sys.path.insert(0, HERE)
    import importlib
    import targets as tg
    importlib.reload(tg)
    os.makedirs(GEN_DIR, exist_ok=True)
    out = {}
    trees = {}
    for tid in target_ids:
        if tid not in tg.TARGETS:
            out[tid] = {'ok': False, 'error': f'target {tid} is not defined (target files that failed to load: {getattr(tg, "BROKEN_FILES", {})})'}
            continue
        spec = tg.TARGETS[tid]
        path = os.path.join(GEN_DIR, f'{tid}.lean')
        info = {'ok': True, 'file': os.path.relpath(path, VERIF_ROOT), 'source': spec['file'], 'changed': False}
        try:
            src_path = os.path.join(repo, 'src', 'highdicom', spec['file'])
            if src_path not in trees:
                trees[src_path] = ast.parse(open(src_path).read())
            text, sha = spec['build'](trees[src_path])
            info['sha256'] = sha
            # optional per-target extra imports (spec key 'imports': list of Lean module names)
            hdr = HEADER.replace('import HdVerif.Model.Basic\n', 'import HdVerif.Model.Basic\n' + ''.join(
                f'import {m}\n' for m in spec.get('imports', [])))
            full = hdr + text + FOOTER
            old = open(path).read() if os.path.exists(path) else None
            if old != full:
                tmp = path + '.tmp'
                with open(tmp, 'w') as f:
                    f.write(full)
                os.replace(tmp, path)
                info['changed'] = old is not None
        except Unsupported as e:
            info['ok'] = False
            info['error'] = f'{type(e).__name__}: {e}'
        except Exception as e:  # noqa: BLE001
            info['ok'] = False
            info['error'] = f'{type(e).__name__}: {e}'
        out[tid] = info
    return out


if __name__ == '__main__':
    import json
    sys.path.insert(0, HERE)
    import targets as tg
    ids = sys.argv[1:] or list(tg.TARGETS)
    res = regenerate(ids, os.environ.get('HD_REPO', '/repo'))
    print(json.dumps(res, indent=1))
    sys.exit(0 if all(r['ok'] for r in res.values()) else 1)
