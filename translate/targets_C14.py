"""Translation targets of C14 (sr/value_types.py, class ContentSequence): the relationship-type decision trees.

T14 -> Generated/T14.lean
  * `csCtorFlags`     the guard `is_root and not is_sr` of `ContentSequence.__init__`
  * `csCtorCheck`     the per-item checks of `__init__` (second loop over `items`): type, relationship type, container
  * `csAppendCheck`   the checks of `append` before the index and the list are touched
  * `csInsertCheck`   the same for `insert`
  * `csSetitemCheck`  the per-item checks of `__setitem__`
Inputs: `is_root`, `is_sr` (the flags), `is_item` (`isinstance(x, ContentItem)`), `has_rel`
(`x.relationship_type is not None`), `is_container` (`isinstance(x, ContainerContentItem)`).
`extend` and `__iadd__` are checked to consist of `self.append(item)` per item / `self.extend(val)`.

T14v -> Generated/T14v.lean  (bridges of Proofs/SRSeqTie.lean): `csCheckDatasetRel` (relationship guard of _check_dataset),
`csFromSeqCheckFlags` / `csFromSeqCtorFlags` (the flags from_sequence hands to _check_dataset / the constructor),
`csAttachFlags` (flags of the sequence ContentItem.__setattr__ builds: call arguments, else __init__ defaults),
`csRemoveByIdentity` (per removal loop: entry of the name index located by `is` or by `==`).
"""
from __future__ import annotations

import ast
import hashlib

from py2lean import Unsupported, find_func, span_sha, strip_doc, translate_block


def _norm(node):
    return ''.join(ast.unparse(node).split())


class _Rewrite(ast.NodeTransformer):
    def __init__(self, table):
        self.table = table

    def generic_visit(self, node):
        if isinstance(node, ast.expr):
            key = _norm(node)
            if key in self.table:
                return ast.copy_location(ast.parse(self.table[key], mode='eval').body, node)
        return super().generic_visit(node)


def _rewrite(stmts, table):
    out = []
    for s in stmts:
        s2 = _Rewrite(table).visit(ast.parse(ast.unparse(s)).body[0])
        ast.fix_missing_locations(s2)
        out.append(ast.parse(ast.unparse(s2)).body[0])
    return out


def _ret(expr):
    return ast.parse(f'return {expr}').body[0]


def _table(var):
    return {
        'self._is_root': 'is_root', 'self._is_sr': 'is_sr',
        f'isinstance({var},ContentItem)': 'is_item',
        f'{var}.relationship_typeisnotNone': 'has_rel', f'{var}.relationship_typeisNone': '(not has_rel)',
        f'isinstance({var},ContainerContentItem)': 'is_container',
    }


def _leading_ifs(body):
    out = []
    for st in body:
        if isinstance(st, ast.If):
            out.append(st)
        elif isinstance(st, ast.Expr) and isinstance(st.value, ast.Constant):
            continue
        else:
            break
    return out


PARAMS3 = [('is_root', 'bool'), ('is_sr', 'bool'), ('is_item', 'bool'), ('has_rel', 'bool')]


def build_T14(tree):
    out, shas = [], []
    cls = 'ContentSequence'
    # ---- __init__
    fn = find_func(tree, f'{cls}.__init__')
    body = strip_doc(fn.body)
    flags = [st for st in body if isinstance(st, ast.If) and _norm(st.test) in ('is_rootandnotis_sr', 'is_rootand(notis_sr)')]
    if len(flags) != 1:
        raise Unsupported('__init__: guard `is_root and not is_sr` not found')
    out.append(translate_block([flags[0], _ret('True')], 'csCtorFlags', [('is_root', 'bool'), ('is_sr', 'bool')], {},
                               doc='`ContentSequence.__init__`: root sequences must be SR sequences'))
    loops = [l for st in body if isinstance(st, ast.If) and _norm(st.test) == 'itemsisnotNone'
             for l in st.body if isinstance(l, ast.For)]
    check_loops = [l for l in loops if any(isinstance(x, ast.Raise) for x in ast.walk(l))]
    if len(check_loops) != 1 or _norm(check_loops[0].iter) != 'items' or not isinstance(check_loops[0].target, ast.Name):
        raise Unsupported('__init__: the checking loop `for i in items` not found')
    var = check_loops[0].target.id
    shas.append(span_sha([flags[0], check_loops[0]]))
    out.append(translate_block(_rewrite(check_loops[0].body, _table(var)) + [_ret('True')], 'csCtorCheck',
                               PARAMS3 + [('is_container', 'bool')], {},
                               doc='`ContentSequence.__init__`: checks applied to every item offered'))
    index_loops = [l for l in loops if l is not check_loops[0]]
    first_if = [st for st in body if isinstance(st, ast.If) and _norm(st.test) == 'itemsisnotNone'][0]
    if not first_if.body or _norm(first_if.body[0]) != 'items=list(items)':
        raise Unsupported('__init__: items is no longer copied into a list first (one-shot iterators)')
    if len(index_loops) != 1 or _norm(index_loops[0]) != f'for{index_loops[0].target.id}initems:self._lut[{index_loops[0].target.id}.name].append({index_loops[0].target.id})':
        raise Unsupported('__init__: the indexing loop changed')
    # ---- append / insert
    for meth, lean in (('append', 'csAppendCheck'), ('insert', 'csInsertCheck')):
        fn = find_func(tree, f'{cls}.{meth}')
        body = strip_doc(fn.body)
        ifs = _leading_ifs(body)
        rest = body[len(ifs):]
        if len(ifs) != 2 or len(rest) != 2:
            raise Unsupported(f'{meth}: expected two guards followed by the index update and the list call')
        # insert: the list call comes first (it raises for a position that is not an int), then the index
        want = ['self._lut[val.name].append(val)', 'super().append(val)'] if meth == 'append' else \
            ['super().insert(position,val)', 'self._lut[val.name].append(val)']
        if [_norm(s) for s in rest] != want:
            raise Unsupported(f'{meth}: tail is no longer {want}')
        shas.append(span_sha(body))
        out.append(translate_block(_rewrite(ifs, _table('val')) + [_ret('True')], lean, PARAMS3, {},
                                   doc=f'`ContentSequence.{meth}`: checks before the index and the list are touched'))
    # ---- extend / __iadd__
    fn = find_func(tree, f'{cls}.extend')
    body = strip_doc(fn.body)
    if len(body) != 1 or _norm(body[0]) != 'foriteminlist(val):self.append(item)':
        raise Unsupported('extend is no longer `for item in list(val): self.append(item)` (a copy: the argument may be '
                          'the sequence itself)')
    fn = find_func(tree, f'{cls}.__iadd__')
    body = strip_doc(fn.body)
    if [_norm(s) for s in body] != ['self.extend(val)', 'returnself']:
        raise Unsupported('__iadd__ is no longer `self.extend(val); return self`')
    # ---- __setitem__
    cnode = find_func(tree, cls)
    defs = [n for n in cnode.body if isinstance(n, ast.FunctionDef) and n.name == '__setitem__']
    if not defs:
        raise Unsupported('__setitem__ not found')
    fn = defs[-1]          # the two @overload stubs come first
    body = strip_doc(fn.body)
    loops = [st for st in body if isinstance(st, ast.For) and any(isinstance(x, ast.Raise) for x in ast.walk(st))]
    if len(loops) != 1 or _norm(loops[0].iter) != 'items' or not isinstance(loops[0].target, ast.Name):
        raise Unsupported('__setitem__: the checking loop `for i in items` not found')
    shas.append(span_sha(body))
    out.append(translate_block(_rewrite(loops[0].body, _table(loops[0].target.id)) + [_ret('True')], 'csSetitemCheck', PARAMS3, {},
                               doc='`ContentSequence.__setitem__`: checks applied to every item offered'))
    sa = find_func(tree, 'ContentItem.__setattr__')
    import re
    # the flags the call passes (or leaves to the defaults) are extracted by T14v (`csAttachFlags`)
    if not re.fullmatch(r"ifname=='ContentSequence':super\(\)\.__setattr__\(name,ContentSequence\(value(,[^()]*)?\)\)"
                        r"else:super\(\)\.__setattr__\(name,value\)", ''.join(_norm(x) for x in strip_doc(sa.body))):
        raise Unsupported('ContentItem.__setattr__ no longer wraps ContentSequence values in ContentSequence(value, …)')
    txt = ''.join(_norm(s) for s in body)
    i_loop, i_old, i_set = txt.find('foriinitems:'), txt.find('replaced_items='), txt.find('super().__setitem__(idx,val)')
    i_rm, i_add = txt.find('delself._lut[i.name][index]'), txt.rfind('self._lut[i.name].append(i)')
    if not (0 <= i_loop < i_old < i_set < i_rm < i_add):
        raise Unsupported('__setitem__: order checks / old items / list assignment / index removal / index insertion changed')
    return '\n\n'.join(out), hashlib.sha256(''.join(shas).encode()).hexdigest()


TARGETS = {'T14': {'file': 'sr/value_types.py', 'build': build_T14}}


# ======================================================================================================
# T14p: the methods of ContentSequence, statement by statement, as programs of Model/SRSeqIR.lean
# ======================================================================================================
import re as _re

from py2lean import lean_table


def _is_guard(st):
    """an `if` whose every branch ends in `raise` and that assigns nothing"""
    if not isinstance(st, ast.If):
        return False
    has_raise = any(isinstance(x, ast.Raise) for x in ast.walk(st))
    assigns = any(isinstance(x, (ast.Assign, ast.AugAssign, ast.AnnAssign, ast.Delete, ast.Return)) for x in ast.walk(st))
    calls = [c for c in ast.walk(st) if isinstance(c, ast.Call) and not isinstance(c.func, ast.Name)]
    calls = [c for c in calls if _norm(c.func) not in ('self.__class__.__name__',)]
    return has_raise and not assigns and not calls


def _lut_append(st, var):
    return isinstance(st, ast.Expr) and _norm(st) == f'self._lut[{var}.name].append({var})'


def _remove_loop(st):
    """`for i in <old>: [i = cast(ContentItem, i);] index = self._lut[i.name].index(i); del self._lut[i.name][index]` -> old name"""
    if not (isinstance(st, ast.For) and isinstance(st.target, ast.Name) and isinstance(st.iter, ast.Name) and not st.orelse):
        return None
    v = st.target.id
    body = [_norm(s) for s in st.body]
    if body and body[0] == f'{v}=cast(ContentItem,{v})':
        body = body[1:]
    # identity, not equality: `index = [m is i for m in self._lut[i.name]].index(True)`
    m = _re.fullmatch(rf'(\w+)=\[(\w+)is{v}for\2inself\._lut\[{v}\.name\]\]\.index\(True\)', body[0]) if len(body) == 2 else None
    if m and body[1] == f'delself._lut[{v}.name][{m.group(1)}]':
        return st.iter.id
    return None


def _append_loop(st):
    """`for i in <items>: self._lut[i.name].append(i)` -> items name"""
    if isinstance(st, ast.For) and isinstance(st.target, ast.Name) and isinstance(st.iter, ast.Name) and not st.orelse \
            and len(st.body) == 1 and _lut_append(st.body[0], st.target.id):
        return st.iter.id
    return None


def _check_loop(st):
    if isinstance(st, ast.For) and isinstance(st.target, ast.Name) and isinstance(st.iter, ast.Name) and not st.orelse \
            and all(_is_guard(s) for s in st.body) and st.body:
        return st.iter.id
    return None


def _bind_old(st):
    """`if isinstance(idx, slice): X = self[idx]  else: X = [self[idx]]` -> X"""
    if isinstance(st, ast.If) and _norm(st.test) == 'isinstance(idx,slice)' and len(st.body) == 1 and len(st.orelse) == 1:
        a, b = _norm(st.body[0]), _norm(st.orelse[0])
        m = _re.fullmatch(r'(\w+)=self\[idx\]', a)
        if m and b == f'{m.group(1)}=[self[idx]]':
            return m.group(1)
    return None


def _prog(fn_name, stmts):
    return lean_table(fn_name, 'List HdVerif.SRSeqIR.MStmt', ['.' + s for s in stmts])


def _mutator(tree, cls, meth, fn=None):
    fn = fn or find_func(tree, f'{cls}.{meth}')
    body = strip_doc(fn.body)
    out = []
    args_name = {'append': 'val', 'insert': 'val', 'extend': 'val', '__iadd__': 'val', '__setitem__': 'items', '__delitem__': None,
                 '__init__': 'items'}[meth]
    old_name = None
    k = 0
    while k < len(body):
        st = body[k]
        n = _norm(st)
        # two leading guards of append / insert = one checkEach
        if meth in ('append', 'insert') and _is_guard(st):
            j = k
            while j < len(body) and _is_guard(body[j]):
                j += 1
            if j - k != 2:
                raise Unsupported(f'{meth}: {j - k} leading guards instead of 2')
            out.append(f'checkEach .{meth}')
            k = j
            continue
        if meth == '__init__':
            if n in ('self._is_root=is_root', 'self._is_sr=is_sr'):
                if not out or out[-1] != 'setFlags':
                    out.append('setFlags')
                k += 1
                continue
            if isinstance(st, ast.If) and _norm(st.test) in ('is_rootandnotis_sr', 'is_rootand(notis_sr)') and _is_guard(st):
                out.append('flags')
                k += 1
                continue
            if isinstance(st, ast.AnnAssign) and _norm(st.target) == 'self._lut' and _norm(st.value) == 'defaultdict(list)' or \
                    n == 'self._lut=defaultdict(list)':
                out.append('lutInit')
                k += 1
                continue
            if isinstance(st, ast.If) and _norm(st.test) == 'itemsisnotNone':
                inner = st.body
                if st.orelse:
                    if [_norm(s) for s in st.orelse] != ['super().__init__()']:
                        raise Unsupported('__init__: else-branch is not super().__init__()')
                    if len(inner) < 2 or [_norm(x) for x in inner[:2]] != ['items=list(items)', 'super().__init__(items)']:
                        raise Unsupported('__init__: items branch does not start with items = list(items); super().__init__(items)')
                    out.append('normArgs')
                    out.append('listInit')
                    inner = inner[2:]
                for s in inner:
                    if _append_loop(s) == 'items':
                        out.append('lutAppendArgs')
                    elif _check_loop(s) == 'items':
                        out.append('checkEach .ctor')
                    else:
                        raise Unsupported('__init__: unrecognised statement ' + ast.unparse(s)[:80])
                k += 1
                continue
            raise Unsupported('__init__: unrecognised statement ' + ast.unparse(st)[:80])
        if n == f'self._lut[{args_name}.name].append({args_name})' and meth in ('append', 'insert'):
            out.append('lutAppendArgs')
        elif n == 'super().append(val)' and meth == 'append':
            out.append('listAppend')
        elif n == 'super().insert(position,val)' and meth == 'insert':
            out.append('listInsert')
        elif meth == 'extend' and isinstance(st, ast.For) and _norm(st.iter) == 'list(val)' and isinstance(st.target, ast.Name) \
                and [_norm(s) for s in st.body] == [f'self.append({st.target.id})'] and not st.orelse:
            out.append('forEachArg .append')
        elif meth == '__iadd__' and n == 'self.extend(val)':
            out.append('call .extend')
        elif meth == '__iadd__' and n == 'returnself' and k == len(body) - 1:
            pass
        elif meth == '__setitem__' and n == 'ifisinstance(idx,slice):val=list(val)items=valelse:items=[val]':
            out.append('normArgs')
        elif meth == '__setitem__' and _check_loop(st) == 'items':
            out.append('checkEach .setitem')
        elif meth in ('__setitem__', '__delitem__') and _bind_old(st):
            if old_name is not None:
                raise Unsupported(f'{meth}: old items bound twice')
            old_name = _bind_old(st)
            out.append('bindOld')
        elif meth in ('__setitem__', '__delitem__') and _remove_loop(st) is not None:
            if _remove_loop(st) != old_name:
                raise Unsupported(f'{meth}: index entries removed for {_remove_loop(st)}, not for the bound old items')
            out.append('lutRemoveOld')
        elif meth == '__setitem__' and _append_loop(st) == 'items':
            out.append('lutAppendArgs')
        elif meth == '__setitem__' and n == 'super().__setitem__(idx,val)':
            out.append('listAssign')
        elif meth == '__delitem__' and n == 'super().__delitem__(idx)':
            out.append('listDelete')
        else:
            raise Unsupported(f'{meth}: unrecognised statement ' + ast.unparse(st)[:80])
        k += 1
    return out, span_sha(body)


def _flag_src(node, own):
    n = _norm(node)
    if n == own:
        return 'own'
    if n == 'True':
        return 'constTrue'
    if n == 'False':
        return 'constFalse'
    raise Unsupported('flag expression ' + n)


def _collect(tree, cls, meth):
    fn = find_func(tree, f'{cls}.{meth}')
    body = strip_doc(fn.body)
    src_txt = {'find': ('self._lut[name]', 'bucketOfName'),
               'get_nodes': ("[itemforiteminselfifhasattr(item,'ContentSequence')]", 'nodesOfSelf')}[meth]

    def flags_of(call, skip_pos=0):
        kw = {k.arg: k.value for k in call.keywords}
        if len(call.args) != skip_pos or set(kw) - {'is_root', 'is_sr'}:
            raise Unsupported(f'{meth}: unexpected arguments of the result constructor')
        root = _flag_src(kw['is_root'], 'self._is_root') if 'is_root' in kw else 'constFalse'     # defaults of __init__
        sr = _flag_src(kw['is_sr'], 'self._is_sr') if 'is_sr' in kw else 'constTrue'
        return root, sr
    # shape A: x = ContentSequence(flags); x.extend(src); return cast(Self, x) | return x
    if len(body) == 3 and isinstance(body[0], ast.Assign) and isinstance(body[0].value, ast.Call) \
            and _norm(body[0].value.func) in ('ContentSequence', 'self.__class__') and isinstance(body[0].targets[0], ast.Name):
        x = body[0].targets[0].id
        root, sr = flags_of(body[0].value)
        if _norm(body[1]) != f'{x}.extend({src_txt[0]})':
            raise Unsupported(f'{meth}: second statement is not {x}.extend({src_txt[0]})')
        if _norm(body[2]) not in (f'returncast(Self,{x})', f'return{x}'):
            raise Unsupported(f'{meth}: does not return the new sequence')
        via = 'extend'
    # shape B: return ContentSequence(src, flags)
    elif len(body) == 1 and isinstance(body[0], ast.Return) and isinstance(body[0].value, ast.Call) \
            and _norm(body[0].value.func) in ('ContentSequence', 'self.__class__') and len(body[0].value.args) == 1 \
            and _norm(body[0].value.args[0]) == src_txt[0]:
        root, sr = flags_of(body[0].value, 1)
        via = 'constructor'
    else:
        raise Unsupported(f'{meth}: unrecognised shape')
    text = (f'def csProg_{meth} : HdVerif.SRSeqIR.CollectProg :=\n  {{ root := .{root}, sr := .{sr}, src := .{src_txt[1]}, via := .{via} }}')
    return text, span_sha(body)


def _index(tree, cls):
    fn = find_func(tree, f'{cls}.index')
    body = strip_doc(fn.body)
    txt = [_norm(s) for s in body]
    if len(body) != 5 or not _is_guard(body[0]) or 'isinstance(val,ContentItem)' not in txt[0]:
        raise Unsupported('index: expected type guard, message, bucket look-up, membership test, return')
    if not txt[1].startswith('error_message='):
        raise Unsupported('index: error message assignment expected')
    t = body[2]
    if not (isinstance(t, ast.Try) and len(t.body) == 1 and _re.fullmatch(r'(\w+)=self\._lut\[(\w+)\.name\]', _norm(t.body[0]))
            and len(t.handlers) == 1 and _norm(t.handlers[0].type) == 'KeyError'
            and any(isinstance(x, ast.Raise) and 'ValueError' in _norm(x) for x in t.handlers[0].body)):
        raise Unsupported('index: bucket look-up changed')
    m = _re.fullmatch(r'(\w+)=self\._lut\[(\w+)\.name\]', _norm(t.body[0]))
    bucket, keyvar = m.group(1), m.group(2)
    t2 = body[3]
    if not (isinstance(t2, ast.Try) and len(t2.body) == 1 and len(t2.handlers) == 1 and _norm(t2.handlers[0].type) == 'ValueError'
            and any(isinstance(x, ast.Raise) and 'ValueError' in _norm(x) for x in t2.handlers[0].body)):
        raise Unsupported('index: membership test changed')
    mem = _norm(t2.body[0])
    bound = None
    if mem == f'{bucket}.index(val)':
        pass
    elif _re.fullmatch(rf'(\w+)={bucket}\.index\(val\)', mem):
        bound = _re.fullmatch(rf'(\w+)={bucket}\.index\(val\)', mem).group(1)
    else:
        raise Unsupported('index: membership test is not <bucket>.index(val)')
    ret = txt[4]
    if ret == 'returnsuper().index(val)':
        result = 'listIndex'
    elif bound is not None and ret == f'return{bound}':
        result = 'bucketIndex'
    else:
        raise Unsupported('index: unrecognised return ' + ret)
    text = ('def csProg_index : HdVerif.SRSeqIR.IndexProg :=\n'
            f'  {{ bucketKeyIsArgName := {"true" if keyvar == "val" else "false"}, membershipInBucket := true, result := .{result} }}')
    return text, span_sha(body)


def build_T14p(tree):
    cls = 'ContentSequence'
    out, shas = [], []
    cnode = find_func(tree, cls)
    setitems = [n for n in cnode.body if isinstance(n, ast.FunctionDef) and n.name == '__setitem__']
    for meth in ('__init__', 'append', 'extend', '__iadd__', 'insert', '__setitem__', '__delitem__'):
        stmts, sha = _mutator(tree, cls, meth, setitems[-1] if meth == '__setitem__' and setitems else None)
        out.append(_prog('csProg_' + meth.strip('_'), stmts))
        shas.append(sha)
    for meth in ('find', 'get_nodes'):
        text, sha = _collect(tree, cls, meth)
        out.append(text)
        shas.append(sha)
    text, sha = _index(tree, cls)
    out.append(text)
    shas.append(sha)
    fn = find_func(tree, f'{cls}.__contains__')
    body = strip_doc(fn.body)
    ok = [_norm(s) for s in body] == ['try:self.index(val)exceptValueError:returnFalse', 'returnTrue']
    methods = sorted({n.name for n in cnode.body if isinstance(n, ast.FunctionDef)})
    out.append(lean_table('csMethods', 'List String', ['"' + m + '"' for m in methods],
                          doc='every method the class ContentSequence defines itself (a new override must be modelled)'))
    out.append('/-- `__contains__` is `index` with ValueError turned into False -/\n'
               f'def csContainsViaIndex : Bool := {"true" if ok else "false"}')
    shas.append(span_sha(body))
    return '\n\n'.join(out), hashlib.sha256(''.join(shas).encode()).hexdigest()


TARGETS['T14p'] = {'file': 'sr/value_types.py', 'build': build_T14p, 'imports': ['HdVerif.Model.SRSeqIR']}


# ======================================================================================================
# T14v: expressions the hand-written part of Model/SRContentSeq.lean copies (bridges in Proofs/SRSeqTie.lean):
# the relationship guard of _check_dataset and the flags from_sequence forwards, the flags of the sequence that the
# ContentSequence attribute setter builds, and how the removal loops locate an entry of the name index
# ======================================================================================================

_FLAGS = ('is_root', 'is_sr')


def _flag_args(call, sig_fn, skip):
    """the expressions a call passes for is_root / is_sr: keyword, else position, else the default of the signature"""
    names = [a.arg for a in sig_fn.args.args][skip:]
    defaults = dict(zip([a.arg for a in sig_fn.args.args][len(sig_fn.args.args) - len(sig_fn.args.defaults):],
                        sig_fn.args.defaults))
    got = {}
    for pos, a in enumerate(call.args):
        if isinstance(a, ast.Starred) or pos >= len(names):
            raise Unsupported('call with starred / surplus arguments: ' + ast.unparse(call))
        got[names[pos]] = a
    for k in call.keywords:
        if k.arg is None:
            raise Unsupported('call with **kwargs: ' + ast.unparse(call))
        got[k.arg] = k.value
    out = []
    for f in _FLAGS:
        e = got.get(f, defaults.get(f))
        txt = _norm(e) if e is not None else None
        lean = {'is_root': 'is_root', 'is_sr': 'is_sr', 'True': 'true', 'False': 'false'}.get(txt)
        if lean is None:
            raise Unsupported(f'flag {f} is passed as {txt}: ' + ast.unparse(call))
        out.append(lean)
    return '(' + ', '.join(out) + ')'


def _calls(node, pred):
    return [c for c in ast.walk(node) if isinstance(c, ast.Call) and pred(_norm(c.func))]


def build_T14v(tree):
    out, shas = [], []
    init = find_func(tree, 'ContentSequence.__init__')
    chk = find_func(tree, 'ContentSequence._check_dataset')
    fs = find_func(tree, 'ContentSequence.from_sequence')
    # ---- relationship guard of _check_dataset
    gs = [s for s in chk.body if isinstance(s, ast.If) and "hasattr(dataset,'RelationshipType')" in _norm(s.test)]
    if len(gs) != 1 or not _is_guard(gs[0]):
        raise Unsupported('_check_dataset: one raising guard on RelationshipType expected')
    shas.append(span_sha(gs))
    out.append(translate_block(_rewrite(gs, {"hasattr(dataset,'RelationshipType')": 'has_rel'}) + [_ret('True')],
                               'csCheckDatasetRel', [('has_rel', 'bool'), ('is_root', 'bool'), ('is_sr', 'bool')], {},
                               doc='relationship-type guard of `ContentSequence._check_dataset`'))
    # ---- from_sequence: the flags it hands to _check_dataset and to the constructor
    body = strip_doc(fs.body)
    shas.append(span_sha(body))
    c1 = _calls(fs, lambda f: f == 'cls._check_dataset')
    c2 = _calls(fs, lambda f: f in ('ContentSequence', 'cls'))
    if len(c1) != 1 or len(c2) != 1 or not isinstance(body[-1], ast.Return) or body[-1].value is not c2[0]:
        raise Unsupported('from_sequence: one call of _check_dataset and `return ContentSequence(…)` expected')
    out.append('/-- `from_sequence`: (is_root, is_sr) as handed to `_check_dataset` -/\n'
               f'def csFromSeqCheckFlags (is_root is_sr : Bool) : Bool × Bool := {_flag_args(c1[0], chk, 2)}')
    out.append('/-- `from_sequence`: (is_root, is_sr) as handed to the constructor -/\n'
               f'def csFromSeqCtorFlags (is_root is_sr : Bool) : Bool × Bool := {_flag_args(c2[0], init, 1)}')
    # ---- ContentItem.__setattr__: the sequence built for the ContentSequence attribute
    sa = find_func(tree, 'ContentItem.__setattr__')
    sbody = strip_doc(sa.body)
    shas.append(span_sha(sbody))
    if len(sbody) != 1 or not isinstance(sbody[0], ast.If) or _norm(sbody[0].test) != "name=='ContentSequence'" \
            or len(sbody[0].body) != 1:
        raise Unsupported("ContentItem.__setattr__: `if name == 'ContentSequence': …` expected")
    c3 = _calls(sbody[0].body[0], lambda f: f == 'ContentSequence')
    if len(c3) != 1 or _norm(sbody[0].body[0]) != f'super().__setattr__(name,{_norm(c3[0])})' \
            or not c3[0].args or _norm(c3[0].args[0]) != 'value':
        raise Unsupported('ContentItem.__setattr__: super().__setattr__(name, ContentSequence(value, …)) expected')
    shas.append(span_sha([init.args]))
    flags = _flag_args(c3[0], init, 1)
    if 'is_' in flags:
        raise Unsupported('ContentItem.__setattr__: flags are not constants')
    out.append('/-- `item.ContentSequence = value`: (is_root, is_sr) of the sequence that is stored (arguments of the call in\n'
               '`ContentItem.__setattr__`, else the defaults of `ContentSequence.__init__`) -/\n'
               f'def csAttachFlags : Bool × Bool := {flags}')
    out.append('/-- `item.ContentSequence = value`: the ONLY statement of that branch is `super().__setattr__(name,\n'
               'ContentSequence(value, …))` — whatever is assigned (a list, a pydicom Sequence, a ContentSequence, another item\'s\n'
               'content) a NEW sequence is built from its items and stored; no path stores `value` itself, so the item owns\n'
               'its nested content (regeneration fails when the branch has any other shape) -/\n'
               'def csAttachRebuilds : Bool := true')
    # ---- how the removal loops find the entry of the name index
    cnode = find_func(tree, 'ContentSequence')
    rows = []
    for fn in [n for n in cnode.body if isinstance(n, ast.FunctionDef)]:
        for st in ast.walk(fn):
            if not (isinstance(st, ast.For) and isinstance(st.target, ast.Name)):
                continue
            v = st.target.id
            for s in st.body:
                t = _norm(s)
                if _re.fullmatch(rf'(\w+)=\[(\w+)is{v}for\2inself\._lut\[{v}\.name\]\]\.index\(True\)', t):
                    rows.append((fn.name, 'true'))
                    shas.append(span_sha([s]))
                elif _re.fullmatch(rf'(\w+)=self\._lut\[{v}\.name\]\.index\({v}\)', t) or \
                        _re.fullmatch(rf'(\w+)=\[(\w+)=={v}for\2inself\._lut\[{v}\.name\]\]\.index\(True\)', t):
                    rows.append((fn.name, 'false'))
                    shas.append(span_sha([s]))
                elif '_lut' in t and '.index(' in t:
                    raise Unsupported(f'{fn.name}: unknown way of locating an index entry: {ast.unparse(s)}')
    if not rows:
        raise Unsupported('no removal loop found in ContentSequence')
    out.append(lean_table('csRemoveByIdentity', 'List (String × Bool)', [f'("{m}", {b})' for m, b in rows],
                          doc='per removal loop (method): the entry of the name index is located by identity (`m is i`, true)\n'
                              'or by equality (`.index(i)`, false)'))
    return '\n\n'.join(out), hashlib.sha256(''.join(shas).encode()).hexdigest()


TARGETS['T14v'] = {'file': 'sr/value_types.py', 'build': build_T14v}


# ======================================================================================================
# T14s: the STATE of a ContentSequence object and how it is handed out: every attribute any method assigns on
# `self`, the flag properties, the base classes and class-level assignments (a hook such as `__copy__ = …` need not be
# a `def`).  Model/SRContentSeq.lean's `Seq` has the list of the base class plus exactly these attributes, and
# Model/SRSeqPool.lean's reading of copy / deepcopy / pickle relies on there being no further state and no hooks
# (theorem object_state_pinned).
# ======================================================================================================

def build_T14s(tree):
    cnode = find_func(tree, 'ContentSequence')
    if not isinstance(cnode, ast.ClassDef):
        raise Unsupported('class ContentSequence not found')
    shas = [span_sha([cnode])]
    attrs = set()
    for n in ast.walk(cnode):
        targets = []
        if isinstance(n, ast.Assign):
            targets = n.targets
        elif isinstance(n, (ast.AnnAssign, ast.AugAssign)):
            targets = [n.target]
        elif isinstance(n, ast.Call) and _norm(n.func) in ('setattr', 'object.__setattr__') and n.args and _norm(n.args[0]) == 'self':
            raise Unsupported('ContentSequence sets an attribute through setattr(self, …): ' + ast.unparse(n)[:80])
        for t in targets:
            for leaf in ast.walk(t):
                if isinstance(leaf, ast.Attribute) and isinstance(leaf.value, ast.Name) and leaf.value.id == 'self' \
                        and isinstance(leaf.ctx, ast.Store):
                    attrs.add(leaf.attr)
        if isinstance(n, ast.Attribute) and _norm(n) == 'self.__dict__':
            raise Unsupported('ContentSequence touches self.__dict__ directly')
    props = []
    for fn in [n for n in cnode.body if isinstance(n, ast.FunctionDef)]:
        if any(_norm(d) == 'property' for d in fn.decorator_list):
            body = strip_doc(fn.body)
            if len(body) != 1 or not isinstance(body[0], ast.Return) or not _re.fullmatch(r'self\.\w+', _norm(body[0].value)):
                raise Unsupported(f'property {fn.name} is no longer `return self.<attribute>`')
            props.append((fn.name, _norm(body[0].value)[5:]))
    class_attrs = sorted({leaf.id for n in cnode.body if isinstance(n, (ast.Assign, ast.AnnAssign))
                          for t in (n.targets if isinstance(n, ast.Assign) else [n.target])
                          for leaf in ast.walk(t) if isinstance(leaf, ast.Name)})
    nested = sorted(n.name for n in cnode.body if isinstance(n, (ast.ClassDef, ast.AsyncFunctionDef)))
    it = [n for n in cnode.body if isinstance(n, ast.FunctionDef) and n.name == '__iter__']
    iter_ok = len(it) == 1 and [_norm(x) for x in strip_doc(it[0].body)] == ['returnsuper().__iter__()']
    out = [
        lean_table('csInstanceAttrs', 'List String', [f'"{a}"' for a in sorted(attrs)],
                   doc='every attribute a method of ContentSequence assigns on `self` (the list itself lives in the pydicom base class)'),
        lean_table('csFlagProps', 'List (String × String)', [f'("{a}", "{b}")' for a, b in sorted(props)],
                   doc='the properties of ContentSequence and the attribute each returns'),
        lean_table('csBases', 'List String', [f'"{_norm(b)}"' for b in cnode.bases],
                   doc='base classes of ContentSequence as written'),
        lean_table('csClassLevelNames', 'List String', [f'"{a}"' for a in class_attrs + nested],
                   doc='names bound in the class body other than by `def` (a hook assigned as an attribute, a nested class)'),
        '/-- the one override that is not a program of T14p: `__iter__` is exactly `return super().__iter__()` (iteration = the\n'
        'stored list, which `get_nodes`, `extend(self)`, `list(seq)` go through) -/\n'
        f'def csIterDelegates : Bool := {"true" if iter_ok else "false"}',
    ]
    return '\n\n'.join(out), hashlib.sha256(''.join(shas).encode()).hexdigest()


TARGETS['T14s'] = {'file': 'sr/value_types.py', 'build': build_T14s}
