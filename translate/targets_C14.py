"""Translation targets of C14 (sr/value_types.py, class ContentSequence): the relationship-type decision trees.

T14 -> Generated/T14.lean
  * `csCtorFlags`     the guard `is_root and not is_sr` of `ContentSequence.__init__`
  * `csCtorCheck`     the per-item checks of `__init__` (second loop over `items`): type, relationship type, container
  * `csAppendCheck`   the checks of `append` before the index and the list are touched
  * `csInsertCheck`   the same for `insert`
  * `csSetitemCheck`  the per-item checks of `__setitem__`
Inputs: `is_root`, `is_sr` (the flags), `is_item` (`isinstance(x, ContentItem)`), `has_rel`
(`x.relationship_type is not None`), `is_container` (`isinstance(x, ContainerContentItem)`).
`extend` and `__iadd__` are checked to consist of `self.append(item)` per item / `self.extend(val)`.
"""
from __future__ import annotations

import ast
import hashlib

from py2lean import Unsupported, find_func, span_sha, strip_doc, translate_block


def _norm(node):
    return ''.join(ast.unparse(node).split())


class _Rewrite(ast.NodeTransformer):
    def __init__(self, table):
        self.table = table

    def generic_visit(self, node):
        if isinstance(node, ast.expr):
            key = _norm(node)
            if key in self.table:
                return ast.copy_location(ast.parse(self.table[key], mode='eval').body, node)
        return super().generic_visit(node)


def _rewrite(stmts, table):
    out = []
    for s in stmts:
        s2 = _Rewrite(table).visit(ast.parse(ast.unparse(s)).body[0])
        ast.fix_missing_locations(s2)
        out.append(ast.parse(ast.unparse(s2)).body[0])
    return out


def _ret(expr):
    return ast.parse(f'return {expr}').body[0]


def _table(var):
    return {
        'self._is_root': 'is_root', 'self._is_sr': 'is_sr',
        f'isinstance({var},ContentItem)': 'is_item',
        f'{var}.relationship_typeisnotNone': 'has_rel', f'{var}.relationship_typeisNone': '(not has_rel)',
        f'isinstance({var},ContainerContentItem)': 'is_container',
    }


def _leading_ifs(body):
    out = []
    for st in body:
        if isinstance(st, ast.If):
            out.append(st)
        elif isinstance(st, ast.Expr) and isinstance(st.value, ast.Constant):
            continue
        else:
            break
    return out


PARAMS3 = [('is_root', 'bool'), ('is_sr', 'bool'), ('is_item', 'bool'), ('has_rel', 'bool')]


def build_T14(tree):
    out, shas = [], []
    cls = 'ContentSequence'
    # ---- __init__
    fn = find_func(tree, f'{cls}.__init__')
    body = strip_doc(fn.body)
    flags = [st for st in body if isinstance(st, ast.If) and _norm(st.test) in ('is_rootandnotis_sr', 'is_rootand(notis_sr)')]
    if len(flags) != 1:
        raise Unsupported('__init__: guard `is_root and not is_sr` not found')
    out.append(translate_block([flags[0], _ret('True')], 'csCtorFlags', [('is_root', 'bool'), ('is_sr', 'bool')], {},
                               doc='`ContentSequence.__init__`: root sequences must be SR sequences'))
    loops = [l for st in body if isinstance(st, ast.If) and _norm(st.test) == 'itemsisnotNone'
             for l in st.body if isinstance(l, ast.For)]
    check_loops = [l for l in loops if any(isinstance(x, ast.Raise) for x in ast.walk(l))]
    if len(check_loops) != 1 or _norm(check_loops[0].iter) != 'items' or not isinstance(check_loops[0].target, ast.Name):
        raise Unsupported('__init__: the checking loop `for i in items` not found')
    var = check_loops[0].target.id
    shas.append(span_sha([flags[0], check_loops[0]]))
    out.append(translate_block(_rewrite(check_loops[0].body, _table(var)) + [_ret('True')], 'csCtorCheck',
                               PARAMS3 + [('is_container', 'bool')], {},
                               doc='`ContentSequence.__init__`: checks applied to every item offered'))
    index_loops = [l for l in loops if l is not check_loops[0]]
    if len(index_loops) != 1 or _norm(index_loops[0]) != f'for{index_loops[0].target.id}initems:self._lut[{index_loops[0].target.id}.name].append({index_loops[0].target.id})':
        raise Unsupported('__init__: the indexing loop changed')
    # ---- append / insert
    for meth, lean in (('append', 'csAppendCheck'), ('insert', 'csInsertCheck')):
        fn = find_func(tree, f'{cls}.{meth}')
        body = strip_doc(fn.body)
        ifs = _leading_ifs(body)
        rest = body[len(ifs):]
        if len(ifs) != 2 or len(rest) != 2:
            raise Unsupported(f'{meth}: expected two guards followed by the index update and the list call')
        want = ['self._lut[val.name].append(val)', 'super().append(val)' if meth == 'append' else 'super().insert(position,val)']
        if [_norm(s) for s in rest] != want:
            raise Unsupported(f'{meth}: tail is no longer {want}')
        shas.append(span_sha(body))
        out.append(translate_block(_rewrite(ifs, _table('val')) + [_ret('True')], lean, PARAMS3, {},
                                   doc=f'`ContentSequence.{meth}`: checks before the index and the list are touched'))
    # ---- extend / __iadd__
    fn = find_func(tree, f'{cls}.extend')
    body = strip_doc(fn.body)
    if len(body) != 1 or _norm(body[0]) != 'foriteminval:self.append(item)':
        raise Unsupported('extend is no longer `for item in val: self.append(item)`')
    fn = find_func(tree, f'{cls}.__iadd__')
    body = strip_doc(fn.body)
    if [_norm(s) for s in body] != ['self.extend(val)', 'returnself']:
        raise Unsupported('__iadd__ is no longer `self.extend(val); return self`')
    # ---- __setitem__
    cnode = find_func(tree, cls)
    defs = [n for n in cnode.body if isinstance(n, ast.FunctionDef) and n.name == '__setitem__']
    if not defs:
        raise Unsupported('__setitem__ not found')
    fn = defs[-1]          # the two @overload stubs come first
    body = strip_doc(fn.body)
    loops = [st for st in body if isinstance(st, ast.For) and any(isinstance(x, ast.Raise) for x in ast.walk(st))]
    if len(loops) != 1 or _norm(loops[0].iter) != 'items' or not isinstance(loops[0].target, ast.Name):
        raise Unsupported('__setitem__: the checking loop `for i in items` not found')
    shas.append(span_sha(body))
    out.append(translate_block(_rewrite(loops[0].body, _table(loops[0].target.id)) + [_ret('True')], 'csSetitemCheck', PARAMS3, {},
                               doc='`ContentSequence.__setitem__`: checks applied to every item offered'))
    txt = ''.join(_norm(s) for s in body)
    i_loop, i_old, i_set = txt.find('foriinitems:'), txt.find('replaced_items='), txt.find('super().__setitem__(idx,val)')
    i_rm, i_add = txt.find('delself._lut[i.name][index]'), txt.rfind('self._lut[i.name].append(i)')
    if not (0 <= i_loop < i_old < i_set < i_rm < i_add):
        raise Unsupported('__setitem__: order checks / old items / list assignment / index removal / index insertion changed')
    return '\n\n'.join(out), hashlib.sha256(''.join(shas).encode()).hexdigest()


TARGETS = {'T14': {'file': 'sr/value_types.py', 'build': build_T14}}
