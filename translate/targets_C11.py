"""Translation targets of C11 (tie T): the scalar expressions and index choices of the slice-stack code.

The hand-written model (lean/HdVerif/Model/Stack.lean) writes the arithmetic of `get_volume_positions` and of the two
assembly routes by hand.  These targets extract the expressions the source uses NOW; lean/HdVerif/Proofs/StackTie.lean proves
that the hand-written definitions use exactly those (bridge theorems, re-exported as obligations in Props/C11.lean).

TC11v spatial.py : get_volume_positions -- mean spacing, the quantity compared with the hint, the handedness refusal, the
                   returned spacing, the single-position spacing (no-gaps route); the multiples, their tolerance, the
                   zero test and the refinement loop of the estimated spacing (gaps route); plus shape checks of the numpy calls around them (which
                   array is compared with which, which reduction estimates the spacing, which index becomes the position).
TC11a image.py   : _Image._get_stacked_volume_geometry and get_volume_from_series -- number of slices, origin frame,
                   which dataset gives the position of the volume, which dataset becomes slice i, single-dataset spacing,
                   the values forwarded to the geometry.

Array expressions are turned into scalar ones by naming the array sub-terms (`origin_distances_sorted[-1]` -> `last`, ...):
the element-wise / broadcasting reading of numpy is an assumption, the expression around the named sub-terms is the source's.
"""
from __future__ import annotations

import ast

from py2lean import Unsupported, find_func, span_sha, translate_block


class _Subst(ast.NodeTransformer):
    """replace sub-expressions (matched by their unparsed text) by names"""

    def __init__(self, mapping):
        self.m = mapping

    def visit(self, node):
        if isinstance(node, ast.expr):
            key = ast.unparse(node)
            if key in self.m:
                return ast.Name(id=self.m[key], ctx=ast.Load())
        return self.generic_visit(node)


def scalar_def(expr, lean_name, params, mapping, doc):
    """Lean definition of `expr` after naming the sub-terms of `mapping`; every remaining name must be a parameter."""
    import copy
    e = _Subst(mapping).visit(copy.deepcopy(expr))
    names = {n.id for n in ast.walk(e) if isinstance(n, ast.Name)} - {'abs'}
    unknown = names - {p for p, _ in params}
    if unknown:
        raise Unsupported(f'{lean_name}: unexpected names {sorted(unknown)} in {ast.unparse(expr)}')
    missing = {p for p, _ in params} - names
    if missing:
        raise Unsupported(f'{lean_name}: {sorted(missing)} not used in {ast.unparse(expr)}')
    ret = ast.Return(value=e)
    ast.fix_missing_locations(ast.Module(body=[ret], type_ignores=[]))
    return translate_block([ret], lean_name, params, {}, doc=doc)


def _one(nodes, what):
    nodes = list(nodes)
    if len(nodes) != 1:
        raise Unsupported(f'{what}: expected exactly one, found {len(nodes)}')
    return nodes[0]


def _assigns(scope, name):
    return [n for n in ast.walk(scope) if isinstance(n, ast.Assign) and len(n.targets) == 1
            and ast.unparse(n.targets[0]) == name]


def _call_shape(call, func, args, kwargs, what):
    """`call` must be func(*args, **kwargs) textually (kwargs: name -> text or None for 'any')"""
    if not isinstance(call, ast.Call) or ast.unparse(call.func) != func:
        raise Unsupported(f'{what}: not a call of {func}: {ast.unparse(call)}')
    got = [ast.unparse(a) for a in call.args]
    if got != list(args):
        raise Unsupported(f'{what}: positional arguments {got}, expected {list(args)}')
    gk = {k.arg: k.value for k in call.keywords}
    if set(gk) != set(kwargs):
        raise Unsupported(f'{what}: keywords {sorted(map(str, gk))}, expected {sorted(kwargs)}')
    for k, v in kwargs.items():
        if v is not None and ast.unparse(gk[k]) != v:
            raise Unsupported(f'{what}: {k}={ast.unparse(gk[k])}, expected {v}')
    return gk


def _module_float(tree, name):
    from fractions import Fraction
    for n in tree.body:
        if isinstance(n, ast.Assign) and len(n.targets) == 1 and ast.unparse(n.targets[0]) == name:
            if isinstance(n.value, ast.Constant) and isinstance(n.value.value, float):
                f = Fraction(str(n.value.value))
                return f'(({f.numerator} : Rat) / {f.denominator})', n
    raise Unsupported(f'module-level float {name} not found')


def build_TC11v(tree):
    fn = find_func(tree, 'get_volume_positions')
    out, spans = [], []
    branch = _one((n for n in fn.body if isinstance(n, ast.If) and ast.unparse(n.test) == 'allow_missing_positions' and n.orelse),
                  'if allow_missing_positions: ... else: ...')
    gaps, nogaps = ast.Module(body=branch.body, type_ignores=[]), ast.Module(body=branch.orelse, type_ignores=[])

    # ---- no-gaps route
    a = _one(_assigns(nogaps, 'spacings'), 'spacings (no gaps)')
    _call_shape(a.value, 'np.diff', ['origin_distances_sorted'], {}, 'spacings (no gaps)')
    spans.append(a)
    a = _one(_assigns(nogaps, 'spacing'), 'spacing (no gaps)')
    out.append(scalar_def(a.value, 'meanSpacing', [('first', 'rat'), ('last', 'rat'), ('n', 'int')],
                          {'origin_distances_sorted[-1]': 'last', 'origin_distances_sorted[0]': 'first',
                           'len(origin_distances_sorted)': 'n'},
                          'get_volume_positions, no gaps: the spacing from the first and last sorted distance and their number'))
    spans.append(a)
    hint_if = _one((n for n in nogaps.body if isinstance(n, ast.If) and ast.unparse(n.test) == 'spacing_hint is not None'),
                   'if spacing_hint is not None (no gaps)')
    inner = _one(hint_if.body, 'body of the hint test')
    if not (isinstance(inner, ast.If) and isinstance(inner.test, ast.UnaryOp) and isinstance(inner.test.op, ast.Not)
            and len(inner.body) == 1 and isinstance(inner.body[0], ast.Raise) and not inner.orelse
            and ast.unparse(inner.body[0].exc.func) == 'RuntimeError'):
        raise Unsupported('hint test is not `if not np.isclose(...): raise RuntimeError`')
    call = inner.test.operand
    if not (isinstance(call, ast.Call) and ast.unparse(call.func) == 'np.isclose' and len(call.args) == 2):
        raise Unsupported('hint test does not call np.isclose(a, b, ...)')
    _call_shape(call, 'np.isclose', [ast.unparse(call.args[0]), 'spacing_hint'], {'rtol': 'rtol', 'atol': 'atol'}, 'hint test')
    out.append(scalar_def(call.args[0], 'hintCompared', [('spacing', 'rat')], {},
                          'get_volume_positions, no gaps: what is compared with the spacing hint (np.isclose(this, spacing_hint, '
                          'rtol=rtol, atol=atol), RuntimeError otherwise)'))
    spans.append(hint_if)
    a = _one(_assigns(nogaps, 'is_regular'), 'is_regular (no gaps)')
    v = a.value
    if not (isinstance(v, ast.Call) and isinstance(v.func, ast.Attribute) and v.func.attr == 'all' and not v.args and not v.keywords):
        raise Unsupported('is_regular (no gaps) is not np.isclose(...).all()')
    _call_shape(v.func.value, 'np.isclose', ['spacings', 'spacing'], {'rtol': 'rtol', 'atol': 'atol'}, 'is_regular (no gaps)')
    spans.append(a)

    # ---- gaps route
    est_if = _one((n for n in gaps.body if isinstance(n, ast.If) and ast.unparse(n.test) == 'spacing_hint is not None'),
                  'if spacing_hint is not None (gaps)')
    if [ast.unparse(s) for s in est_if.body] != ['spacing = spacing_hint']:
        raise Unsupported('gaps: the hint is not taken as the spacing')
    texts = [ast.unparse(s) for s in est_if.orelse[:2]]
    if texts != ['spacings = np.diff(origin_distances_sorted)', 'spacing = spacings.min()']:
        raise Unsupported(f'gaps: spacing estimate is {texts}')
    zero_if = est_if.orelse[2] if len(est_if.orelse) == 4 else None
    if not (isinstance(zero_if, ast.If) and [ast.unparse(s) for s in zero_if.body] == ['return (None, None)'] and not zero_if.orelse):
        raise Unsupported('gaps: zero test of the estimated spacing not found')
    kw = _call_shape(zero_if.test, 'np.isclose', ['spacing', '0.0'], {'atol': None}, 'gaps: zero test')
    tol_t, tol_node = _module_float(tree, ast.unparse(kw['atol']))
    out.append('/-- get_volume_positions, gaps: the estimated spacing (smallest consecutive difference) counts as zero when '
               f'np.isclose(spacing, 0.0, atol=this) -/\ndef gapZeroAtol : Rat := {tol_t}')
    spans += [est_if, tol_node]
    # refinement of the estimate over growing baselines
    loop = est_if.orelse[3]
    if not (isinstance(loop, ast.For) and not loop.orelse and ast.unparse(loop.target) == 'distance'
            and ast.unparse(loop.iter) == 'origin_distances_sorted[1:] - origin_distances_sorted[0]' and len(loop.body) == 2):
        raise Unsupported(f'gaps: refinement loop is {ast.unparse(loop)}')
    cnt, upd = loop.body
    if not (isinstance(cnt, ast.Assign) and ast.unparse(cnt.targets[0]) == 'n_spacings' and isinstance(cnt.value, ast.Call)
            and ast.unparse(cnt.value.func) == 'round' and len(cnt.value.args) == 1 and not cnt.value.keywords
            and isinstance(cnt.value.args[0], ast.Call) and ast.unparse(cnt.value.args[0].func) == 'float'
            and len(cnt.value.args[0].args) == 1):
        raise Unsupported(f'gaps: refinement count is {ast.unparse(cnt)}')
    out.append(scalar_def(cnt.value.args[0].args[0], 'gapRefineRatio', [('distance', 'rat'), ('spacing', 'rat')], {},
                          'get_volume_positions, gaps, no hint: n_spacings = round(float(this)) (Python round: half to even) for the '
                          'distance of each plane above the lowest one, in increasing order'))
    if not (isinstance(upd, ast.If) and not upd.orelse and len(upd.body) == 1 and isinstance(upd.body[0], ast.Assign)
            and ast.unparse(upd.body[0].targets[0]) == 'spacing'):
        raise Unsupported(f'gaps: refinement update is {ast.unparse(upd)}')
    out.append(scalar_def(upd.test, 'gapRefineGuard', [('n_spacings', 'int')], {},
                          'get_volume_positions, gaps, no hint: the estimate is replaced when this holds'))
    out.append(scalar_def(upd.body[0].value, 'gapRefined', [('distance', 'rat'), ('n_spacings', 'int')], {},
                          'get_volume_positions, gaps, no hint: ... by this'))
    a = _one(_assigns(gaps, 'origin_distance_multiples'), 'origin_distance_multiples')
    out.append(scalar_def(a.value, 'gapMultiple', [('d', 'rat'), ('dmin', 'rat'), ('spacing', 'rat')],
                          {'origin_distances': 'd', 'origin_distances.min()': 'dmin'},
                          'get_volume_positions, gaps: the multiple of the spacing at which a plane of distance d lies'))
    spans.append(a)
    a = reg_assign = _one((n for n in gaps.body if isinstance(n, ast.Assign) and ast.unparse(n.targets[0]) == 'is_regular'), 'is_regular (gaps)')
    kw = _call_shape(a.value, 'np.allclose', ['origin_distance_multiples', 'origin_distance_multiples.round()'],
                     {'rtol': None, 'atol': None}, 'is_regular (gaps)')
    out.append(scalar_def(kw['rtol'], 'gapRtol', [], {}, 'get_volume_positions, gaps: rtol of the comparison of a multiple with its rounding'))
    out.append(scalar_def(kw['atol'], 'gapAtol', [('rtol', 'rat'), ('atol', 'rat'), ('spacing', 'rat')], {},
                          'get_volume_positions, gaps: atol of the comparison of a multiple with its rounding'))
    spans.append(a)
    a = _one(_assigns(gaps, 'inverse_sort_index'), 'inverse_sort_index (gaps)')
    if ast.unparse(a.value) != 'origin_distance_multiples.round().astype(np.int64)':
        raise Unsupported(f'gaps: volume index is {ast.unparse(a.value)}')
    spans.append(a)
    # distinct positions must get distinct indices
    coll = _one((n for n in gaps.body if isinstance(n, ast.If) and 'np.unique(inverse_sort_index)' in ast.unparse(n.test)),
                'gaps: test that distinct positions get distinct indices')
    if [ast.unparse(s) for s in coll.body] != ['is_regular = False'] or coll.orelse:
        raise Unsupported(f'gaps: colliding indices lead to {[ast.unparse(s) for s in coll.body]}')
    if gaps.body.index(coll) < gaps.body.index(a) or gaps.body.index(coll) < gaps.body.index(reg_assign):
        raise Unsupported('gaps: the distinct-index test precedes the indices / the tolerance test')
    out.append(scalar_def(coll.test, 'gapIndicesCollide', [('distinct', 'int'), ('count', 'int')],
                          {'len(np.unique(inverse_sort_index))': 'distinct', 'len(inverse_sort_index)': 'count'},
                          'get_volume_positions, gaps: the stack is not regular when this holds (distinct = number of different indices, '
                          'count = number of examined positions)'))
    spans.append(coll)

    # ---- after the branch: handedness, returned spacing; before it: the single-position case
    hand = _one((n for n in fn.body if isinstance(n, ast.If) and ast.unparse(n.test) == 'is_regular and enforce_handedness'),
                'if is_regular and enforce_handedness')
    inner = _one(hand.body, 'body of the handedness test')
    if not (isinstance(inner, ast.If) and [ast.unparse(s) for s in inner.body] == ['return (None, None)'] and not inner.orelse):
        raise Unsupported('handedness test does not return (None, None)')
    out.append(scalar_def(inner.test, 'handednessRefuses', [('spacing', 'rat')], {},
                          'get_volume_positions: with enforce_handedness a regular stack is refused when this holds'))
    spans.append(hand)
    final = _one((n for n in fn.body if isinstance(n, ast.If) and ast.unparse(n.test) == 'is_regular and is_perpendicular'),
                 'if is_regular and is_perpendicular')
    ret = _one((n for n in final.body if isinstance(n, ast.Return)), 'return of the accepted stack')
    if not (isinstance(ret.value, ast.Tuple) and len(ret.value.elts) == 2 and ast.unparse(ret.value.elts[1]) == 'vol_positions'):
        raise Unsupported(f'accepted stack returns {ast.unparse(ret.value)}')
    out.append(scalar_def(ret.value.elts[0], 'returnedSpacing', [('spacing', 'rat')], {},
                          'get_volume_positions: the spacing that is returned for an accepted stack'))
    spans.append(ret)
    vp = _one(_assigns(final, 'vol_positions'), 'vol_positions')
    if ast.unparse(vp.value) != '[inverse_sort_index[unique_index[i]].item() for i in range(len(image_positions_arr))]':
        raise Unsupported(f'vol_positions is {ast.unparse(vp.value)}')
    spans.append(vp)
    single = _one((n for n in fn.body if isinstance(n, ast.If) and ast.unparse(n.test) == 'len(unique_positions) == 1'),
                  'if len(unique_positions) == 1')
    texts = [ast.unparse(s) for s in single.body]
    if len(texts) != 2 or texts[1] != 'return (spacing, [0] * n)' or not isinstance(single.body[0], ast.Assign) \
            or not isinstance(single.body[0].value, ast.IfExp):
        raise Unsupported(f'single position case is {texts}')
    ife = single.body[0].value
    if ast.unparse(ife.test) != 'spacing_hint is None' or ast.unparse(ife.orelse) != 'spacing_hint':
        raise Unsupported(f'single position spacing is {ast.unparse(ife)}')
    out.append(scalar_def(ife.body, 'singlePositionSpacing', [], {},
                          'get_volume_positions: spacing stipulated for a single (unique) position without a hint'))
    spans.append(single)

    # ---- option handling before any position is looked at: the first three statements, in this order
    body = [s for s in fn.body if not (isinstance(s, ast.Expr) and isinstance(s.value, ast.Constant))]
    if len(body) < 4 or not all(isinstance(s, ast.If) for s in body[:3]) or ast.unparse(body[3]) != 'image_positions_arr = np.array(image_positions)':
        raise Unsupported('option handling: expected three if-statements before image_positions_arr = np.array(image_positions)')
    flags, hint, tol = body[:3]
    if ast.unparse(flags.test) != 'not sort' or flags.orelse:
        raise Unsupported(f'option handling: first test is {ast.unparse(flags.test)}')
    if ast.unparse(hint.test) != 'spacing_hint is not None' or hint.orelse:
        raise Unsupported(f'option handling: second test is {ast.unparse(hint.test)}')
    if ast.unparse(tol.test) != 'atol is not None and rtol is not None':
        raise Unsupported(f'option handling: third test is {ast.unparse(tol.test)}')

    def ret(text):
        r = ast.parse(text).body[0]
        ast.fix_missing_locations(r)
        return r
    out.append(translate_block([flags, ret('return 0')], 'optionFlags',
                               [('sort', 'bool'), ('allow_duplicate_positions', 'bool'), ('allow_missing_positions', 'bool')], {},
                               doc='get_volume_positions, option handling 1: sort=False cannot be combined with duplicates or gaps (0 = accepted)'))
    out.append(translate_block(hint.body + [ret('return spacing_hint')], 'optionHint', [('spacing_hint', 'rat')], {},
                               doc='get_volume_positions, option handling 2 (a hint is given): negative hints count by magnitude, zero is refused'))
    rt_t, rt_node = _module_float(tree, '_DEFAULT_SPACING_RELATIVE_TOLERANCE')
    out.append(translate_block([tol, ret('return (rtol, atol)')], 'optionTolerances', [('rtol', 'optrat'), ('atol', 'optrat')], {},
                               consts={'_DEFAULT_SPACING_RELATIVE_TOLERANCE': ('rat', rt_t)},
                               doc='get_volume_positions, option handling 3: rtol and atol exclude each other, one given alone zeroes the '
                                   'other, none given means the default relative tolerance'))
    spans += [flags, hint, tol, rt_node]
    return '\n\n'.join(out), span_sha(spans)


def _kw(call, what):
    if not isinstance(call, ast.Call) or call.args:
        raise Unsupported(f'{what}: keyword-only call expected: {ast.unparse(call)}')
    return {k.arg: ast.unparse(k.value) for k in call.keywords}


def build_TC11a(tree):
    out, spans = [], []
    # ---- frames of one multi-frame image
    fn = find_func(tree, '_Image._get_stacked_volume_geometry')
    a = _one(_assigns(fn, 'initial_number_of_slices'), 'initial_number_of_slices')
    out.append(scalar_def(a.value, 'stackedSlices', [('highest', 'int')], {'max(volume_positions)': 'highest'},
                          '_Image._get_stacked_volume_geometry: number of slices from the highest volume position'))
    spans.append(a)
    a = _one(_assigns(fn, 'origin_slice_index'), 'origin_slice_index')
    v = a.value
    if not (isinstance(v, ast.Call) and ast.unparse(v.func) == 'volume_positions.index' and len(v.args) == 1 and not v.keywords):
        raise Unsupported(f'origin_slice_index is {ast.unparse(v)}')
    out.append(scalar_def(v.args[0], 'stackedOriginPosition', [], {},
                          '_Image._get_stacked_volume_geometry: the origin is the first frame with this volume position'))
    spans.append(a)
    geo = _one((n for n in _assigns(fn, 'geometry') if 'from_attributes' in ast.unparse(n.value)), 'geometry = ...from_attributes')
    kw = _kw(geo.value, 'VolumeGeometry.from_attributes')
    want = {'image_position': 'image_positions[origin_slice_index]', 'number_of_frames': 'initial_number_of_slices',
            'spacing_between_slices': 'volume_spacing', 'image_orientation': 'shared_image_orientation'}
    for k, t in want.items():
        if kw.get(k) != t:
            raise Unsupported(f'_get_stacked_volume_geometry: {k}={kw.get(k)}, expected {t}')
    spans.append(geo)
    tup = _one((n for n in ast.walk(fn) if isinstance(n, ast.Assign) and ast.unparse(n.targets[0]) == '(volume_spacing, volume_positions)'),
               'volume_spacing, volume_positions = ...')
    kw = _kw(tup.value, 'get_volume_positions (frames)')
    want = {'image_positions': 'image_positions', 'image_orientation': 'shared_image_orientation',
            'allow_missing_positions': 'allow_missing_positions', 'allow_duplicate_positions': 'allow_duplicate_positions',
            'spacing_hint': 'slice_spacing_hint', 'rtol': 'rtol', 'atol': 'atol'}
    if kw != want:
        raise Unsupported(f'_get_stacked_volume_geometry calls get_volume_positions with {kw}')
    spans.append(tup)
    loop = _one((n for n in ast.walk(fn) if isinstance(n, ast.For) and ast.unparse(n.iter) == 'zip(frame_numbers, volume_positions)'),
                'for f, vol_pos in zip(frame_numbers, volume_positions)')
    if ast.unparse(loop.target) != '(f, vol_pos)' or '(f, vol_pos - slice_start)' not in ast.unparse(loop):
        raise Unsupported('frame placement loop changed')
    spans.append(loop)

    # ---- a series of single-frame datasets
    fn = find_func(tree, 'get_volume_from_series')
    a = _one(_assigns(fn, 'first_ds'), 'first_ds')
    v = a.value
    if not (isinstance(v, ast.Subscript) and isinstance(v.value, ast.Name) and v.value.id in ('sorted_datasets', 'series_datasets')):
        raise Unsupported(f'first_ds is {ast.unparse(v)}')
    out.append('/-- get_volume_from_series: the dataset that gives the position of the volume is taken from the datasets in '
               f'slice order (true) or in the given order (false) -/\ndef seriesFirstFromSorted : Bool := {str(v.value.id == "sorted_datasets").lower()}')
    out.append(scalar_def(v.slice, 'seriesFirstIndex', [], {}, 'get_volume_from_series: ... and is the one at this index'))
    spans.append(a)
    srt = [n for n in _assigns(fn, 'sorted_datasets') if isinstance(n.value, ast.ListComp)]
    lc = _one(srt, 'sorted_datasets = [...]').value
    if ast.unparse(lc) != '[series_datasets[vol_positions.index(i)] for i in range(len(series_datasets))]':
        raise Unsupported(f'slice order of the series is {ast.unparse(lc)}')
    spans.append(srt[0])
    single = _one((n for n in fn.body if isinstance(n, ast.If) and ast.unparse(n.test) == 'len(series_datasets) == 1'),
                  'if len(series_datasets) == 1')
    a = _one(_assigns(ast.Module(body=single.body, type_ignores=[]), 'slice_spacing'), 'slice_spacing (single)')
    v = a.value
    if not (isinstance(v, ast.Call) and ast.unparse(v.func) == 'series_datasets[0].get' and len(v.args) == 2
            and ast.unparse(v.args[0]) == "'SpacingBetweenSlices'"):
        raise Unsupported(f'single dataset spacing is {ast.unparse(v)}')
    out.append(scalar_def(v.args[1], 'seriesSingleSpacing', [], {},
                          'get_volume_from_series: spacing of a one-dataset series without SpacingBetweenSlices'))
    spans.append(single)
    ret = _one((n for n in fn.body if isinstance(n, ast.Return)), 'return of get_volume_from_series')
    kw = _kw(ret.value, 'Volume.from_attributes')
    want = {'image_position': 'first_ds.ImagePositionPatient', 'spacing_between_slices': 'slice_spacing',
            'image_orientation': 'image_orientation', 'array': 'array'}
    for k, t in want.items():
        if kw.get(k) != t:
            raise Unsupported(f'get_volume_from_series: {k}={kw.get(k)}, expected {t}')
    spans.append(ret)
    return '\n\n'.join(out), span_sha(spans)


TARGETS = {
    'TC11v': {'file': 'spatial.py', 'build': build_TC11v},
    'TC11a': {'file': 'image.py', 'build': build_TC11a},
}
