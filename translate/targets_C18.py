"""Translation targets of C18.

T18  (ann/content.py)
  * `graphicTypes`, `indexListTypes`        enum literals (ann/enum.py) / the types that get a LongPrimitivePointIndexList
  * `pointCountCheck`                       body of the validation loop of `AnnotationGroup.__init__`
  * `encodePlan`                            ndim / column / finiteness guards, coordinate type, shared-z decision
                                            (dimensionality, columns kept, CommonZCoordinateValue written?), which of
                                            PointCoordinatesData / DoublePointCoordinatesData is written
  * `indexSpan`, `indexListBase`            element of `spans`, the `+ 1` of the one-based index list
  * `decodePlan`                            `get_graphic_data` (parsed branch): stored dimensionality and how the point
                                            array is split (equal sections / by the index list)
  * `splitIndex`                            `(point_index - 1) // stored_coordinate_dimensionality`
  * `coordIndex`                            `get_coordinates`: guard on the annotation number and the index used
  * `measIndexGuard`                        `Measurements.get_values`: number of indices vs number of stored values
T18s (ann/sop.py)
  * `groupLookupDecision`                   `get_annotation_group`: which key is used and the refusal on 0 / >1 hits
"""
from __future__ import annotations

import ast
import hashlib
import os

from py2lean import Unsupported, find_func, span_sha, strip_doc, translate_block, lean_table


def _s(x):
    return '"' + x.replace('\\', '\\\\').replace('"', '\\"') + '"'


def _enum_members(cls_name):
    repo = os.environ.get('HD_REPO', '/repo')
    tree = ast.parse(open(os.path.join(repo, 'src', 'highdicom', 'ann', 'enum.py')).read())
    for n in tree.body:
        if isinstance(n, ast.ClassDef) and n.name == cls_name:
            out = {}
            for st in n.body:
                if isinstance(st, ast.Assign) and isinstance(st.targets[0], ast.Name) and isinstance(st.value, ast.Constant) \
                        and isinstance(st.value.value, str):
                    out[st.targets[0].id] = st.value.value
            return out
    raise Unsupported(f'enum {cls_name} not found in ann/enum.py')


class _InToOr(ast.NodeTransformer):
    """`x in (a, b)` -> `(x == a or x == b)`, `x not in (a, b)` -> `not (...)` (tuples of literals / names only)."""

    def visit_Compare(self, node):
        self.generic_visit(node)
        if len(node.ops) == 1 and isinstance(node.ops[0], (ast.In, ast.NotIn)) and isinstance(node.comparators[0], (ast.Tuple, ast.List)):
            alts = [ast.Compare(left=node.left, ops=[ast.Eq()], comparators=[e]) for e in node.comparators[0].elts]
            e = ast.BoolOp(op=ast.Or(), values=alts) if len(alts) > 1 else alts[0]
            if isinstance(node.ops[0], ast.NotIn):
                e = ast.UnaryOp(op=ast.Not(), operand=e)
            return ast.copy_location(e, node)
        return node


class _Subst(ast.NodeTransformer):
    """replace expressions (by their unparsed text) with constants / names"""

    def __init__(self, table):
        self.table = table

    def visit(self, node):
        if isinstance(node, ast.expr):
            try:
                key = ast.unparse(node)
            except Exception:  # noqa: BLE001
                key = None
            if key in self.table:
                return ast.copy_location(ast.parse(self.table[key], mode='eval').body, node)
        return super().visit(node)


def _fresh(stmts, subst=None):
    out = [ast.parse(ast.unparse(s)).body[0] for s in stmts]
    if subst:
        out = [_Subst(subst).visit(s) for s in out]
    out = [_InToOr().visit(s) for s in out]
    for s in out:
        ast.fix_missing_locations(s)
    return out


def _norm(node):
    return ''.join(ast.unparse(node).split())


def build_T18(tree):
    out, shas = [], []
    gts = _enum_members('GraphicTypeValues')
    cts = _enum_members('AnnotationCoordinateTypeValues')
    if sorted(cts.values()) != ['2D', '3D'] or set(cts) != {'SCOORD', 'SCOORD3D'}:
        raise Unsupported('AnnotationCoordinateTypeValues is no longer {SCOORD: 2D, SCOORD3D: 3D}')
    out.append(lean_table('graphicTypes', 'List String', [_s(v) for v in gts.values()], doc='values of `GraphicTypeValues`'))
    gt_attrs = {f'GraphicTypeValues.{k}': ('str', _s(v)) for k, v in gts.items()}
    subst = {f'GraphicTypeValues.{k}': repr(v) for k, v in gts.items()}
    subst.update({'AnnotationCoordinateTypeValues.SCOORD': '2', 'AnnotationCoordinateTypeValues.SCOORD3D': '3'})
    init = find_func(tree, 'AnnotationGroup.__init__')

    # ---------------- validation loop
    loop = None
    for n in ast.walk(init):
        if isinstance(n, ast.For) and _norm(n.iter) == 'range(len(graphic_data))':
            loop = n
            break
    if loop is None:
        raise Unsupported('validation loop over range(len(graphic_data)) not found')
    shas.append(span_sha(loop.body))
    body = _fresh(loop.body, subst)
    first = body[0]
    if not (isinstance(first, ast.Assign) and _norm(first) == 'num_coords=graphic_data[i].shape[0]'):
        raise Unsupported('validation loop no longer starts with num_coords = graphic_data[i].shape[0]')
    blk = body[1:] + [ast.parse('return 0').body[0]]
    attrs = {'np.array_equal(graphic_data[i][0], graphic_data[i][-1])': ('bool', 'firstEqLast')}
    out.append(translate_block(blk, 'pointCountCheck', [('graphic_type', 'str'), ('num_coords', 'int')], attrs,
                               doc='validation loop body of `AnnotationGroup.__init__` for one annotation with `num_coords` points; '
                                   '`firstEqLast` = `np.array_equal(first point, last point)`'))

    # ---------------- dtype acceptance
    dt_if = None
    for st in strip_doc(init.body):
        if isinstance(st, ast.If) and _norm(st.test) == "coordinates.dtype.kindin('u','i')":
            dt_if = st
    if dt_if is None:
        raise Unsupported("dtype block `if coordinates.dtype.kind in ('u', 'i')` not found")
    shas.append(span_sha([dt_if]))

    class Dt(ast.NodeTransformer):
        def visit_Assign(self, node):
            if _norm(node.targets[0]) == 'coordinates' and _norm(node.value) == 'coordinates.astype(np.float32)':
                return ast.copy_location(ast.parse('cast32 = True').body[0], node)
            raise Unsupported('unexpected assignment in the dtype block: ' + ast.unparse(node)[:60])
    blk = [ast.parse('cast32 = False').body[0]] + [Dt().visit(st) for st in _fresh([dt_if])] + [ast.parse('return cast32').body[0]]
    for s2 in blk:
        ast.fix_missing_locations(s2)
    out.append(translate_block(blk, 'dtypePlan', [], {'coordinates.dtype.kind': ('str', 'kind'), 'coordinates.dtype.itemsize': ('int', 'itemsize')},
                               doc='dtype of the concatenated coordinates (numpy `kind` letter, item size in bytes): refusal, or whether the '
                                   'array is cast to float32 before anything else (integers: the documented cast; half precision: widening)'))

    # ---------------- encode plan
    stmts = strip_doc(init.body)
    start = end = None
    for i, st in enumerate(stmts):
        if isinstance(st, ast.If) and _norm(st.test) == 'coordinates.ndim!=2':
            start = i
        if isinstance(st, ast.If) and _norm(st.test) == 'coordinates.dtype==np.double':
            end = i
    if start is None or end is None or end < start:
        raise Unsupported('encode block (coordinates.ndim guard .. dtype decision) not found')
    span = stmts[start:end + 1]
    shas.append(span_sha(span))

    class Enc(ast.NodeTransformer):
        def visit_Assign(self, node):
            t = _norm(node.targets[0])
            v = _norm(node.value)
            if t == 'unique_z_values':
                if v != 'np.unique(coordinates[:,2])':
                    raise Unsupported('unique_z_values is no longer np.unique(coordinates[:, 2])')
                return None
            if t == 'self.CommonZCoordinateValue':
                if v != 'unique_z_values.item()':
                    raise Unsupported('CommonZCoordinateValue is no longer unique_z_values.item()')
                return ast.copy_location(ast.parse('has_common_z = True').body[0], node)
            if t == 'coordinates_data':
                if v == 'coordinates[:,0:2].flatten()':
                    return ast.copy_location(ast.parse('kept = 2').body[0], node)
                if v == 'coordinates.flatten()':
                    return ast.copy_location(ast.parse('kept = coordinates.shape[1]').body[0], node)
                raise Unsupported('unexpected coordinates_data expression: ' + v)
            if t == 'self.DoublePointCoordinatesData':
                if v != 'coordinates_data.tobytes()':
                    raise Unsupported('DoublePointCoordinatesData is no longer coordinates_data.tobytes()')
                return ast.copy_location(ast.parse('double_attr = True').body[0], node)
            if t == 'self.PointCoordinatesData':
                if v != 'coordinates_data.tobytes()':
                    raise Unsupported('PointCoordinatesData is no longer coordinates_data.tobytes()')
                return ast.copy_location(ast.parse('double_attr = False').body[0], node)
            if t in ('dimensionality', 'coordinate_type'):
                return node
            raise Unsupported('unexpected assignment in the encode block: ' + ast.unparse(node)[:60])
    blk = [ast.parse('has_common_z = False').body[0]]
    for st in _fresh(span, subst):
        r = Enc().visit(st)
        if r is not None:
            blk.append(r)
    blk.append(ast.parse('return (coordinate_type, dimensionality, kept, has_common_z, double_attr)').body[0])
    for s in blk:
        ast.fix_missing_locations(s)
    attrs = {}
    attrs.update({
        'coordinates.ndim': ('int', 'ndim'), 'coordinates.shape[1]': ('int', 'ncols'),
        'np.all(np.isfinite(coordinates))': ('bool', 'allFinite'), 'len(unique_z_values)': ('int', 'nUniqueZ'),
        'coordinates.dtype == np.double': ('bool', 'isDouble'),
    })
    out.append(translate_block(blk, 'encodePlan', [], attrs,
                               doc='`AnnotationGroup.__init__` after concatenation: guards, then (coordinate type as 2/3, dimensionality '
                                   'of the stored points, columns kept, CommonZCoordinateValue written?, double attribute used?)'))

    # ---------------- index list
    idx_if = None
    for st in stmts:
        if isinstance(st, ast.If) and any(isinstance(n, ast.Assign) and _norm(n.targets[0]) == 'self.LongPrimitivePointIndexList' for n in ast.walk(st)):
            idx_if = st
    if idx_if is None:
        raise Unsupported('LongPrimitivePointIndexList block not found')
    shas.append(span_sha([idx_if]))
    t = idx_if.test
    if not (isinstance(t, ast.Compare) and len(t.ops) == 1 and isinstance(t.ops[0], ast.In) and _norm(t.left) == 'graphic_type'
            and isinstance(t.comparators[0], (ast.Tuple, ast.List))):
        raise Unsupported('index list condition is no longer graphic_type in (...)')
    types = []
    for e in t.comparators[0].elts:
        k = ast.unparse(e)
        if k not in gt_attrs:
            raise Unsupported(f'unknown graphic type {k} in index list condition')
        types.append(gt_attrs[k][1])
    out.append(lean_table('indexListTypes', 'List String', types, doc='graphic types that get a LongPrimitivePointIndexList'))
    texts = [_norm(s) for s in idx_if.body]
    comp = idx_if.body[0].value if isinstance(idx_if.body[0], ast.Assign) else None
    if not (len(texts) == 4 and texts[3] == 'self.LongPrimitivePointIndexList=point_indices.tobytes()'
            and isinstance(comp, ast.ListComp) and len(comp.generators) == 1
            and _norm(comp.generators[0].iter) == 'graphic_data' and _norm(comp.generators[0].target) == 'item' and not comp.generators[0].ifs):
        raise Unsupported('index list construction changed shape (spans / cumsum / concatenate / tobytes)')
    # the three expressions of the construction: `cumsum(spans) + c`, `np.array([f])`, `point_indices[:-k]`
    cs = idx_if.body[1].value if isinstance(idx_if.body[1], ast.Assign) and _norm(idx_if.body[1].targets[0]) == 'point_indices' else None
    il_offset = None
    if isinstance(cs, ast.BinOp) and isinstance(cs.op, ast.Add) and _norm(cs.left) == 'np.cumsum(spans,dtype=np.int32)' \
            and isinstance(cs.right, ast.Constant) and isinstance(cs.right.value, int):
        il_offset = cs.right.value
    elif cs is not None and _norm(cs) == 'np.cumsum(spans,dtype=np.int32)':
        il_offset = 0
    cc = idx_if.body[2].value if isinstance(idx_if.body[2], ast.Assign) and _norm(idx_if.body[2].targets[0]) == 'point_indices' else None
    il_first = il_drop = None
    if isinstance(cc, ast.Call) and _norm(cc.func) == 'np.concatenate' and len(cc.args) == 1 and isinstance(cc.args[0], ast.List) \
            and len(cc.args[0].elts) == 2:
        a0, a1 = cc.args[0].elts
        if isinstance(a0, ast.Call) and _norm(a0.func) == 'np.array' and isinstance(a0.args[0], ast.List) and len(a0.args[0].elts) == 1 \
                and isinstance(a0.args[0].elts[0], ast.Constant) and isinstance(a0.args[0].elts[0].value, int):
            il_first = a0.args[0].elts[0].value
        if isinstance(a1, ast.Subscript) and _norm(a1.value) == 'point_indices' and isinstance(a1.slice, ast.Slice) and a1.slice.lower is None \
                and a1.slice.step is None and isinstance(a1.slice.upper, ast.UnaryOp) and isinstance(a1.slice.upper.op, ast.USub) \
                and isinstance(a1.slice.upper.operand, ast.Constant):
            il_drop = int(a1.slice.upper.operand.value)
        elif isinstance(a1, ast.Name) and a1.id == 'point_indices':
            il_drop = 0
    if il_offset is None or il_first is None or il_drop is None:
        raise Unsupported('index list construction is no longer concatenate([array([f]), (cumsum(spans) + c)[:-k]])')
    blk = [ast.Return(value=comp.elt)]
    ast.fix_missing_locations(blk[0])
    out.append(translate_block(blk, 'indexSpan', [('dimensionality', 'int')], {'item.shape[0]': ('int', 'numCoords')},
                               doc='element of `spans`: number of stored coordinate values of one annotation'))
    out.append(f'/-- the index list is `[f] ++ (cumsum(spans) + c)[:-k]`: this is `f`, the literal of `np.array([f])` -/\n'
               f'def indexListBase : Int := {il_first}')
    out.append(f'/-- `c` of `np.cumsum(spans) + c` -/\ndef indexListCumsumOffset : Int := {il_offset}')
    out.append(f'/-- `k` of `point_indices[:-k]` -/\ndef indexListDropLast : Nat := {il_drop}')

    # ---------------- decode plan
    ggd = find_func(tree, 'AnnotationGroup.get_graphic_data')
    gb = strip_doc(ggd.body)
    top = [s for s in gb if isinstance(s, ast.If) and _norm(s.test) == 'len(self._graphic_data)>0']
    if len(top) != 1:
        raise Unsupported('get_graphic_data: cache test len(self._graphic_data) > 0 not found')
    cached = top[0].body
    if not (len(cached) == 1 and isinstance(cached[0], ast.If) and _norm(cached[0].test) == 'coordinate_typenotinself._graphic_data'
            and isinstance(cached[0].body[0], ast.Raise)):
        raise Unsupported('get_graphic_data: cached branch changed shape')
    rets = [st for st in gb if isinstance(st, ast.Return)]
    if len(rets) != 1 or _norm(rets[0].value) not in ('list(self._graphic_data[coordinate_type])', 'self._graphic_data[coordinate_type]'):
        raise Unsupported('get_graphic_data no longer returns (a list of) self._graphic_data[coordinate_type]')
    out.append('/-- `get_graphic_data` hands out a NEW list of the cached arrays (not the cached list itself) -/\n'
               'def graphicDataReturnsNewList : Bool := ' + ('true' if _norm(rets[0].value).startswith('list(') else 'false'))
    dec = top[0].orelse
    shas.append(span_sha(dec))
    split_expr = {}
    type_guard = {}

    class Dec(ast.NodeTransformer):
        def visit_Try(self, node):
            if 'DoublePointCoordinatesData' not in ast.unparse(node) or 'PointCoordinatesData' not in ast.unparse(node.handlers[0]):
                raise Unsupported('coordinate attribute selection (try Double.. except AttributeError Point..) changed')
            return None

        def visit_AnnAssign(self, node):
            if _norm(node.target) == 'split_param':
                return self.visit_Assign(ast.copy_location(ast.Assign(targets=[node.target], value=node.value), node))
            raise Unsupported('unexpected annotated assignment ' + ast.unparse(node)[:60])

        def visit_Assign(self, node):
            t = _norm(node.targets[0])
            v = _norm(node.value)
            if t in ('coordinate_dimensionality', 'stored_coordinate_dimensionality'):
                return node
            if t == 'split_param':
                if 'point_indices' in v:
                    split_expr['split'] = node.value
                    return [ast.copy_location(ast.parse('mode = 1').body[0], node), ast.copy_location(ast.parse('split_param = 0').body[0], node)]
                return [ast.copy_location(ast.parse('mode = 0').body[0], node), node]
            if t == 'point_indices':
                split_expr['indices'] = node.value
                return None
            if t == 'number_of_values':
                split_expr['total'] = node.value
                return None
            if t in ('decoded_coordinates_data', 'z_values', 'graphic_type', 'graphic_data', 'self._graphic_data'):
                return None
            if t == 'decoded_coordinates_data.flags.writeable':
                # the cached array rebuilt with the common z column is made read-only (like the views of the stored bytes)
                if v != 'False':
                    raise Unsupported('decoded coordinates are made writeable')
                type_guard['readonly'] = True
                return None
            if t == 'known_coordinate_type':
                if v != "getattr(self,'_coordinate_type',None)":
                    raise Unsupported('known_coordinate_type is no longer getattr(self, "_coordinate_type", None)')
                type_guard['known'] = True
                return None
            raise Unsupported('unexpected assignment in get_graphic_data: ' + ast.unparse(node)[:60])

        def visit_If(self, node):
            if 'coordinate_type!=' in _norm(node.test) and 'point_indices' not in _norm(node.test):
                # refusal of a coordinate type that contradicts what is known about the group
                if not (len(node.body) == 1 and isinstance(node.body[0], ast.Raise) and not node.orelse):
                    raise Unsupported('coordinate type guard changed shape')
                type_guard.setdefault('ifs', []).append(node)
                return None
            if 'point_indices' in _norm(node.test):
                if not (len(node.body) == 1 and isinstance(node.body[0], ast.Raise) and not node.orelse):
                    raise Unsupported('index list guard changed shape')
                split_expr['guard'] = node
                return None
            self.generic_visit(node)
            if not node.body:
                if _norm(node.test) == "hasattr(self,'CommonZCoordinateValue')" and not node.orelse:
                    return None
                node.body = [ast.Pass()]
            return node
    fresh = []
    for st in dec:
        if isinstance(st, ast.Try):
            Dec().visit_Try(st)
            continue
        fresh.append(st)
    blk = []
    for st in _fresh(fresh, subst):
        r = Dec().visit(st)
        if r is None:
            continue
        blk += r if isinstance(r, list) else [r]
    blk.append(ast.parse('return (stored_coordinate_dimensionality, mode, split_param)').body[0])
    for s in blk:
        ast.fix_missing_locations(s)
    attrs = {"hasattr(self, 'CommonZCoordinateValue')": ('bool', 'hasCommonZ'), 'len(decoded_coordinates_data)': ('int', 'nRows')}
    # `graphic_type = self.graphic_type` was dropped: the name is a parameter
    out.append(translate_block(blk, 'decodePlan', [('coordinate_type', 'int'), ('graphic_type', 'str')], attrs,
                               doc='`get_graphic_data` on a parsed group: (stored dimensionality, mode, sections) with mode 0 = '
                                   '`np.split` into `sections` equal parts, mode 1 = split at the indices derived from the index list'))
    # the guards on the requested coordinate type, as their own program (they precede everything the plan describes)
    try_at = [i for i, st in enumerate(dec) if isinstance(st, ast.Try)]
    guard_at = [i for i, st in enumerate(dec) if isinstance(st, ast.If) and 'coordinate_type!=' in _norm(st.test)
                and 'point_indices' not in _norm(st.test)]
    if guard_at and (not try_at or max(guard_at) > try_at[0]):
        raise Unsupported('a coordinate type guard no longer precedes the decoding')
    tg_blk = list(type_guard.get('ifs', [])) + [ast.parse('return 0').body[0]]
    for s2 in tg_blk:
        ast.fix_missing_locations(s2)
    if type_guard.get('ifs') and any('known_coordinate_type' in _norm(g0.test) for g0 in type_guard['ifs']) and not type_guard.get('known'):
        raise Unsupported('known_coordinate_type is tested but never read from the object')
    out.append(translate_block(tg_blk, 'coordTypeGuard', [('coordinate_type', 'int'), ('known_coordinate_type', 'optint')],
                               {"hasattr(self, 'CommonZCoordinateValue')": ('bool', 'hasCommonZ')},
                               doc='`get_graphic_data` on a parsed group: refusal (ValueError) of a requested coordinate type that '
                                   'contradicts the type handed down by the containing instance (`_coordinate_type`) or a stored '
                                   'CommonZCoordinateValue (3-D only); 0 = decoding goes ahead'))
    out.append('/-- the array decoded with the common z column (a new, otherwise writeable array) is made read-only before it is cached -/\n'
               'def decodedSharedZReadOnly : Bool := ' + ('true' if type_guard.get('readonly') else 'false'))
    if set(split_expr) != {'split', 'indices', 'total', 'guard'}:
        raise Unsupported('index-list split expressions / validation not found in get_graphic_data: ' + ','.join(sorted(split_expr)))
    g = split_expr['guard']
    clauses = g.test.values if isinstance(g.test, ast.BoolOp) and isinstance(g.test.op, ast.Or) else None
    want = [('len(point_indices)==0', 'isEmpty'), ('point_indices[0]!=0', 'firstNotOne'),
            ('np.any(np.diff(point_indices)<=0)', 'anyNotIncreasing'),
            ('np.any(point_indices%stored_coordinate_dimensionality!=0)', 'anyOffBoundary'),
            ('point_indices[-1]>=number_of_values', 'lastBeyond')]
    if clauses is None or [_norm(c) for c in clauses] != [w for w, _ in want]:
        raise Unsupported('index list guard is no longer the five-clause validation (empty / first / increasing / boundary / range)')
    gsub = {ast.unparse(c): nm for c, (_, nm) in zip(clauses, want)}
    gblk = _fresh([g], gsub) + [ast.parse('return 0').body[0]]
    for s2 in gblk:
        ast.fix_missing_locations(s2)
    out.append(translate_block(gblk, 'indexListGuard', [(nm, 'bool') for _, nm in want], {},
                               doc='validation of the stored index list (entries minus one): empty, first entry not 1, not strictly '
                                   'increasing, an entry off a point boundary, last entry beyond the coordinate data'))
    tblk = [ast.Return(value=split_expr['total'])]
    ast.fix_missing_locations(tblk[0])
    out.append(translate_block(tblk, 'indexListTotal', [('stored_coordinate_dimensionality', 'int')],
                               {'len(decoded_coordinates_data)': ('int', 'nRows')},
                               doc='`number_of_values`: number of stored coordinate values the index list may point into'))
    ind, spl = split_expr['indices'], split_expr['split']
    if not (isinstance(ind, ast.BinOp) and isinstance(ind.op, ast.Sub) and _norm(ind.left) == 'np.frombuffer(self.LongPrimitivePointIndexList,dtype=np.int32)'):
        raise Unsupported('point_indices is no longer frombuffer(LongPrimitivePointIndexList, int32) - c')
    if not (isinstance(spl, ast.Subscript) and isinstance(spl.slice, ast.Slice) and spl.slice.upper is None and spl.slice.step is None
            and isinstance(spl.slice.lower, ast.Constant) and isinstance(spl.value, ast.BinOp) and _norm(spl.value.left) == 'point_indices'):
        raise Unsupported('split_param is no longer (point_indices <op> stored_coordinate_dimensionality)[k:]')
    expr = ast.BinOp(left=ast.BinOp(left=ast.Name(id='point_index', ctx=ast.Load()), op=ind.op, right=ind.right), op=spl.value.op, right=spl.value.right)
    blk = [ast.Return(value=expr)]
    ast.fix_missing_locations(blk[0])
    out.append(translate_block(blk, 'splitIndex', [('point_index', 'int'), ('stored_coordinate_dimensionality', 'int')], {},
                               doc='row at which `np.split` cuts for an entry of the index list'))
    zblk = [ast.Return(value=ast.BinOp(left=ast.Name(id='point_index', ctx=ast.Load()), op=ind.op, right=ind.right))]
    ast.fix_missing_locations(zblk[0])
    out.append(translate_block(zblk, 'pointIndexZero', [('point_index', 'int')], {},
                               doc='`point_indices`: a stored (one-based) entry made zero-based'))
    out.append(f'/-- `[k:]`: entries of the index list that are not used as cuts -/\ndef splitDropFirst : Nat := {int(spl.slice.lower.value)}')

    # ---------------- get_coordinates
    gc = find_func(tree, 'AnnotationGroup.get_coordinates')
    cb = strip_doc(gc.body)
    shas.append(span_sha(cb))
    blk = []
    via_ggd = False
    for st in _fresh(cb):
        if isinstance(st, ast.Assign) and _norm(st.targets[0]) == 'coordinate_type':
            if _norm(st.value) != 'AnnotationCoordinateTypeValues(coordinate_type)':
                raise Unsupported('get_coordinates: coordinate_type is no longer normalised by the enum')
            continue
        if isinstance(st, ast.If) and _norm(st.test) == 'coordinate_typenotinself._graphic_data':
            # nothing cached under the requested type: the data are decoded (or the type refused) by get_graphic_data
            if not (len(st.body) == 1 and isinstance(st.body[0], ast.Expr) and _norm(st.body[0].value) == 'self.get_graphic_data(coordinate_type)'
                    and not st.orelse):
                raise Unsupported('get_coordinates no longer decodes through self.get_graphic_data(coordinate_type)')
            via_ggd = True
            continue
        if isinstance(st, ast.Assign) and _norm(st.targets[0]) == 'graphic_data':
            if _norm(st.value) == 'self.get_graphic_data(coordinate_type)':
                via_ggd = True
            elif _norm(st.value) != 'self._graphic_data[coordinate_type]' or not via_ggd:
                raise Unsupported('get_coordinates no longer reads the graphic data decoded by self.get_graphic_data(coordinate_type)')
            continue
        if isinstance(st, ast.Return):
            if not (isinstance(st.value, ast.Subscript) and _norm(st.value.value) == 'graphic_data'):
                raise Unsupported('get_coordinates no longer returns graphic_data[<index>]')
            st = ast.Return(value=st.value.slice)
            ast.fix_missing_locations(st)
        blk.append(st)
    out.append(translate_block(blk, 'coordIndex', [('annotation_number', 'int')], {},
                               doc='`get_coordinates`: refusal of numbers < 1 and the (zero-based) list index used'))

    # ---------------- Measurements.get_values guard
    gv = find_func(tree, 'Measurements.get_values')
    vb = strip_doc(gv.body)
    shas.append(span_sha(vb))
    has_if = [s for s in vb if isinstance(s, ast.If) and _norm(s.test) == "hasattr(item,'AnnotationIndexList')"]
    guard = [s for s in vb if isinstance(s, ast.If) and 'len(stored_values)' in _norm(s.test)]
    if len(has_if) != 1 or len(guard) != 1:
        raise Unsupported('get_values: index-list branch / count guard not found')
    tb = [_norm(s) for s in has_if[0].body]
    eb = [_norm(s) for s in has_if[0].orelse]
    if not (len(tb) in (1, 2) and tb[0].startswith('stored_indices=np.frombuffer(item.AnnotationIndexList')
            and eb == ['stored_indices=np.arange(number_of_annotations)']):
        raise Unsupported('get_values: index preparation changed shape')
    meas_read = 0
    if len(tb) == 2:
        st2 = has_if[0].body[1]
        if not (isinstance(st2, ast.Assign) and isinstance(st2.value, ast.BinOp) and isinstance(st2.value.op, ast.Sub)
                and _norm(st2.value.left) == 'stored_indices' and isinstance(st2.value.right, ast.Constant)
                and isinstance(st2.value.right.value, int)):
            raise Unsupported('get_values: stored indices are no longer made zero-based by `stored_indices - c`')
        meas_read = st2.value.right.value
    sel = ast.parse("if has_index_list:\n    n_indices = n_index_list\nelse:\n    n_indices = number_of_annotations").body[0]
    blk = [sel] + _fresh(guard, {'len(stored_indices)': 'n_indices'}) + [ast.parse('return n_indices').body[0]]
    for s in blk:
        ast.fix_missing_locations(s)
    out.append(translate_block(blk, 'measIndexGuard',
                               [('has_index_list', 'bool'), ('n_index_list', 'int'), ('number_of_annotations', 'int')],
                               {'len(stored_values)': ('int', 'nStoredValues')},
                               doc='`Measurements.get_values`: indices are the stored list minus one, or `arange(n)`; the number of '
                                   'stored values must equal the number of indices'))
    # ---------------- the check the group constructor applies to every item of `measurements`
    mloops = [n for n in ast.walk(init) if isinstance(n, ast.For) and _norm(n.iter) == 'enumerate(measurements)']
    if len(mloops) != 1:
        raise Unsupported('AnnotationGroup.__init__: loop over enumerate(measurements) not found')
    mbody = mloops[0].body
    shas.append(span_sha(mbody))
    mblk = []
    appended = False
    for st in mbody:
        if isinstance(st, ast.Assign) and _norm(st.targets[0]) == 'error_message':
            continue
        if isinstance(st, ast.Assign) and _norm(st.targets[0]) == 'number_of_values':
            if _norm(st.value) != "getattr(item,'_number_of_values',None)":
                raise Unsupported('measurements loop: number_of_values is no longer getattr(item, "_number_of_values", None)')
            continue
        if isinstance(st, ast.Try):
            if not (len(st.body) == 1 and _norm(st.body[0]) == 'measured_values=item.get_values(self.NumberOfAnnotations)'
                    and len(st.handlers) == 1 and _norm(st.handlers[0].type) == 'IndexError' and len(st.handlers[0].body) == 1
                    and isinstance(st.handlers[0].body[0], ast.Raise) and _norm(st.handlers[0].body[0].exc.func) == 'ValueError'
                    and not st.orelse and not st.finalbody):
                raise Unsupported('measurements loop: try get_values / except IndexError -> ValueError changed shape')
            mblk.append(ast.parse('if get_values_raises_index_error:\n    raise ValueError("count")').body[0])
            continue
        if isinstance(st, ast.Expr) and _norm(st.value) == 'self.MeasurementsSequence.append(item)':
            appended = True
            continue
        mblk += _fresh([st])
    if not appended or _norm(mbody[-1]) != 'self.MeasurementsSequence.append(item)':
        raise Unsupported('measurements loop no longer ends in self.MeasurementsSequence.append(item)')
    mblk.append(ast.parse('return 0').body[0])
    for s2 in mblk:
        ast.fix_missing_locations(s2)
    out.append(translate_block(mblk, 'measCheckPlan', [('number_of_values', 'optint'), ('get_values_raises_index_error', 'bool')],
                               {'isinstance(item, Measurements)': ('bool', 'isMeasurements'), 'self.NumberOfAnnotations': ('int', 'nAnn'),
                                'len(measured_values)': ('int', 'nValues')},
                               doc='loop body of `for i, item in enumerate(measurements)` in `AnnotationGroup.__init__`: TypeError for a '
                                   'non-Measurements item, ValueError when the remembered number of values differs from NumberOfAnnotations, '
                                   'when `get_values` raises IndexError (`try/except` rewritten as the input `get_values_raises_index_error`) '
                                   'or returns another length; 0 = the item is appended'))
    mi = find_func(tree, 'Measurements.__init__')
    meas_write = None
    for node in ast.walk(mi):
        if isinstance(node, ast.Assign) and _norm(node.targets[0]) == 'stored_indices':
            v = node.value
            if isinstance(v, ast.Call) and isinstance(v.func, ast.Attribute) and v.func.attr == 'astype' and _norm(v.args[0]) == 'np.int32':
                inner = v.func.value
                if isinstance(inner, ast.BinOp) and isinstance(inner.op, ast.Add) and _norm(inner.left) == 'np.where(~is_nan)[0]' \
                        and isinstance(inner.right, ast.Constant) and isinstance(inner.right.value, int):
                    meas_write = inner.right.value
                elif _norm(inner) == 'np.where(~is_nan)[0]':
                    meas_write = 0
    if meas_write is None:
        raise Unsupported('Measurements.__init__: stored_indices is no longer (np.where(~is_nan)[0] + c).astype(np.int32)')
    out.append(f'/-- `c` of `np.where(~is_nan)[0] + c` in `Measurements.__init__` (what the model writes with) -/\n'
               f'def measIndexBase : Int := {meas_write}')
    out.append(f'/-- `c` of `stored_indices - c` in `Measurements.get_values` -/\ndef measReadOffset : Int := {meas_read}')
    shas.append(span_sha(strip_doc(mi.body)))
    return '\n\n'.join(out), hashlib.sha256(''.join(shas).encode()).hexdigest()


def build_T18s(tree):
    fn = find_func(tree, 'MicroscopyBulkSimpleAnnotations.get_annotation_group')
    body = strip_doc(fn.body)
    conds = []
    rets = []

    class R(ast.NodeTransformer):
        def visit_Assign(self, node):
            if _norm(node.targets[0]) == 'items' and isinstance(node.value, ast.ListComp):
                g = node.value.generators[0]
                if _norm(g.iter) != 'self.AnnotationGroupSequence' or len(g.ifs) != 1 or _norm(node.value.elt) != _norm(g.target):
                    raise Unsupported('get_annotation_group: comprehension changed shape')
                conds.append(_norm(g.ifs[0]))
                return None
            raise Unsupported('unexpected assignment in get_annotation_group')

        def visit_Return(self, node):
            if _norm(node.value) != 'items[0]':
                raise Unsupported('get_annotation_group no longer returns items[0]')
            rets.append(1)
            return ast.copy_location(ast.parse(f'return {len(rets)}').body[0], node)
    blk = []
    for st in _fresh(body):
        r = R().visit(st)
        if r is not None:
            blk.append(r)
    for s in blk:
        ast.fix_missing_locations(s)
    if conds != ['int(item.AnnotationGroupNumber)==int(number)', 'str(item.AnnotationGroupUID)==str(uid)']:
        raise Unsupported(f'get_annotation_group: match conditions changed: {conds}')
    filt_text, filt_sha = _build_filter(tree)
    sop_text, sop_sha = _build_sop_numbering(tree)
    hand_text, hand_sha = _build_hand_down(tree)
    filt_text = filt_text + '\n\n' + sop_text + '\n\n' + hand_text
    filt_sha = hashlib.sha256((filt_sha + sop_sha + hand_sha).encode()).hexdigest()
    text = translate_block(blk, 'groupLookupDecision', [('number', 'optint'), ('uid', 'optint')], {'len(items)': ('int', 'nItems')},
                           doc='`get_annotation_group`: TypeError without a key; 1 = the groups whose number matches are used, '
                               '2 = the groups whose uid matches (`uid` stands for any non-None uid); ValueError unless exactly one '
                               '(`nItems` = number of matching items of the branch taken)')
    return text + '\n\n' + filt_text, span_sha(body) + filt_sha[:16]


def _build_hand_down(tree):
    """`MicroscopyBulkSimpleAnnotations.from_dataset`: every parsed group receives the instance's coordinate type"""
    fn = find_func(tree, 'MicroscopyBulkSimpleAnnotations.from_dataset')
    body = strip_doc(fn.body)
    src = None
    done = False
    parsed_at = None
    for i, st in enumerate(body):
        if isinstance(st, ast.Assign) and _norm(st.targets[0]) == 'ann.AnnotationGroupSequence':
            if _norm(st.value) != '[AnnotationGroup.from_dataset(item,copy=copy)foriteminann.AnnotationGroupSequence]':
                raise Unsupported('SOP from_dataset: the groups are no longer parsed by AnnotationGroup.from_dataset(item, copy=copy)')
            parsed_at = i
        if isinstance(st, ast.Assign) and _norm(st.targets[0]) == 'coordinate_type':
            src = _norm(st.value)
        if isinstance(st, ast.For) and _norm(st.iter) == 'ann.AnnotationGroupSequence' and parsed_at is not None and i > parsed_at:
            if len(st.body) == 1 and _norm(st.body[0]) == f'{_norm(st.target)}._coordinate_type=coordinate_type' and not st.orelse:
                done = True
    if parsed_at is None:
        raise Unsupported('SOP from_dataset: parsing of the groups not found')
    ok = done and src == 'AnnotationCoordinateTypeValues(ann.AnnotationCoordinateType)'
    text = ('/-- `MicroscopyBulkSimpleAnnotations.from_dataset` gives every parsed group `_coordinate_type = '
            'AnnotationCoordinateTypeValues(ann.AnnotationCoordinateType)` -/\n'
            'def sopHandsDownCoordinateType : Bool := ' + ('true' if ok else 'false'))
    return text, span_sha(body)


def _build_sop_numbering(tree):
    """body of `for i, group in enumerate(annotation_groups)` in `MicroscopyBulkSimpleAnnotations.__init__`"""
    fn = find_func(tree, 'MicroscopyBulkSimpleAnnotations.__init__')
    loops = [n for n in ast.walk(fn) if isinstance(n, ast.For) and _norm(n.iter) == 'enumerate(annotation_groups)'
             and _norm(n.target) == '(i,group)']
    if len(loops) != 1:
        raise Unsupported('SOP constructor: loop `for i, group in enumerate(annotation_groups)` not found')
    body = loops[0].body
    blk = []
    known_blk = []
    dropped = 0
    for st in _fresh(body, {'AnnotationCoordinateTypeValues.SCOORD': '2', 'AnnotationCoordinateTypeValues.SCOORD3D': '3'}):
        if isinstance(st, ast.Expr) and _norm(st.value) == 'self.AnnotationGroupSequence.append(group)':
            continue
        if isinstance(st, ast.Assign) and _norm(st.targets[0]) == 'known_coordinate_type':
            if _norm(st.value) != "getattr(group,'_coordinate_type',None)":
                raise Unsupported('SOP constructor: known_coordinate_type is no longer getattr(group, "_coordinate_type", None)')
            dropped += 1
            continue
        if isinstance(st, ast.If) and 'known_coordinate_type' in _norm(st.test):
            # what a PARSED group knows about its coordinate type: its own program `sopKnownTypeCheck`
            if not (len(st.body) == 1 and isinstance(st.body[0], ast.Raise) and not st.orelse):
                raise Unsupported('SOP constructor: check of the known coordinate type changed shape')
            known_blk.append(st)
            dropped += 1
            continue
        blk.append(st)
    if len(blk) != len(body) - 1 - dropped or _norm(body[-1]) != 'self.AnnotationGroupSequence.append(group)':
        raise Unsupported('SOP constructor: the loop no longer ends in self.AnnotationGroupSequence.append(group)')
    blk.append(ast.parse('return 0').body[0])
    known_blk.append(ast.parse('return 0').body[0])
    for s2 in known_blk:
        ast.fix_missing_locations(s2)
    known_text = translate_block(known_blk, 'sopKnownTypeCheck', [('coordinate_type', 'int'), ('known_coordinate_type', 'optint')],
                                 {"hasattr(group, 'CommonZCoordinateValue')": ('bool', 'hasCommonZ')},
                                 doc='SOP class constructor, second check of a group: ValueError when the coordinate type the group '
                                     'learned from the instance it was parsed with (`_coordinate_type`) differs from the new instance`s, '
                                     'or when it stores a common z and the instance is not 3D; 0 = accepted')
    for s2 in blk:
        ast.fix_missing_locations(s2)
    text = translate_block(blk, 'sopGroupCheck', [('i', 'int')],
                           {'isinstance(group, AnnotationGroup)': ('bool', 'isGroup'), 'group.AnnotationGroupNumber': ('int', 'number'),
                            'len(group._graphic_data)': ('int', 'nCached'),
                            'coordinate_type not in group._graphic_data': ('bool', 'typeNotCached')},
                           doc='loop body of the SOP class constructor for the group at zero-based position `i`: TypeError for a '
                               'non-group, ValueError unless its number is the expected one, ValueError for a group whose graphic data '
                               '(`_graphic_data`, filled by the group constructor under its own coordinate type) is not of the '
                               'instance`s coordinate type')
    return text + '\n\n' + known_text, span_sha(body)


def _build_filter(tree):
    """body of the `for item in self.AnnotationGroupSequence` loop of `get_annotation_groups` as a Boolean decision over
    `has_<criterion>` (criterion given), `eq_<criterion>` (its comparison with the item), `has_alg_id`."""
    fn = find_func(tree, 'MicroscopyBulkSimpleAnnotations.get_annotation_groups')
    loops = [n for n in fn.body if isinstance(n, ast.For) and _norm(n.iter) == 'self.AnnotationGroupSequence' and _norm(n.target) == 'item']
    if len(loops) != 1:
        raise Unsupported('get_annotation_groups: loop over self.AnnotationGroupSequence not found')
    body = loops[0].body
    crit = [a.arg for a in fn.args.args if a.arg != 'self']
    table = []      # (criterion, what it is compared with)
    state = {'final': False}

    def criterion_of(expr):
        """eq(<lhs>, <crit>) or <lhs> == <crit>  ->  (crit, lhs text)"""
        if isinstance(expr, ast.Call) and _norm(expr.func) == 'eq' and len(expr.args) == 2 and isinstance(expr.args[1], ast.Name):
            return expr.args[1].id, ast.unparse(expr.args[0])
        if isinstance(expr, ast.Compare) and len(expr.ops) == 1 and isinstance(expr.ops[0], ast.Eq) and isinstance(expr.comparators[0], ast.Name):
            return expr.comparators[0].id, ast.unparse(expr.left)
        raise Unsupported('get_annotation_groups: unrecognised comparison ' + ast.unparse(expr)[:60])

    class F(ast.NodeTransformer):
        def visit_Assign(self, node):
            t = _norm(node.targets[0])
            if t == 'matches':
                if _norm(node.value) != '[]':
                    raise Unsupported('matches is no longer initialised to []')
                return ast.copy_location(ast.parse('all_match = True').body[0], node)
            if t == 'is_match':
                c, lhs = criterion_of(node.value)
                if c not in crit:
                    raise Unsupported(f'comparison with {c}, which is not a search criterion')
                table.append((c, lhs))
                state['last'] = c
                return None
            if t == 'algorithm_identification':
                if _norm(node.value) != 'item.algorithm_identification':
                    raise Unsupported('algorithm_identification is no longer item.algorithm_identification')
                return None
            raise Unsupported('get_annotation_groups: unexpected assignment ' + ast.unparse(node)[:60])

        def visit_Expr(self, node):
            v = node.value
            if isinstance(v, ast.Call) and _norm(v.func) == 'matches.append' and len(v.args) == 1:
                a = _norm(v.args[0])
                if a == 'is_match':
                    if not state.get('last'):
                        raise Unsupported('matches.append(is_match) without a preceding comparison')
                    c = state.pop('last')
                    return ast.copy_location(ast.parse(f'all_match = all_match and eq_{c}').body[0], node)
                if a == 'False':
                    return ast.copy_location(ast.parse('all_match = False').body[0], node)
            if isinstance(v, ast.Call) and _norm(v.func) == 'groups.append' and _norm(v.args[0]) == 'item':
                return ast.copy_location(ast.parse('result = True').body[0], node)
            raise Unsupported('get_annotation_groups: unexpected statement ' + ast.unparse(node)[:60])

        def visit_If(self, node):
            if _norm(node.test) in ('np.all(matches)orlen(matches)==0', 'len(matches)==0ornp.all(matches)'):
                if len(node.body) != 1 or node.orelse or _norm(node.body[0]) != 'groups.append(item)':
                    raise Unsupported('get_annotation_groups: final selection changed shape')
                state['final'] = True
                return ast.copy_location(ast.parse('return all_match').body[0], node)
            self.generic_visit(node)
            return node
    subst = {f'{c} is not None': f'has_{c}' for c in crit}
    subst['algorithm_identification is not None'] = 'has_alg_id'
    blk = []
    for st in _fresh(body, subst):
        r = F().visit(st)
        if r is not None:
            blk.append(r)
    for s2 in blk:
        ast.fix_missing_locations(s2)
    if not state['final']:
        raise Unsupported('get_annotation_groups: selection `np.all(matches) or len(matches) == 0` not found')
    params = []
    for c in crit:
        params += [(f'has_{c}', 'bool'), (f'eq_{c}', 'bool')]
    params.append(('has_alg_id', 'bool'))
    text = translate_block(blk, 'groupFilterDecision', params, {},
                           doc='loop body of `get_annotation_groups`: is the item selected?  `has_<c>`: criterion given, `eq_<c>`: '
                               'its comparison with the item holds, `has_alg_id`: the item has an algorithm identification')
    tab = lean_table('filterCompares', 'List (String × String)', [f'({_s(c)}, {_s(l)})' for c, l in table],
                     doc='criterion -> the expression of the item it is compared with')
    return tab + '\n\n' + text, span_sha(body)


TARGETS = {
    'T18': {'file': 'ann/content.py', 'build': build_T18},
    'T18s': {'file': 'ann/sop.py', 'build': build_T18s},
}
