"""Translation targets of C10 (tie T): the literal tables of the orientation code.

T13o  spatial.py : PATIENT_ORIENTATION_OPPOSITES, `direction_to_vector_mapping` of
      rotation_for_patient_orientation, `pos_directions` / `neg_directions` of
      get_closest_patient_orientation, the if/elif table of create_rotation_matrix and
      get_normal_vector (index direction -> signed cosine vector, spacing), the handedness branch and the
      slices-first placement, the half-pixel correction matrices of the image transformers.
T13e  enum.py    : members of PatientOrientationValuesBiped, PixelIndexDirections, AxisHandedness.

Everything is emitted as Lean list literals (letters as `Char`), so that `letters_matrix_agree` and the
convention theorems are about what the source says now.
"""
from __future__ import annotations

import ast

from py2lean import Unsupported, find_func, lean_table, span_sha


def _enum_letter(node):
    """PatientOrientationValuesBiped.L / PixelIndexDirections.R -> 'L' / 'R'"""
    if isinstance(node, ast.Attribute) and isinstance(node.value, ast.Name) and len(node.attr) == 1:
        return node.attr
    if isinstance(node, ast.Constant) and isinstance(node.value, str) and len(node.value) == 1:
        return node.value
    raise Unsupported(f'not a single-letter enum member: {ast.unparse(node)}')


def _ch(c):
    return f"'{c}'"


def _num(node):
    """numeric literal (possibly negated) -> int; floats must be integral"""
    if isinstance(node, ast.UnaryOp) and isinstance(node.op, ast.USub):
        return -_num(node.operand)
    if isinstance(node, ast.Constant) and isinstance(node.value, (int, float)) and not isinstance(node.value, bool):
        if float(node.value) != int(node.value):
            raise Unsupported(f'non-integral literal {node.value}')
        return int(node.value)
    raise Unsupported(f'not a numeric literal: {ast.unparse(node)}')


def _rat(node):
    """numeric literal -> Lean rational text (dyadic floats exactly)"""
    from fractions import Fraction
    neg = False
    if isinstance(node, ast.UnaryOp) and isinstance(node.op, ast.USub):
        neg, node = True, node.operand
    if isinstance(node, ast.Constant) and isinstance(node.value, (int, float)) and not isinstance(node.value, bool):
        f = Fraction(node.value)
        if neg:
            f = -f
        return f'(({f.numerator} : Rat) / {f.denominator})'
    raise Unsupported(f'not a numeric literal: {ast.unparse(node)}')


def _assign_in(fn, name):
    hits = [n for n in ast.walk(fn) if isinstance(n, ast.Assign) and len(n.targets) == 1
            and isinstance(n.targets[0], ast.Name) and n.targets[0].id == name]
    if not hits:
        raise Unsupported(f'assignment to {name} not found in {getattr(fn, "name", "module")}')
    return hits


def _module_assign(tree, name):
    for n in tree.body:
        if isinstance(n, ast.Assign) and len(n.targets) == 1 and isinstance(n.targets[0], ast.Name) \
                and n.targets[0].id == name:
            return n
    raise Unsupported(f'module-level {name} not found')


def _axis_table(fn, with_spacing):
    """The `for d in index_convention_:` if/elif chain: direction -> (sign, 'row'|'col', spacing name)."""
    loops = [n for n in ast.walk(fn) if isinstance(n, ast.For) and 'index_convention_' in ast.unparse(n.iter)]
    if len(loops) != 1:
        raise Unsupported(f'loop over index_convention_ not found in {fn.name}')
    loop = loops[0]
    if len(loop.body) != 1 or not isinstance(loop.body[0], ast.If):
        raise Unsupported('loop body is no longer a single if/elif chain')
    rows = []
    node = loop.body[0]
    while True:
        t = node.test
        if not (isinstance(t, ast.Compare) and len(t.ops) == 1 and isinstance(t.ops[0], ast.Eq)
                and isinstance(t.left, ast.Name) and t.left.id == loop.target.id):
            raise Unsupported(f'unexpected branch test {ast.unparse(t)}')
        letter = _enum_letter(t.comparators[0])
        vec = spc = None
        for st in node.body:
            if not (isinstance(st, ast.Expr) and isinstance(st.value, ast.Call)
                    and isinstance(st.value.func, ast.Attribute) and st.value.func.attr == 'append'
                    and len(st.value.args) == 1):
                raise Unsupported(f'unexpected statement in branch {letter}: {ast.unparse(st)}')
            tgt = ast.unparse(st.value.func.value)
            a = st.value.args[0]
            if tgt == 'rotation_columns':
                sign = 1
                if isinstance(a, ast.UnaryOp) and isinstance(a.op, ast.USub):
                    sign, a = -1, a.operand
                if not isinstance(a, ast.Name) or a.id not in ('row_cosines', 'column_cosines'):
                    raise Unsupported(f'unexpected axis vector {ast.unparse(a)}')
                vec = (sign, a.id == 'row_cosines')
            elif tgt == 'spacings':
                if not isinstance(a, ast.Name) or a.id not in ('spacing_between_rows', 'spacing_between_columns'):
                    raise Unsupported(f'unexpected spacing {ast.unparse(a)}')
                spc = a.id == 'spacing_between_columns'
            else:
                raise Unsupported(f'append to unexpected list {tgt}')
        if vec is None or (with_spacing and spc is None):
            raise Unsupported(f'branch {letter} incomplete')
        rows.append((letter, vec[0], vec[1], bool(spc)))
        if len(node.orelse) == 1 and isinstance(node.orelse[0], ast.If):
            node = node.orelse[0]
        elif not node.orelse:
            break
        else:
            raise Unsupported('unexpected else branch in axis table')
    return rows, loop


def _handed_branch(fn):
    """`if handedness_ == RIGHT_HANDED: n = cross(rc[0], rc[1]) else: n = cross(rc[1], rc[0])`
    -> (i, j) used in the right-handed branch, (i, j) in the other."""
    for n in ast.walk(fn):
        if isinstance(n, ast.If) and 'handedness_' in ast.unparse(n.test):
            t = n.test
            if not (isinstance(t, ast.Compare) and isinstance(t.ops[0], ast.Eq)
                    and ast.unparse(t.comparators[0]).endswith('RIGHT_HANDED')):
                raise Unsupported(f'unexpected handedness test {ast.unparse(t)}')

            def order(body):
                if len(body) != 1 or not isinstance(body[0], ast.Assign):
                    raise Unsupported('unexpected handedness branch')
                c = body[0].value
                if not (isinstance(c, ast.Call) and ast.unparse(c.func) == 'np.cross' and len(c.args) == 2):
                    raise Unsupported('handedness branch is not an np.cross call')
                idx = []
                for a in c.args:
                    if not (isinstance(a, ast.Subscript) and ast.unparse(a.value) == 'rotation_columns'):
                        raise Unsupported('np.cross argument is not rotation_columns[i]')
                    idx.append(_num(a.slice))
                return tuple(idx)
            return order(n.body), order(n.orelse), n
    raise Unsupported(f'handedness branch not found in {fn.name}')


def _slices_first(fn):
    """`if slices_first: rc.insert(0, n); sp.insert(0, sbs) else: rc.append(n); sp.append(sbs)` -> True when
    the slice axis is put in front exactly in the `slices_first` branch."""
    for n in ast.walk(fn):
        if isinstance(n, ast.If) and ast.unparse(n.test) == 'slices_first':
            a = [ast.unparse(s) for s in n.body]
            b = [ast.unparse(s) for s in n.orelse]
            if a == ['rotation_columns.insert(0, n)', 'spacings.insert(0, spacing_between_slices)'] and \
                    b == ['rotation_columns.append(n)', 'spacings.append(spacing_between_slices)']:
                return True, n
            raise Unsupported('slices_first branch changed: ' + '; '.join(a + ['|'] + b))
    raise Unsupported('slices_first branch not found')


def _matrix44(fn, name, which=0):
    """`name = np.array([[...4 numbers...] * 4])` inside fn -> translation column as rationals, after
    checking that the rest is the identity."""
    hits = _assign_in(fn, name)
    node = hits[which].value
    if not (isinstance(node, ast.Call) and ast.unparse(node.func) == 'np.array' and node.args
            and isinstance(node.args[0], ast.List) and len(node.args[0].elts) == 4):
        raise Unsupported(f'{name} is not a 4x4 np.array literal')
    rows = []
    for r in node.args[0].elts:
        if not isinstance(r, ast.List) or len(r.elts) != 4:
            raise Unsupported(f'{name} is not a 4x4 np.array literal')
        rows.append(r.elts)
    from fractions import Fraction

    def val(e):
        neg = False
        if isinstance(e, ast.UnaryOp) and isinstance(e.op, ast.USub):
            neg, e = True, e.operand
        if not (isinstance(e, ast.Constant) and isinstance(e.value, (int, float))):
            raise Unsupported(f'non-literal entry in {name}')
        f = Fraction(e.value)
        return -f if neg else f
    vals = [[val(e) for e in r] for r in rows]
    for i in range(4):
        for j in range(3):
            if vals[i][j] != (1 if i == j else 0):
                raise Unsupported(f'{name} is no longer identity + translation')
    if vals[3][3] != 1:
        raise Unsupported(f'{name} last row changed')
    return [_rat_text(vals[i][3]) for i in range(3)], hits[which]


def _rat_text(f):
    return f'(({f.numerator} : Rat) / {f.denominator})'


def _module_float(tree, name):
    """module-level `name = <float literal>` -> exact decimal rational text (1e-05 -> 1/100000)"""
    from fractions import Fraction
    n = _module_assign(tree, name)
    v = n.value
    if not (isinstance(v, ast.Constant) and isinstance(v.value, (int, float)) and not isinstance(v.value, bool)):
        raise Unsupported(f'{name} is not a numeric literal')
    f = Fraction(repr(v.value))
    return f'(({f.numerator} : Rat) / {f.denominator})', n


def _coplanar_decision(tree):
    """`_are_images_coplanar`: the statement sequence is matched exactly; what may vary (and is emitted) is, for each of the
    two plane distances, whether an abs() is applied, which position and which normal is used."""
    from py2lean import strip_doc
    fn = find_func(tree, '_are_images_coplanar')
    body = strip_doc(fn.body)
    src = [ast.unparse(x) for x in body]
    if len(body) != 6:
        raise Unsupported(f'_are_images_coplanar has {len(body)} statements, 6 expected')
    if src[0] != 'n_a = get_normal_vector(image_orientation_a)' or src[1] != 'n_b = get_normal_vector(image_orientation_b)':
        raise Unsupported('normals of _are_images_coplanar are no longer get_normal_vector(image_orientation_x)')
    if src[2] != 'if 1.0 - np.abs(n_a @ n_b) > tol:\n    return False':
        raise Unsupported('parallelism test of _are_images_coplanar changed: ' + src[2])
    if src[5] != 'return abs(dis_a - dis_b) < tol':
        raise Unsupported('distance comparison of _are_images_coplanar changed: ' + src[5])
    dflt = {a.arg: d for a, d in zip(fn.args.args[-len(fn.args.defaults):], fn.args.defaults)}
    if 'tol' not in dflt or ast.unparse(dflt['tol']) != '_DEFAULT_EQUALITY_TOLERANCE':
        raise Unsupported('default tolerance of _are_images_coplanar changed')
    specs = []
    for k, name in ((3, 'dis_a'), (4, 'dis_b')):
        st = body[k]
        if not (isinstance(st, ast.Assign) and ast.unparse(st.targets[0]) == name):
            raise Unsupported(f'statement {k} of _are_images_coplanar is not an assignment to {name}')
        e = st.value
        use_abs = False
        if isinstance(e, ast.Call) and ast.unparse(e.func) in ('abs', 'np.abs') and len(e.args) == 1:
            use_abs, e = True, e.args[0]
        if not (isinstance(e, ast.BinOp) and isinstance(e.op, ast.MatMult)):
            raise Unsupported(f'{name} is not a dot product')
        l, rgt = ast.unparse(e.left), ast.unparse(e.right)
        pos = {'np.array(image_position_a, dtype=float)': 'a', 'np.array(image_position_b, dtype=float)': 'b'}.get(l)
        nrm = {'n_a': 'a', 'n_b': 'b'}.get(rgt)
        if pos is None or nrm is None:
            raise Unsupported(f'{name} = {ast.unparse(st.value)} is not position @ normal')
        specs.append((use_abs, pos, nrm))
    txt = ('/-- `_are_images_coplanar`: for `dis_a`, `dis_b`: (abs applied, which position, which normal) -/\n'
           'def coplanarDistance : (Bool × Char × Char) × (Bool × Char × Char) := ('
           + ', '.join(f"({str(a).lower()}, '{p}', '{n}')" for a, p, n in specs) + ')')
    return txt, fn


def build_T13o(tree):
    spans = []
    out = []
    # tolerances
    for py, ln, doc in (('_DEFAULT_EQUALITY_TOLERANCE', 'equalityTolerance', 'tolerance of equality tests (coplanarity, orthogonality)'),
                        ('_DOT_PRODUCT_PERPENDICULAR_TOLERANCE', 'perpendicularTolerance', 'tolerance on the cosine of the stacking direction'),
                        ('_DEFAULT_SPACING_RELATIVE_TOLERANCE', 'spacingRelativeTolerance', 'default relative tolerance of slice spacings')):
        t, node = _module_float(tree, py)
        out.append(f'/-- spatial.{py}: {doc} -/\ndef {ln} : Rat := {t}')
        spans.append(node)
    t, node = _coplanar_decision(tree)
    out.append(t)
    spans.append(node)
    # PATIENT_ORIENTATION_OPPOSITES
    n = _module_assign(tree, 'PATIENT_ORIENTATION_OPPOSITES')
    if not isinstance(n.value, ast.Dict):
        raise Unsupported('PATIENT_ORIENTATION_OPPOSITES is not a dict literal')
    rows = [f'({_ch(_enum_letter(k))}, {_ch(_enum_letter(v))})' for k, v in zip(n.value.keys, n.value.values)]
    out.append(lean_table('orientationOpposites', 'List (Char × Char)', rows, 'spatial.PATIENT_ORIENTATION_OPPOSITES'))
    spans.append(n)
    # VOLUME_INDEX_CONVENTION
    n = _module_assign(tree, 'VOLUME_INDEX_CONVENTION')
    if not isinstance(n.value, ast.Tuple):
        raise Unsupported('VOLUME_INDEX_CONVENTION is not a tuple literal')
    out.append(lean_table('volumeIndexConvention', 'List Char', [_ch(_enum_letter(e)) for e in n.value.elts],
                          'spatial.VOLUME_INDEX_CONVENTION'))
    spans.append(n)
    # direction_to_vector_mapping
    fn = find_func(tree, 'rotation_for_patient_orientation')
    n = _assign_in(fn, 'direction_to_vector_mapping')[0]
    if not isinstance(n.value, ast.Dict):
        raise Unsupported('direction_to_vector_mapping is not a dict literal')
    rows = []
    for k, v in zip(n.value.keys, n.value.values):
        if not (isinstance(v, ast.Call) and ast.unparse(v.func) == 'np.array' and len(v.args) == 1
                and isinstance(v.args[0], ast.List) and len(v.args[0].elts) == 3):
            raise Unsupported('direction vector is not np.array([a, b, c])')
        a, b, c = (_num(e) for e in v.args[0].elts)
        rows.append(f'({_ch(_enum_letter(k))}, (({a} : Int), ({b} : Int), ({c} : Int)))')
    out.append(lean_table('directionToVector', 'List (Char × (Int × Int × Int))', rows,
                          'rotation_for_patient_orientation.direction_to_vector_mapping'))
    spans.append(n)
    # pos_directions / neg_directions
    fn = find_func(tree, 'get_closest_patient_orientation')
    for py, ln in (('pos_directions', 'posDirections'), ('neg_directions', 'negDirections')):
        n = _assign_in(fn, py)[0]
        if not isinstance(n.value, ast.List):
            raise Unsupported(f'{py} is not a list literal')
        out.append(lean_table(ln, 'List Char', [_ch(_enum_letter(e)) for e in n.value.elts],
                              f'get_closest_patient_orientation.{py}'))
        spans.append(n)
    # the final sign test `if alignments[i, d] > 0: pos else: neg`
    sign_if = [x for x in ast.walk(fn) if isinstance(x, ast.If) and ast.unparse(x.test) == 'alignments[i, d] > 0']
    if len(sign_if) != 1 or 'pos_directions[i]' not in ast.unparse(sign_if[0].body[0]) \
            or 'neg_directions[i]' not in ast.unparse(sign_if[0].orelse[0]):
        raise Unsupported('sign test of get_closest_patient_orientation changed')
    spans.append(sign_if[0])
    # axis tables
    fn = find_func(tree, 'create_rotation_matrix')
    rows, loop = _axis_table(fn, True)
    out.append(lean_table(
        'rotationAxisTable', 'List (Char × (Int × Bool × Bool))',
        [f'({_ch(l)}, (({s} : Int), {str(r).lower()}, {str(c).lower()}))' for l, s, r, c in rows],
        'create_rotation_matrix: index direction -> (sign, uses row cosines, uses spacing between columns)'))
    spans.append(loop)
    (rh, lh, node) = _handed_branch(fn)
    out.append(f'/-- create_rotation_matrix: operand order of np.cross for right- / left-handed -/\n'
               f'def rotationCrossOrder : (Nat × Nat) × (Nat × Nat) := (({rh[0]}, {rh[1]}), ({lh[0]}, {lh[1]}))')
    spans.append(node)
    sf, node = _slices_first(fn)
    out.append('/-- create_rotation_matrix: slice axis goes first exactly when `slices_first` -/\n'
               f'def slicesFirstPutsNormalFirst : Bool := {str(sf).lower()}')
    spans.append(node)
    fn = find_func(tree, 'get_normal_vector')
    rows, loop = _axis_table(fn, False)
    out.append(lean_table(
        'normalAxisTable', 'List (Char × (Int × Bool))',
        [f'({_ch(l)}, (({s} : Int), {str(r).lower()}))' for l, s, r, _ in rows],
        'get_normal_vector: index direction -> (sign, uses row cosines)'))
    spans.append(loop)
    (rh, lh, node) = _handed_branch(fn)
    out.append(f'/-- get_normal_vector: operand order of np.cross for right- / left-handed -/\n'
               f'def normalCrossOrder : (Nat × Nat) × (Nat × Nat) := (({rh[0]}, {rh[1]}), ({lh[0]}, {lh[1]}))')
    spans.append(node)
    # half-pixel corrections
    for qual, name, ln, which in (
            ('ImageToReferenceTransformer.__init__', 'correction_affine', 'imgToRefCorrection', 0),
            ('ReferenceToImageTransformer.__init__', 'correction_affine', 'refToImgCorrection', 0),
            ('ImageToImageTransformer.__init__', 'pix_to_im', 'pixToImCorrection', 0),
            ('ImageToImageTransformer.__init__', 'im_to_pix', 'imToPixCorrection', 0)):
        fn = find_func(tree, qual)
        t, node = _matrix44(fn, name, which)
        out.append(f'/-- translation column of `{name}` in `{qual}` (rest of the matrix is the identity) -/\n'
                   f'def {ln} : Rat × Rat × Rat := ({t[0]}, {t[1]}, {t[2]})')
        spans.append(node)
    return '\n\n'.join(out), span_sha(spans)


def _enum_members(tree, cls):
    for n in tree.body:
        if isinstance(n, ast.ClassDef) and n.name == cls:
            out = []
            for st in n.body:
                if isinstance(st, ast.Assign) and len(st.targets) == 1 and isinstance(st.targets[0], ast.Name):
                    if not (isinstance(st.value, ast.Constant) and isinstance(st.value.value, str)):
                        raise Unsupported(f'{cls}.{st.targets[0].id} is not a string literal')
                    out.append((st.targets[0].id, st.value.value))
            return out, n
    raise Unsupported(f'enum {cls} not found')


def build_T13e(tree):
    out, spans = [], []
    for cls, ln in (('PatientOrientationValuesBiped', 'bipedValues'), ('PixelIndexDirections', 'pixelIndexDirections')):
        mem, node = _enum_members(tree, cls)
        for name, val in mem:
            if name != val or len(val) != 1:
                raise Unsupported(f'{cls}.{name} = {val!r}: member name and value differ')
        out.append(lean_table(ln, 'List Char', [_ch(v) for _, v in mem], f'members of enum.{cls}'))
        spans.append(node)
    mem, node = _enum_members(tree, 'AxisHandedness')
    out.append(lean_table('axisHandednessValues', 'List String', [f'"{v}"' for _, v in mem], 'members of enum.AxisHandedness'))
    spans.append(node)
    return '\n\n'.join(out), span_sha(spans)


TARGETS = {
    'T13o': {'file': 'spatial.py', 'build': build_T13o},
    'T13e': {'file': 'enum.py', 'build': build_T13e},
}


# ---------------------------------------------------------------------------------------------------------------------------
# T13w  "argument writes": every statement of the coordinate helpers that stores IN PLACE into an object that may be (a view of)
# an argument of the caller.  Flow-ordered may-alias analysis per function:
#   * a parameter is `given` unless its annotation is a plain immutable type (int, float, bool, str, enums);
#   * a local becomes `alias` when it is bound to a given/alias name, to np.asarray / np.asanyarray / np.ascontiguousarray /
#     np.asfortranarray / np.atleast_*d / np.array(..., copy=False) of one, to a view of one (.T, .reshape, .ravel, .squeeze,
#     .view, .swapaxes, .transpose, np.squeeze/np.reshape/np.transpose(x), a subscript x[...], an attribute chain), or to a
#     conditional expression / tuple element of those; anything else (np.array(x), x.copy(), x.astype(...), arithmetic, calls)
#     makes it `fresh`;
#   * writes: augmented assignment to a given/alias array name or to a subscript / attribute of one, plain assignment to a
#     subscript of one, `out=` arguments and mutating methods (sort, fill, resize, put, itemset, append, extend, insert, pop,
#     remove, clear, reverse, update, setdefault, __setitem__, __delitem__) on one, `del x[...]`.
# The table is expected to be EMPTY; `helpers_never_write_arguments` in Props/C10.lean states that.
_W_FUNCS = [
    'get_normal_vector', 'create_rotation_matrix', '_stack_affine_matrix', 'create_affine_matrix_from_attributes',
    '_create_inv_affine_matrix_from_attributes', 'rotation_for_patient_orientation', 'create_affine_matrix_from_components',
    '_transform_affine_matrix', '_translate_affine_matrix', '_transform_affine_to_convention', 'get_closest_patient_orientation',
    '_is_matrix_orthogonal', '_are_images_coplanar', '_normalize_pixel_index_convention', '_normalize_patient_orientation',
    'PixelToReferenceTransformer.__init__', 'PixelToReferenceTransformer.__call__',
    'ReferenceToPixelTransformer.__init__', 'ReferenceToPixelTransformer.__call__',
    'PixelToPixelTransformer.__init__', 'PixelToPixelTransformer.__call__',
    'ImageToReferenceTransformer.__init__', 'ImageToReferenceTransformer.__call__',
    'ReferenceToImageTransformer.__init__', 'ReferenceToImageTransformer.__call__',
    'ImageToImageTransformer.__init__', 'ImageToImageTransformer.__call__',
    'map_pixel_into_coordinate_system', 'map_coordinate_into_pixel_matrix', 'compute_tile_positions_per_frame',
    'get_volume_positions', 'get_series_volume_positions', 'get_plane_sort_index', 'get_dataset_sort_index', 'sort_datasets',
    '_get_slice_distances', '_get_spatial_information',
]
_W_IMMUTABLE = {'int', 'float', 'bool', 'str', 'bytes', 'int | None', 'float | None', 'bool | None', 'str | None'}
_W_ASVIEW = {'np.asarray', 'np.asanyarray', 'np.ascontiguousarray', 'np.asfortranarray', 'np.atleast_1d', 'np.atleast_2d',
             'np.atleast_3d', 'np.squeeze', 'np.reshape', 'np.transpose', 'np.ravel', 'np.swapaxes', 'np.moveaxis',
             'np.expand_dims', 'np.broadcast_to'}
_W_VIEWMETH = {'reshape', 'ravel', 'squeeze', 'view', 'swapaxes', 'transpose', 'T', 'flat', 'real', 'imag'}
_W_MUT = {'sort', 'fill', 'resize', 'put', 'itemset', 'append', 'extend', 'insert', 'pop', 'remove', 'clear', 'reverse', 'update',
          'setdefault', '__setitem__', '__delitem__', 'setflags', 'partition'}


def _w_base(node):
    while isinstance(node, (ast.Subscript, ast.Attribute, ast.Starred)):
        node = node.value
    return node.id if isinstance(node, ast.Name) else None


def _w_may_alias(node, kinds):
    """does the value of this expression possibly share memory with a given/alias object?"""
    if isinstance(node, ast.Name):
        return kinds.get(node.id) in ('given', 'alias')
    if isinstance(node, (ast.Subscript, ast.Starred)):
        return _w_may_alias(node.value, kinds)
    if isinstance(node, ast.Attribute):
        return _w_may_alias(node.value, kinds)
    if isinstance(node, ast.IfExp):
        return _w_may_alias(node.body, kinds) or _w_may_alias(node.orelse, kinds)
    if isinstance(node, (ast.Tuple, ast.List)):
        return False                      # a new container (its elements are not written through it by these helpers)
    if isinstance(node, ast.NamedExpr):
        return _w_may_alias(node.value, kinds)
    if isinstance(node, ast.Call):
        fn = ast.unparse(node.func)
        if fn in _W_ASVIEW and node.args:
            return _w_may_alias(node.args[0], kinds)
        if fn == 'np.array' and node.args:
            for kw in node.keywords:
                if kw.arg == 'copy' and not (isinstance(kw.value, ast.Constant) and kw.value.value is True):
                    return _w_may_alias(node.args[0], kinds)
            return False
        if isinstance(node.func, ast.Attribute) and node.func.attr in _W_VIEWMETH:
            return _w_may_alias(node.func.value, kinds)
        return False
    return False


def _w_scan(fn, qual):
    kinds = {}
    for a in fn.args.posonlyargs + fn.args.args + fn.args.kwonlyargs:
        ann = ast.unparse(a.annotation) if a.annotation is not None else ''
        kinds[a.arg] = 'fresh' if (a.arg in ('self', 'cls') or ann in _W_IMMUTABLE) else 'given'
    rows = []

    def note(name, st):
        rows.append((qual, name, ' '.join(ast.unparse(st).split())[:120]))

    def bind(t, value):
        if isinstance(t, ast.Name):
            kinds[t.id] = 'alias' if (value is not None and _w_may_alias(value, kinds)) else 'fresh'
        elif isinstance(t, (ast.Tuple, ast.List)):
            for e in t.elts:
                bind(e.value if isinstance(e, ast.Starred) else e, None)

    def visit(stmts):
        for st in stmts:
            if isinstance(st, (ast.FunctionDef, ast.ClassDef, ast.AsyncFunctionDef)):
                continue
            # expression-level writes anywhere inside the statement
            for node in ast.walk(st):
                if isinstance(node, ast.Call):
                    for kw in node.keywords:
                        if kw.arg == 'out' and _w_may_alias(kw.value, kinds):
                            note(_w_base(kw.value) or '?', st)
                    if isinstance(node.func, ast.Attribute) and node.func.attr in _W_MUT and _w_may_alias(node.func.value, kinds):
                        note(_w_base(node.func.value) or '?', st)
            if isinstance(st, ast.AugAssign):
                t = st.target
                if isinstance(t, ast.Name):
                    if kinds.get(t.id) in ('given', 'alias'):
                        note(t.id, st)
                elif _w_may_alias(t, kinds):
                    note(_w_base(t) or '?', st)
            elif isinstance(st, ast.Assign):
                for t in st.targets:
                    if isinstance(t, (ast.Subscript, ast.Attribute)) and _w_may_alias(t.value if isinstance(t, ast.Subscript) else t.value, kinds) \
                            and not (isinstance(t, ast.Attribute) and isinstance(t.value, ast.Name) and t.value.id == 'self'):
                        note(_w_base(t) or '?', st)
                for t in st.targets:
                    bind(t, st.value)
            elif isinstance(st, ast.AnnAssign) and st.value is not None:
                bind(st.target, st.value)
            elif isinstance(st, ast.Delete):
                for t in st.targets:
                    if isinstance(t, ast.Subscript) and _w_may_alias(t.value, kinds):
                        note(_w_base(t) or '?', st)
            elif isinstance(st, (ast.For, ast.AsyncFor)):
                bind(st.target, ast.Subscript(value=st.iter, slice=ast.Constant(0)) if _w_may_alias(st.iter, kinds) else None)
                visit(st.body)
                visit(st.orelse)
            elif isinstance(st, ast.While):
                visit(st.body)
                visit(st.orelse)
            elif isinstance(st, ast.If):
                before = dict(kinds)
                visit(st.body)
                after_body = dict(kinds)
                kinds.clear()
                kinds.update(before)
                visit(st.orelse)
                for k2, v2 in after_body.items():         # may-alias: the union of both branches
                    if v2 in ('given', 'alias') or k2 not in kinds:
                        kinds[k2] = v2
            elif isinstance(st, (ast.With, ast.AsyncWith)):
                visit(st.body)
            elif isinstance(st, ast.Try):
                visit(st.body)
                for h in st.handlers:
                    visit(h.body)
                visit(st.orelse)
                visit(st.finalbody)

    visit(fn.body)
    return rows


def build_T13w(tree):
    rows, spans = [], []
    for q in _W_FUNCS:
        fn = find_func(tree, q)
        spans.append(fn)
        rows += _w_scan(fn, q)
    esc = lambda t: t.replace('\\', '\\\\').replace('"', '\\"')
    body = ('[' + ',\n   '.join(f'("{esc(a)}", "{esc(b)}", "{esc(c)}")' for a, b, c in rows) + ']') if rows else '[]'
    text = ('/-- spatial.py coordinate helpers: every in-place store into an object that may be (a view of) an argument of the caller\n'
            '(function, written name, statement); expected to be empty -/\n'
            f'def argumentWrites : List (String × String × String) :=\n  {body}\n\n'
            f'/-- the functions that were scanned -/\ndef argumentWritesScanned : Nat := {len(_W_FUNCS)}')
    return text, span_sha(spans)


TARGETS['T13w'] = {'file': 'spatial.py', 'build': build_T13w}


# ---------------------------------------------------------------------------------------------------------------------------
# TC10f  "forwarding and formulas": what the hand-written model of the transformers, of create_affine_matrix_from_components and
# of compute_tile_positions_per_frame copies from the source by hand:
#   * the defaults of create_affine_matrix_from_attributes / _create_inv_affine_matrix_from_attributes / create_rotation_matrix;
#   * for every transformer constructor: which constructor argument reaches which keyword of the affine constructors and of
#     _are_images_coplanar (a polymorphic Lean function per call: a swapped or extra argument changes it), and the order of the
#     factors of the matrix product (a Lean function over an abstract product);
#   * the keywords _create_inv_affine_matrix_from_attributes passes to create_rotation_matrix (the others take the defaults);
#   * create_affine_matrix_from_components: centre index, position from the centre, scaled direction (scalar readings);
#   * compute_tile_positions_per_frame: pixel index of a tile, the 1-based shift, that positions are computed BEFORE the shift,
#     the arguments of the transformer.
# lean/HdVerif/Proofs/AffineTie.lean proves that the hand-written definitions are equal to twins built from these.

from targets_C11 import _call_shape, _one, scalar_def  # noqa: E402

_GEOM_FLAGS = {'self', 'round_output', 'drop_slice_index', 'drop_slice_coord'}
_AFFINE_SLOTS = (('image_position', True), ('image_orientation', True), ('pixel_spacing', True), ('spacing_between_slices', False))
_COPLANAR_SLOTS = (('image_position_a', True), ('image_orientation_a', True), ('image_position_b', True), ('image_orientation_b', True))
_ROTATION_SLOTS = (('image_orientation', True), ('index_convention', False), ('slices_first', False), ('handedness', False),
                   ('pixel_spacing', False), ('spacing_between_slices', False))
_ROTATION_ABSENT_T = {'index_convention': 'List Char', 'slices_first': 'Bool', 'handedness': 'Bool', 'pixel_spacing': 'Rat',
                      'spacing_between_slices': 'Rat'}


def _forward_def(fn, call, slots, lean_name, doc, absent_types=None):
    """the keyword call `call` inside `fn` as a polymorphic Lean function of fn's geometry parameters: one component per callee
    slot (`some v` / `none` for optional ones)"""
    if not isinstance(call, ast.Call) or call.args:
        raise Unsupported(f'{lean_name}: keyword-only call expected: {ast.unparse(call)}')
    params = [a.arg for a in fn.args.args if a.arg not in _GEOM_FLAGS]
    kw = {}
    for k in call.keywords:
        if k.arg is None or k.arg in kw:
            raise Unsupported(f'{lean_name}: unsupported keyword in {ast.unparse(call)}')
        if not (isinstance(k.value, ast.Name) and k.value.id in params):
            raise Unsupported(f'{lean_name}: {k.arg}={ast.unparse(k.value)} is not a constructor argument')
        kw[k.arg] = k.value.id
    unknown = set(kw) - {s for s, _ in slots}
    if unknown:
        raise Unsupported(f'{lean_name}: keywords {sorted(unknown)} are not modelled')
    tv = {p: f'T{i}' for i, p in enumerate(params)}
    comps, types = [], []
    for s, required in slots:
        if s in kw:
            comps.append(kw[s] if required else f'some {kw[s]}')
            types.append(tv[kw[s]] if required else f'Option {tv[kw[s]]}')
        elif required:
            raise Unsupported(f'{lean_name}: required argument {s} is not passed')
        else:
            comps.append('none')
            t = (absent_types or {}).get(s, 'Rat')
            types.append(f'Option ({t})' if ' ' in t else f'Option {t}')
    sig = ' '.join(f'({p} : {tv[p]})' for p in params)
    tvs = ' '.join(tv[p] for p in params)
    return (f'/-- {doc} -/\ndef {lean_name} {{{tvs} : Type}} {sig} :\n    {" × ".join(types)} :=\n  ({", ".join(comps)})')


def _product_def(expr, names, lean_name, doc):
    """a product of named matrices (np.dot(a, b), a @ b, nested) as a Lean function over an abstract product"""
    used = []

    def go(e):
        if isinstance(e, ast.Name):
            if e.id not in names:
                raise Unsupported(f'{lean_name}: unexpected factor {e.id}')
            used.append(e.id)
            return e.id
        if isinstance(e, ast.BinOp) and isinstance(e.op, ast.MatMult):
            return f'(mul {go(e.left)} {go(e.right)})'
        if isinstance(e, ast.Call) and ast.unparse(e.func) == 'np.dot' and len(e.args) == 2 and not e.keywords:
            return f'(mul {go(e.args[0])} {go(e.args[1])})'
        raise Unsupported(f'{lean_name}: not a matrix product: {ast.unparse(e)}')
    body = go(expr)
    if sorted(used) != sorted(names):
        raise Unsupported(f'{lean_name}: factors {used}, expected {list(names)}')
    return f'/-- {doc} -/\ndef {lean_name} {{M : Type}} (mul : M → M → M) {" ".join(f"({n} : M)" for n in names)} : M :=\n  {body}'


def _local_assign(fn, name):
    return _one((n for n in ast.walk(fn) if isinstance(n, ast.Assign) and len(n.targets) == 1
                 and ast.unparse(n.targets[0]) == name), f'{fn.name}: assignment of {name}')


def _defaults(fn):
    args = fn.args.args
    return {a.arg: d for a, d in zip(args[len(args) - len(fn.args.defaults):], fn.args.defaults)}


def _handed(node, what):
    t = ast.unparse(node)
    if t == 'AxisHandedness.RIGHT_HANDED':
        return 'true'
    if t == 'AxisHandedness.LEFT_HANDED':
        return 'false'
    raise Unsupported(f'{what}: handedness default {t}')


def _conv(node, what):
    if not isinstance(node, ast.Tuple):
        raise Unsupported(f'{what}: index_convention default {ast.unparse(node)}')
    return '[' + ', '.join(_ch(_enum_letter(e)) for e in node.elts) + ']'


def _boolc(node, what):
    if isinstance(node, ast.Constant) and isinstance(node.value, bool):
        return str(node.value).lower()
    raise Unsupported(f'{what}: not a bool literal: {ast.unparse(node)}')


def build_TC10f(tree):
    out, spans = [], []
    # ---- defaults
    fa = find_func(tree, 'create_affine_matrix_from_attributes')
    d = _defaults(fa)
    if set(d) != {'spacing_between_slices', 'index_convention', 'slices_first', 'handedness'}:
        raise Unsupported(f'create_affine_matrix_from_attributes: optional parameters {sorted(d)}')
    out.append('/-- defaults of create_affine_matrix_from_attributes -/\n'
               f'def affineDefaultSpacingBetweenSlices : Rat := {_rat(d["spacing_between_slices"])}\n'
               f'def affineDefaultConvention : List Char := {_conv(d["index_convention"], fa.name)}\n'
               f'def affineDefaultSlicesFirst : Bool := {_boolc(d["slices_first"], fa.name)}\n'
               f'def affineDefaultRightHanded : Bool := {_handed(d["handedness"], fa.name)}')
    spans.append(fa.args)
    fi = find_func(tree, '_create_inv_affine_matrix_from_attributes')
    d = _defaults(fi)
    if set(d) != {'spacing_between_slices'}:
        raise Unsupported(f'_create_inv_affine_matrix_from_attributes: optional parameters {sorted(d)}')
    out.append('/-- default of _create_inv_affine_matrix_from_attributes -/\n'
               f'def invAffineDefaultSpacingBetweenSlices : Rat := {_rat(d["spacing_between_slices"])}')
    spans.append(fi.args)
    fr = find_func(tree, 'create_rotation_matrix')
    d = _defaults(fr)
    if set(d) != {'index_convention', 'slices_first', 'handedness', 'pixel_spacing', 'spacing_between_slices'}:
        raise Unsupported(f'create_rotation_matrix: optional parameters {sorted(d)}')
    out.append('/-- defaults of create_rotation_matrix -/\n'
               f'def rotationDefaultConvention : List Char := {_conv(d["index_convention"], fr.name)}\n'
               f'def rotationDefaultSlicesFirst : Bool := {_boolc(d["slices_first"], fr.name)}\n'
               f'def rotationDefaultRightHanded : Bool := {_handed(d["handedness"], fr.name)}\n'
               f'def rotationDefaultPixelSpacing : Rat := {_rat(d["pixel_spacing"])}\n'
               f'def rotationDefaultSpacingBetweenSlices : Rat := {_rat(d["spacing_between_slices"])}')
    spans.append(fr.args)
    # ---- the inverse constructor: rotation call, inverse, translation
    a = _local_assign(fi, 'rotation')
    if ast.unparse(a.value.func) != 'create_rotation_matrix':
        raise Unsupported('_create_inv_affine_matrix_from_attributes: rotation is not create_rotation_matrix(...)')
    out.append(_forward_def(fi, a.value, _ROTATION_SLOTS, 'invAffineRotationCall',
                            '_create_inv_affine_matrix_from_attributes: arguments of create_rotation_matrix (none = its default)',
                            _ROTATION_ABSENT_T))
    spans.append(a)
    a = _local_assign(fi, 'inv_rotation')
    _call_shape(a.value, 'np.linalg.inv', ['rotation'], {}, 'inv_rotation')
    spans.append(a)
    ret = _one((n for n in fi.body if isinstance(n, ast.Return)), 'return of the inverse constructor')
    _call_shape(ret.value, '_stack_affine_matrix', [], {'rotation': 'inv_rotation', 'translation': '-np.dot(inv_rotation, translation)'},
                'return of the inverse constructor')
    spans.append(ret)
    a = _local_assign(fi, 'translation')
    if ast.unparse(a.value) != 'np.array([float(x) for x in image_position], dtype=float)':
        raise Unsupported(f'inverse constructor: translation is {ast.unparse(a.value)}')
    spans.append(a)
    # ---- transformer constructors
    AFF, INV = 'create_affine_matrix_from_attributes', '_create_inv_affine_matrix_from_attributes'

    def ctor_call(fn, target, callee, lean, what):
        a = _local_assign(fn, target)
        if not isinstance(a.value, ast.Call) or ast.unparse(a.value.func) != callee:
            raise Unsupported(f'{what}: {target} is not {callee}(...)')
        out.append(_forward_def(fn, a.value, _AFFINE_SLOTS, lean, f'{what}: arguments of {callee} (none = its default)'))
        spans.append(a)

    def coplanar(fn, lean, what):
        iff = _one((n for n in fn.body if isinstance(n, ast.If) and '_are_images_coplanar' in ast.unparse(n.test)), f'{what}: coplanarity test')
        if not (isinstance(iff.test, ast.UnaryOp) and isinstance(iff.test.op, ast.Not) and len(iff.body) == 1
                and isinstance(iff.body[0], ast.Raise) and ast.unparse(iff.body[0].exc.func) == 'ValueError' and not iff.orelse):
            raise Unsupported(f'{what}: coplanarity test is not `if not _are_images_coplanar(...): raise ValueError`')
        out.append(_forward_def(fn, iff.test.operand, _COPLANAR_SLOTS, lean, f'{what}: arguments of _are_images_coplanar'))
        spans.append(iff)

    def product(fn, names, lean, what):
        a = _local_assign(fn, 'self._affine')
        out.append(_product_def(a.value, names, lean, f'{what}: self._affine as a product of the named matrices'))
        spans.append(a)

    fn = find_func(tree, 'PixelToReferenceTransformer.__init__')
    ctor_call(fn, 'self._affine', AFF, 'pixToRefCall', 'PixelToReferenceTransformer')
    fn = find_func(tree, 'ReferenceToPixelTransformer.__init__')
    ctor_call(fn, 'self._affine', INV, 'refToPixCall', 'ReferenceToPixelTransformer')
    fn = find_func(tree, 'PixelToPixelTransformer.__init__')
    coplanar(fn, 'pixToPixCoplanarCall', 'PixelToPixelTransformer')
    ctor_call(fn, 'pix_to_ref', AFF, 'pixToPixForwardCall', 'PixelToPixelTransformer (pix_to_ref)')
    ctor_call(fn, 'ref_to_pix', INV, 'pixToPixInverseCall', 'PixelToPixelTransformer (ref_to_pix)')
    product(fn, ['pix_to_ref', 'ref_to_pix'], 'pixToPixProduct', 'PixelToPixelTransformer')
    fn = find_func(tree, 'ImageToReferenceTransformer.__init__')
    ctor_call(fn, 'affine', AFF, 'imgToRefCall', 'ImageToReferenceTransformer')
    product(fn, ['affine', 'correction_affine'], 'imgToRefProduct', 'ImageToReferenceTransformer')
    fn = find_func(tree, 'ReferenceToImageTransformer.__init__')
    ctor_call(fn, 'affine', INV, 'refToImgCall', 'ReferenceToImageTransformer')
    product(fn, ['affine', 'correction_affine'], 'refToImgProduct', 'ReferenceToImageTransformer')
    fn = find_func(tree, 'ImageToImageTransformer.__init__')
    coplanar(fn, 'imgToImgCoplanarCall', 'ImageToImageTransformer')
    ctor_call(fn, 'pix_to_ref', AFF, 'imgToImgForwardCall', 'ImageToImageTransformer (pix_to_ref)')
    ctor_call(fn, 'ref_to_pix', INV, 'imgToImgInverseCall', 'ImageToImageTransformer (ref_to_pix)')
    product(fn, ['pix_to_im', 'ref_to_pix', 'pix_to_ref', 'im_to_pix'], 'imgToImgProduct', 'ImageToImageTransformer')
    # ---- create_affine_matrix_from_components
    fn = find_func(tree, 'create_affine_matrix_from_components')
    a = _local_assign(fn, 'center_index')
    out.append(scalar_def(a.value, 'centerIndex', [('extent', 'int')], {'shape_arr': 'extent'},
                          'create_affine_matrix_from_components: index of the array centre along an axis of this extent'))
    spans.append(a)
    a = _one((n for n in ast.walk(fn) if isinstance(n, ast.Assign) and ast.unparse(n.targets[0]) == 'position_arr'
              and 'center_position_arr' in ast.unparse(n.value)), 'position_arr from the centre')
    out.append(scalar_def(a.value, 'centerToPosition', [('center', 'rat'), ('moved', 'rat')],
                          {'center_position_arr': 'center', 'scaled_direction @ center_index.T': 'moved'},
                          'create_affine_matrix_from_components: a coordinate of the position from that of the centre and of '
                          '`scaled_direction @ center_index`'))
    spans.append(a)
    a = _local_assign(fn, 'scaled_direction')
    out.append(scalar_def(a.value, 'scaledDirectionEntry', [('entry', 'rat'), ('spacing', 'rat')], {'direction_arr': 'entry'},
                          'create_affine_matrix_from_components: an entry of the scaled direction (numpy broadcasting: column j '
                          'with spacing[j])'))
    spans.append(a)
    a = _local_assign(fn, 'affine')
    _call_shape(a.value, '_stack_affine_matrix', ['scaled_direction', 'position_arr'], {}, 'affine (components)')
    spans.append(a)
    # ---- compute_tile_positions_per_frame
    fn = find_func(tree, 'compute_tile_positions_per_frame')
    a = _local_assign(fn, 'tile_indices')
    if ast.unparse(a.value) != "np.stack(np.meshgrid(range(tiles_per_column), range(tiles_per_row), indexing='xy')).reshape(2, -1).T":
        raise Unsupported(f'tile_indices is {ast.unparse(a.value)}')
    spans.append(a)
    a = _local_assign(fn, 'pixel_indices')
    v = a.value
    if not (isinstance(v, ast.BinOp) and isinstance(v.op, ast.Mult) and ast.unparse(v.left) == 'tile_indices'
            and isinstance(v.right, ast.List) and len(v.right.elts) == 2
            and all(isinstance(e, ast.Name) and e.id in ('columns', 'rows') for e in v.right.elts)):
        raise Unsupported(f'pixel_indices is {ast.unparse(v)}')
    e0, e1 = (e.id for e in v.right.elts)
    out.append('/-- compute_tile_positions_per_frame: 0-based (column, row) pixel index of the tile in tile column / tile row '
               '(tile_indices * [.., ..]) -/\n'
               'def tilePixelIndex (tile_column tile_row columns rows : Int) : Int × Int :=\n'
               f'  (tile_column * {e0}, tile_row * {e1})')
    spans.append(a)
    i_pix = fn.body.index(a)
    tr = _local_assign(fn, 'transformer')
    if ast.unparse(tr.value.func) != 'PixelToReferenceTransformer':
        raise Unsupported('tiles: transformer is not a PixelToReferenceTransformer')
    out.append(_forward_def(fn, tr.value, _AFFINE_SLOTS[:3], 'tileTransformerCall',
                            'compute_tile_positions_per_frame: arguments of PixelToReferenceTransformer'))
    spans.append(tr)
    ip = _local_assign(fn, 'image_positions')
    _call_shape(ip.value, 'transformer', ['pixel_indices'], {}, 'image_positions (tiles)')
    spans.append(ip)
    aug = _one((n for n in fn.body if isinstance(n, ast.AugAssign) and ast.unparse(n.target) == 'pixel_indices'), 'pixel_indices += ...')
    if not isinstance(aug.op, ast.Add):
        raise Unsupported(f'tiles: {ast.unparse(aug)}')
    out.append(scalar_def(ast.BinOp(left=ast.Name(id='index', ctx=ast.Load()), op=ast.Add(), right=aug.value), 'tileOneBased',
                          [('index', 'int')], {}, 'compute_tile_positions_per_frame: the reported offset of a 0-based pixel index'))
    spans.append(aug)
    i_tr, i_aug = fn.body.index(ip), fn.body.index(aug)
    if not i_pix < i_tr:
        raise Unsupported('tiles: positions computed before the pixel indices')
    out.append('/-- compute_tile_positions_per_frame: the positions are computed from the pixel indices BEFORE these are shifted -/\n'
               f'def tilePositionsBeforeShift : Bool := {str(i_tr < i_aug).lower()}')
    ret = _one((n for n in fn.body if isinstance(n, ast.Return)), 'return (tiles)')
    if ast.unparse(ret.value) != 'list(zip(pixel_indices.tolist(), image_positions.tolist()))':
        raise Unsupported(f'tiles return {ast.unparse(ret.value)}')
    spans.append(ret)
    return '\n\n'.join(out), span_sha(spans)


TARGETS['TC10f'] = {'file': 'spatial.py', 'build': build_TC10f}
